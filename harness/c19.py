"""C19 — lazy bootstrapping equals eager bootstrapping under every thread interleaving.

Correspondence of coq/Conc/BootstrapModel.v with spec_classes/spec_class.py under a
deterministic line-level scheduler, and the property oracle (lazy run indistinguishable
from the eager sequential reference) on the implementation's observations."""
import json
import os
import sys
import time
from concurrent.futures import ProcessPoolExecutor

from common import Check, JOBS, cbool, clist, coq_eval, czlist

PRELUDE = """From Coq Require Import List ZArith Bool.
From SC Require Import Base.Res Corr.Enc Conc.BootstrapModel Conc.BootstrapSpec Corr.BootCorr.
Import ListNotations.
Open Scope nat_scope.
"""
DK = {0: "DNone", 1: "DValue", 2: "DFactory"}


# ------------------------------------------------------------------ Coq terms
def c_cell(a):
    n, form, dk, ini, rep, cmp_, typ = a
    if form == "none":
        return f"({n}, CAbsent)"
    if form == "plain":
        return f"({n}, CVal)"
    return f"({n}, CAttr {DK[dk]} {cbool(ini)} {cbool(rep)} {cbool(cmp_)})"


def c_table(desc):
    rows = []
    for c in desc["classes"]:
        key = "None" if c.get("key") is None else f"(Some (Some {c['key']}))"
        rows.append(f"mkC {clist(c['attrs'], c_cell)} {key} {cbool(bool(c.get('frozen')))}")
    return clist(rows)


def c_threads(desc, uses):
    import c19_impl as I
    out = []
    for kind, tgt in uses:
        out.append(f"({cbool(kind in INST_KINDS)}, {cbool(kind in ('fields', 'dcfields'))}, "
                   f"{I.model_tgt(desc, tgt)})")
    return clist(out)


def c_case(desc, uses, events, eager, lazy, out_e, out_l, metas):
    zz = lambda xs: "(" + clist(xs, czlist) + ")%Z"  # noqa: E731
    evs = clist(events, lambda e: f"({e[0]}, {e[1]})")
    return (f"mkcase {c_table(desc)} {c_threads(desc, uses)} {evs} {zz(eager)} {zz(lazy)} "
            f"{zz(out_e)} {zz(out_l)} {zz(metas)}")


# ------------------------------------------------------------------ generation of class descriptions
def gen_desc(rng, tier, force=None):
    """force: None | "zero" (a root class without any managed attribute, first in the chain) |
    "mid" (plain classes between the lazily decorated ones) | "names" (attribute names that are
    parameter names of the library's own wrappers) | "key" (the root class has a key, so every class
    can be given it positionally, and some class defines __new__) | "inv" (Attr(invalidated_by=...)
    declarations / cached spec_property members: the invalidation map is generated on first mutation)"""
    import c19_impl as I
    k = rng.choice([1, 2, 2, 3] if tier == "thorough" else [1, 2, 2])
    if force == "mid":
        k = rng.choice([2, 2, 3])
    classes, visible = [], {}
    for i in range(k):
        nat = rng.choice([0, 1, 1, 2, 2, 3] if tier == "thorough" else [0, 1, 1, 2, 2])
        if force == "zero" and (i == 0 or rng.random() < 0.5):
            nat = 0
        if force == "key" and i == 0:
            nat = max(nat, 1)
        if force == "inv":
            nat = max(nat, 2 if i == 0 else 1)
        names = rng.sample(range(5), nat)
        attrs = []
        for pos, n in enumerate(names):
            form = rng.choice(["attr", "attr", "field", "plain", "none"])
            if force == "key" and i == 0 and pos == 0:
                form = "plain"  # the key (it needs a default so that C() works)
            if force == "inv" and pos == nat - 1:
                form = "attr"
            typ = "int"
            dk, ini, rep, cmp_ = 0, True, True, True
            if form in ("attr", "field"):
                dk = rng.choice([0, 1, 2, 2])
                ini, rep, cmp_ = rng.random() < 0.7, rng.random() < 0.7, rng.random() < 0.7
                if dk != 1 and rng.random() < 0.3:
                    typ = "list"
            if n in visible:
                typ = visible[n]  # keep the type of a re-declared attribute
                if typ == "list" and (form == "plain" or dk == 1):
                    form, dk = "none", 0
                    ini = rep = cmp_ = True
            visible[n] = typ
            attrs.append([n, form, dk, ini, rep, cmp_, typ])
        c = {"attrs": attrs, "key": None, "frozen": False, "new": rng.random() < 0.3}
        # invalidation edges: Attr(invalidated_by=[names visible here]) on attributes declared with Attr,
        # and a cached spec_property member depending on visible attributes
        p_inv = 0.8 if force == "inv" else 0.2
        inv = []
        for a in attrs:
            others = sorted(m for m in visible if m != a[0])
            if a[1] == "attr" and others and rng.random() < p_inv:
                inv.append([a[0], sorted(rng.sample(others, rng.randint(1, min(2, len(others)))))])
        if inv:
            c["inv"] = inv
        if visible and rng.random() < (0.4 if force == "inv" else 0.1):
            c["prop"] = sorted(rng.sample(sorted(visible), rng.randint(1, min(2, len(visible)))))
        if visible and rng.random() < 0.35:  # decorator-level do_not_copy: names visible in this class (own or inherited)
            c["dnc"] = sorted(rng.sample(sorted(visible), rng.randint(1, min(2, len(visible)))))
        if rng.random() < (0.6 if nat == 0 else 0.15):
            c["priv"] = True  # a private annotation (`_cache: dict = None`), not managed
        if i + 1 < k and (force == "mid" and (i == 0 or rng.random() < 0.5) or force != "mid" and rng.random() < 0.25):
            # plain class M<i>(C<i>) between C<i> and C<i+1> (deep: two plain levels M<i>, N<i>)
            c["mid"] = {"new": rng.random() < 0.3, "deep": rng.random() < 0.3}
            if visible and rng.random() < (0.3 if force == "inv" else 0.05):
                c["mid"]["prop"] = [rng.choice(sorted(visible))]
        classes.append(c)
    # a key needs a default so that C() works: only plain int attributes of the class itself
    for c in classes:
        plain = [a[0] for a in c["attrs"] if a[1] == "plain"]
        if plain and (rng.random() < 0.25 or force == "key"):
            c["key"] = plain[0] if force == "key" else rng.choice(plain)
            break
    sub = {"new": rng.random() < 0.5} if rng.random() < (0.6 if force == "zero" else 0.4) else None
    if sub is not None and visible and rng.random() < (0.4 if force == "inv" else 0.05):
        sub["prop"] = [rng.choice(sorted(visible))]
    if force == "key":
        # some __new__ that USES its arguments: on a spec class, on a plain class in between, or both
        holders = [c for c in classes] + [c["mid"] for c in classes if c.get("mid")]
        if not any(h["new"] for h in holders):
            rng.choice(holders)["new"] = True
    d = {"classes": classes, "sub": sub}
    if force == "names" or rng.random() < 0.3:
        names = list(I.NAMES)
        used = sorted(visible) or [0]
        pool = rng.sample(I.COLLIDING, len(I.COLLIDING))
        if force == "names" or rng.random() < 0.5:
            pool = ["cls"] + [x for x in pool if x != "cls"]
        for pos, nm in zip(rng.sample(used, min(len(used), rng.randint(1, 3))), pool):
            names[pos] = nm
        d["names"] = names
    return d


USE_KINDS = ["inst", "instkw", "meta", "fields", "dcfields", "helper", "instpos", "instposkw", "mutate"]
INST_KINDS = ("inst", "instkw", "helper", "instpos", "instposkw", "mutate")  # first uses that instantiate


def valid(desc, uses):
    """every use works on the eagerly bootstrapped classes (otherwise the case says nothing
    about bootstrapping; e.g. a spec subclass of a class with a defaulted init=False attribute
    cannot be constructed at all today - DESIGN section 5 row 15, property C09)"""
    import c19_impl as I
    try:
        outs, _, _ = I.run_eager(desc, uses, I.Interner())
    except BaseException:  # noqa: BLE001
        return False
    return all(o[0] == 1 for o in outs)


def gen_valid(rng, tier, nthreads=None, force=None):
    import c19_impl as I
    for _ in range(200):
        d = gen_desc(rng, tier, force)
        every = [[kind, t] for t in I.targets_of(d) for kind in I.kinds_for(d, t, USE_KINDS)]
        if force == "inv" and not any(I.mut_deps(d, t) for t in I.targets_of(d)):
            continue
        if not valid(d, every):
            continue
        return d
    raise RuntimeError("no valid class description generated")


def pick_use(rng, desc, tgt):
    import c19_impl as I
    return [rng.choice(I.kinds_for(desc, tgt, USE_KINDS)), tgt]


def gen_uses(rng, desc, nthreads):
    import c19_impl as I
    uses = []
    for _ in range(nthreads):
        tgts = I.targets_of(desc)
        # mostly the leaf (so that parents are bootstrapped through the child), sometimes a parent first
        tgt = rng.choice(tgts) if rng.random() < 0.4 else tgts[-1]
        kind = rng.choice(I.kinds_for(desc, tgt, USE_KINDS))
        uses.append([kind, tgt])
    return uses


# ------------------------------------------------------------------ one run (executed in worker processes)
def policy_of(p):
    import c19_sched as S
    if p["kind"] == "preempt":
        return S.Policy(p["first"], {int(a): b for a, b in p["switch"]})
    if p["kind"] == "priority":
        return S.PriorityPolicy(p["prios"], p["changes"])
    return S.ExplicitPolicy(p["tids"])


_EAGER = {}
TERMS = {}  # main process: term hash -> Coq term
ALL_LINES = set()  # main process: executed (file, line) of the traced library files
_SENT = set()
_LINES = set()


def run_one(job):
    """job = (desc, uses, policy dict) -> dict(term hash, term (first time only), steps, new lines, ...)"""
    import hashlib
    import c19_impl as I
    desc, uses, pol = job
    st = I.setup()
    intern = I.Interner()
    key = json.dumps([desc, uses], sort_keys=True)
    if key in _EAGER:
        out_e, eager, metas, saved = _EAGER[key]
        intern.d = dict(saved)
    else:
        out_e, eager, metas = I.run_eager(desc, uses, intern)
        if len(_EAGER) > 64:
            _EAGER.clear()
        _EAGER[key] = (out_e, eager, metas, dict(intern.d))
    r, out_l, lazy, k = I.run_lazy(desc, uses, policy_of(pol), intern)
    events = I.extract(r["log"], k, st["scm"].__file__, I.names_of(desc))
    term = c_case(desc, uses, events, eager, lazy, out_e, out_l, metas)
    h = hashlib.sha1(term.encode()).hexdigest()[:20]
    first = h not in _SENT
    _SENT.add(h)
    lines = {(os.path.basename(e[2][0]), e[2][1]) for e in r["log"] if e[1] == "line"} - _LINES
    _LINES.update(lines)
    diff = []
    if not (eager == lazy and out_e == out_l):
        # the first observations that differ, decoded (what = thread outcome i / class description i / later use)
        back = {v: k for k, v in intern.d.items()}
        dec = lambda x: back.get(x, x)  # noqa: E731
        rows = [(f"outcome of thread {i}", a, b) for i, (a, b) in enumerate(zip(out_e, out_l))]
        rows += [("later sequential use" if i == len(eager) - 1 else f"description of class C{i}", a, b)
                 for i, (a, b) in enumerate(zip(eager, lazy))]
        for what, a, b in rows:
            if a != b:
                j = next((j for j, (x, y) in enumerate(zip(a, b)) if x != y), min(len(a), len(b)))
                diff.append({"what": what, "position": j, "eager": [dec(x) for x in a[j:j + 2]],
                             "lazy": [dec(x) for x in b[j:j + 2]]})
    return {"h": h, "diff": diff[:3], "term": term if first else None, "steps": r["steps"], "deadlock": r["deadlock"],
            "stuck": r["stuck"], "overrun": r["overrun"], "same": (eager == lazy and out_e == out_l),
            "eager_ok": all(o[0] == 1 for o in out_e), "lines": sorted(lines), "nevents": len(events),
            "outs": [o[0] for o in out_l],
            "errors": [(": ".join(o[1:3]) if o is not None and o[0] == "exc" else None) for o in r["outcome"]],
            "key": hashlib.sha1(key.encode()).hexdigest()[:12],
            "preempted": sum(1 for a, b in zip(r["chosen"], r["chosen"][1:]) if a != b)}


def run_twin(job):
    import c19_impl as I
    import c19_twin as T
    I.setup()
    if "dnc" in job[0]:
        return T.dnc_job(job)
    return T.job(job)


def c_twin(r):
    zz = lambda xs: "(" + clist(xs, czlist) + ")%Z"  # noqa: E731
    return f"({zz(r['eager'])}, {zz(r['lazy'])})"


def twin_stage(chk, rng, pool, quick):
    """hierarchies with two bases (lazy / eager twins, sequential triggers); oracle check_twin"""
    import c19_twin as T
    jobs = [(sh, sq) for sh in T.shapes() for sq in T.sequences(sh)]
    if quick:
        must = [j for j in jobs if len(j[0]["bases"]) == 2 and j[1][0] in ("inst", "inst_pos") and not j[0]["own"]]
        rest = [j for j in jobs if j not in must]
        jobs = must + rng.sample(rest, 200)
    dnc = [(sh, sq) for sh in T.dnc_shapes() for sq in T.dnc_sequences(sh)]
    if quick:
        dnc = [j for j in dnc if len(j[0]["dnc"]) == 2] + rng.sample([j for j in dnc if len(j[0]["dnc"]) == 3], 40)
    n_bases = len(jobs)
    jobs = jobs + dnc
    res = list(pool.map(run_twin, jobs, chunksize=8))
    keep = [(j, r) for j, r in zip(jobs, res) if r["eager_ok"]]
    bad, logs = coq_eval("C19", PRELUDE, "check_twin", [c_twin(r) for _, r in keep], shard=150, tag="tw",
                         case_type="list (list Z) * list (list Z)")
    seen = set()
    for i, code in sorted(bad):
        (sh, sq), r = keep[i]
        isd = "dnc" in sh
        sig = ("dnc", len(sh["dnc"])) if isd else (tuple(sh["bases"]), sh["own"])
        if sig in seen or len(seen) >= 4:
            continue
        seen.add(sig)
        diff = [(a, b) for a, b in zip(r["eager_raw"], r["lazy_raw"]) if a != b][:2]
        head = (f"chain with decorator do_not_copy={sh['dnc']}" if isd else
                f"class S({', '.join(sh['bases'])}) own __new__={sh['own']}")
        chk.violation(f"lazily decorated hierarchy differs from its eager twin: {head} "
                      f"uses={sq}: eager/lazy first differences {diff}",
                      {"kind": "twin", "shape": sh, "uses": sq,
                       "source": T.dnc_render(sh, False) if isd else T.render(sh, False),
                       "eager": r["eager_raw"], "lazy": r["lazy_raw"], "code": 2,
                       "replay": "bin/check C19 --replay <this file>"},
                      sig={"code": 2, "generator": "twin"}, no_input=False)
    for lg in logs:
        chk.violation("twin evaluation failed: " + lg[-500:], {"kind": "coq-eval", "log": lg}, no_input=True)
    return {"twin_cases": len(jobs), "twin_valid": len(keep), "twin_disagreements": len(bad),
            "two_base_cases": n_bases, "do_not_copy_chain_cases": len(dnc),
            "do_not_copy_decorator_values": sorted({repr(j[0]["dnc"]) for j in dnc}),
            "twin_base_orders": sorted({",".join(j[0]["bases"]) for j in jobs[:n_bases]})}


def warm(_):
    import c19_impl as I
    I.setup()
    if os.environ.get("C19_DEBUG"):
        import faulthandler
        global _DBG
        _DBG = open(f"/verif/work/c19_worker_{os.getpid()}.txt", "w")
        faulthandler.dump_traceback_later(int(os.environ["C19_DEBUG"]), repeat=True, file=_DBG)
    d = {"classes": [{"attrs": [[0, "attr", 2, True, True, True, "list"], [1, "plain", 0, True, True, True, "int"]],
                      "key": None, "frozen": False, "new": False}], "sub": None}
    run_one((d, [["helper", 0]], {"kind": "preempt", "first": 0, "switch": []}))
    _SENT.clear()
    _LINES.clear()
    return True


def run_jobs(jobs, pool):
    if not jobs:
        return []
    chunk = max(1, min(64, len(jobs) // (JOBS * 4) or 1))
    res = list(pool.map(run_one, jobs, chunksize=chunk))
    for r in res:
        if r["term"] is not None:
            TERMS[r["h"]] = r["term"]
        ALL_LINES.update(tuple(x) for x in r["lines"])
    return res


# ------------------------------------------------------------------ schedules
def schedules_for(rng, desc, uses, pool, tier, budget):
    """policies for one (classes, uses): all one-pre-emption schedules, two-pre-emption
    schedules (all of them when they fit into `budget`, else a sample), random priorities"""
    n = len(uses)
    base = run_jobs([(desc, uses, {"kind": "preempt", "first": f, "switch": []}) for f in range(n)], pool)
    total = max(b["steps"] for b in base)
    pols = [{"kind": "preempt", "first": f, "switch": []} for f in range(n)]
    one = []
    for f in range(n):
        for k in range(1, total + 1):
            for g in range(n):
                if g != f:
                    one.append({"kind": "preempt", "first": f, "switch": [[k, g]]})
    two_all = None
    count_two = n * (n - 1) * (n - 1) * total * total // 2
    if count_two <= budget:
        two_all = []
        for f in range(n):
            for k1 in range(1, total + 1):
                for g in range(n):
                    if g == f:
                        continue
                    for k2 in range(k1 + 1, k1 + total + 1):
                        for h in range(n):
                            if h != g:
                                two_all.append({"kind": "preempt", "first": f, "switch": [[k1, g], [k2, h]]})
    exhaustive1 = len(one) <= max(budget // 2, 1)
    if not exhaustive1:
        one = rng.sample(one, budget // 2)
    rest = max(0, budget - len(one))
    if two_all is not None and len(two_all) <= rest:
        two, exhaustive2 = two_all, True
    else:
        two, exhaustive2 = [], False
        for _ in range(rest * 2 // 3):
            f = rng.randrange(n)
            k1 = rng.randint(1, total)
            g = rng.choice([x for x in range(n) if x != f])
            k2 = rng.randint(k1 + 1, k1 + total)
            h = rng.choice([x for x in range(n) if x != g])
            two.append({"kind": "preempt", "first": f, "switch": [[k1, g], [k2, h]]})
    prio = []
    for _ in range(min(4000, max(4, (budget - len(one) - len(two)) if not exhaustive2 else budget // 10))):
        d = rng.randint(2, 6)
        prio.append({"kind": "priority", "prios": rng.sample(range(10, 10 + n), n),
                     "changes": sorted(rng.sample(range(1, n * total + 1), min(d, n * total)))})
    return pols + one + two + prio, {"steps_alone": total, "one": len(one), "two": len(two), "prio": len(prio),
                                      "exhaustive1": exhaustive1, "exhaustive2": exhaustive2}


# ------------------------------------------------------------------ evaluation in Coq
def evaluate(results, tag="c"):
    """identical terms are evaluated once; returns {index: code} for non-zero codes, logs"""
    uniq, where = {}, []
    for r in results:
        where.append(uniq.setdefault(r["h"], len(uniq)))
    terms = [TERMS[h] for h in uniq]
    bad, logs = coq_eval("C19", PRELUDE, "check_case", terms, shard=120, tag=tag, case_type="case")
    codes = dict(bad)
    return {i: codes[w] for i, w in enumerate(where) if w in codes}, logs, len(terms)


def shrink(desc, uses, pol, code, pool, rng):
    """smaller classes / fewer threads that still fail with the same code under some schedule"""
    def fails(d, u, pols):
        res = run_jobs([(d, u, p) for p in pols], pool)
        res = [r for r in res]
        bad, _, _ = evaluate(res, tag="s")
        for i in sorted(bad):
            if bad[i] == code and res[i]["eager_ok"]:
                return pols[i]
        return None

    cur = (desc, uses, pol)
    t_end = time.time() + 45
    for _ in range(10):
        if time.time() > t_end:
            break
        d, u, p = cur
        cands = []
        for ci, c in enumerate(d["classes"]):
            for ai in range(len(c["attrs"])):
                if True:  # classes without managed attributes are part of the grammar
                    d2 = json.loads(json.dumps(d))
                    del d2["classes"][ci]["attrs"][ai]
                    if d2["classes"][ci]["key"] is not None and d2["classes"][ci]["key"] not in [a[0] for a in d2["classes"][ci]["attrs"]]:
                        d2["classes"][ci]["key"] = None
                    cands.append((d2, u))
                    if d2["classes"][ci].get("dnc"):
                        gone = c["attrs"][ai][0]
                        still = {a[0] for cc in d2["classes"][:ci + 1] for a in cc["attrs"]}
                        if gone not in still:
                            d2["classes"][ci]["dnc"] = [n for n in d2["classes"][ci]["dnc"] if n != gone]
            if c.get("new"):
                d2 = json.loads(json.dumps(d))
                d2["classes"][ci]["new"] = False
                cands.append((d2, u))
            if c.get("mid") is not None and not any(x[1] == f"m{ci}" for x in u):
                d2 = json.loads(json.dumps(d))
                d2["classes"][ci]["mid"] = None
                cands.append((d2, u))
            if c.get("priv") or c.get("dnc"):
                d2 = json.loads(json.dumps(d))
                d2["classes"][ci].pop("priv", None)
                d2["classes"][ci].pop("dnc", None)
                cands.append((d2, u))
            for fld in ("inv", "prop"):
                if c.get(fld):
                    d2 = json.loads(json.dumps(d))
                    d2["classes"][ci].pop(fld)
                    cands.append((d2, u))
            if (c.get("mid") or {}).get("prop"):
                d2 = json.loads(json.dumps(d))
                d2["classes"][ci]["mid"].pop("prop")
                cands.append((d2, u))
        if d.get("names"):
            d2 = json.loads(json.dumps(d))
            d2.pop("names")
            cands.append((d2, u))
        if d["sub"] and d["sub"].get("prop"):
            d2 = json.loads(json.dumps(d))
            d2["sub"].pop("prop")
            cands.append((d2, u))
        if d["sub"] and not any(x[1] == "sub" for x in u):
            d2 = json.loads(json.dumps(d))
            d2["sub"] = None
            cands.append((d2, u))
        if len(u) > 1:
            for ti in range(len(u)):
                cands.append((d, u[:ti] + u[ti + 1:]))
        found = None
        for d2, u2 in cands:
            if time.time() > t_end:
                break
            if not valid(d2, u2):
                continue
            n = len(u2)
            pols = [p] if n == len(u) else []
            pols += [{"kind": "preempt", "first": f, "switch": []} for f in range(n)]
            if n > 1:
                for f in range(n):
                    for k in list(range(1, 60, 3)) + list(range(60, 1600, 37)):
                        pols.append({"kind": "preempt", "first": f, "switch": [[k, (f + 1) % n]]})
            hit = fails(d2, u2, pols)
            if hit is not None:
                found = (d2, u2, hit)
                break
        if found is None:
            break
        cur = found
    return cur


MEANING = {1: "model and implementation differ; the lazy run still equals the eager reference",
           2: "the lazy run is distinguishable from the eager sequential reference (or a thread saw an exception)"}


def replay_case(r, pool):
    res = run_jobs([(r["classes"], r["uses"], r["policy"])], pool)[0]
    bad, logs, _ = evaluate([res], tag="r")
    return res, bad.get(0, 0), logs


def main(tier, replay=None):
    import multiprocessing
    # spawn: the workers start from a clean interpreter (forking a multi-threaded parent can deadlock)
    pool = ProcessPoolExecutor(max_workers=JOBS, mp_context=multiprocessing.get_context("spawn"))
    try:
        list(pool.map(warm, range(JOBS)))
        return main2(tier, replay, pool)
    finally:
        # orderly shutdown (idle workers exit at once); anything still alive after 15 s is killed
        # so that no worker keeps the output pipe of bin/check open
        import threading
        procs = list(getattr(pool, "_processes", {}).values())
        th = threading.Thread(target=lambda: pool.shutdown(wait=True, cancel_futures=True), daemon=True)
        th.start()
        th.join(15)
        for pr in procs:
            if pr.is_alive():
                pr.kill()


def main2(tier, replay, pool):
    chk = Check("C19", tier)
    t0 = time.time()
    if replay:
        r = json.load(open(replay))
        if r.get("kind") in ("proof", "coq-eval"):
            print("replay of a proof-obligation failure: re-run bin/check C19 quick")
            return 1
        if r.get("kind") == "twin":
            import c19_twin as T
            print(r["source"])
            res = run_twin((r["shape"], r["uses"]))
            print("uses:", r["uses"])
            print("eager:", res["eager_raw"])
            print("lazy: ", res["lazy_raw"])
            same = res["eager"] == res["lazy"]
            print("replay:", "passes now" if same else "still failing code=2 (lazy twin differs from eager twin)")
            return 0 if same else 1
        import c19_impl as I
        print(I.render(r["classes"], False))
        res, code, logs = replay_case(r, pool)
        print("uses:", r["uses"], "policy:", r["policy"])
        print("replay:", f"still failing code={code} ({MEANING.get(code)})" if code else "passes now", logs)
        print("first differences (eager / lazy):", res.get("diff"))
        print("lazy == eager:", res["same"], "thread outcomes ok:", res["outs"], "exceptions:", res.get("errors"),
              "steps:", res["steps"], "deadlock:", res["deadlock"])
        return 1 if code else 0
    chk.proofs()
    rng = chk.rng
    quick = tier == "quick"
    jobs, meta, results = [], [], []
    deadline = t0 + (150 if quick else 900)
    truncated = []

    def submit(js, ms, label, until=None):
        """run in chunks; stop (and say so) when the deadline has passed"""
        until = until or deadline
        for a in range(0, len(js), 8000):
            if time.time() > until:
                truncated.append(f"{label}: {len(js) - a} of {len(js)} schedules not run")
                return False
            results.extend(run_jobs(js[a:a + 8000], pool))
            jobs.extend(js[a:a + 8000])
            meta.extend(ms[a:a + 8000])
        return True

    twin_info = twin_stage(chk, rng, pool, quick)
    # 1. sequential trigger independence: every trigger kind x every target, one thread
    n_seq = 30 if quick else 150
    js, ms = [], []
    import c19_impl as I
    # every fourth description each: a root class without managed attributes / plain classes between
    # the lazily decorated ones / attribute names colliding with the library's wrapper parameters
    # ... / a keyed root class (the key can be handed over positionally) with some __new__ that uses its
    # arguments / invalidation edges (the invalidation map is generated on the first mutation)
    forces = [None, "zero", "mid", "names", "key", "inv"]
    for si in range(n_seq):
        fc = forces[si % len(forces)]
        d = gen_valid(rng, tier, force=fc)
        k = len(d["classes"])
        for tgt in I.targets_of(d):
            for kind in I.kinds_for(d, tgt, USE_KINDS):
                js.append((d, [[kind, tgt]], {"kind": "preempt", "first": 0, "switch": []}))
                ms.append(("seq" if fc is None else "seq-" + fc, 1))
        # a parent used first, then the child
        if k > 1:
            for kind in I.kinds_for(d, 0, USE_KINDS):
                js.append((d, [[kind, 0], [rng.choice(I.kinds_for(d, k - 1, USE_KINDS)), k - 1]],
                           {"kind": "preempt", "first": 0, "switch": []}))
                ms.append(("seq-parent-first", 2))
    submit(js, ms, "sequential")
    # 2. thorough: every schedule with <= 2 pre-emptions for a small configuration (as far as
    #    the time allows; `exhaustive2` in the evidence says whether the enumeration completed)
    sched_info = []
    if not quick:
        d = {"classes": [{"attrs": [[0, "attr", 2, False, True, False, "int"]], "key": None, "frozen": False, "new": False}],
             "sub": None}
        u = [["meta", 0], ["fields", 0]]
        pols, info = schedules_for(rng, d, u, pool, tier, 10 ** 9)
        head, rest = pols[:2 + info["one"]], pols[2 + info["one"]:]
        rng.shuffle(rest)
        info.update(threads=2, classes=1, uses=u, small_scope=True)
        done = submit([(d, u, p) for p in head + rest], [("conc-small", 2)] * len(pols), "small scope", until=t0 + 400)
        info["exhaustive2"] = bool(done and info["exhaustive2"])
        sched_info.append(info)
    # 3. concurrent: classes x uses x schedules
    n_cfg = 16 if quick else 60
    budget = 1800 if quick else 12000
    # the forced configurations come first (a deadline on a loaded machine truncates from the end); the
    # first-mutation configuration right after the pre-fix race: it is the only place where that shape is
    # run concurrently
    forced_order = [0, 5, 1, 2, 3, 4, 6]
    for cpos in range(n_cfg):
        ci = forced_order[cpos] if cpos < len(forced_order) else cpos
        d = gen_valid(rng, tier)
        nth = 2 if (quick or cpos % 3) else 3
        u = gen_uses(rng, d, nth)
        if ci == 0:  # the configuration of the pre-fix race, always present
            d = {"classes": [{"attrs": [[0, "attr", 2, False, False, False, "int"], [1, "plain", 0, True, True, True, "int"]],
                              "key": None, "frozen": False, "new": False}], "sub": None}
            u = [["inst", 0], ["meta", 0]]
        elif ci == 1:  # two threads whose first use is the fields lookup on a class without managed attributes
            d = gen_valid(rng, tier, force="zero")
            u = [["fields", 0], [rng.choice(["fields", "dcfields", "meta", "instkw"]), I.targets_of(d)[-1]]]
        elif ci == 2:  # a plain class between two lazy spec classes; the child is used before the parent was
            d = gen_valid(rng, tier, force="mid")
            u = [pick_use(rng, d, I.targets_of(d)[-1]), pick_use(rng, d, rng.choice(I.targets_of(d)[:2]))]
        elif ci == 3:  # constructor keywords named like the wrappers' parameters, from two threads
            d = gen_valid(rng, tier, force="names")
            u = [["instkw", I.targets_of(d)[-1]], pick_use(rng, d, rng.choice(I.targets_of(d)))]
        elif ci == 4:  # parent and child without any __new__, both threads instantiate the child first:
            # the window between the removal of the child's hook and of the parent's (seeded C19-B1)
            while len(d["classes"]) < 2:
                d = gen_valid(rng, tier)
            d = json.loads(json.dumps(d))
            for c in d["classes"]:
                c["new"] = False
                if c.get("mid"):
                    c["mid"]["new"] = False
            if d["sub"]:
                d["sub"]["new"] = False
            leafs = [len(d["classes"]) - 1] + (["sub"] if d["sub"] else [])
            u = [[rng.choice(["inst", "instkw", "helper"]), len(d["classes"]) - 1],
                 [rng.choice(["inst", "instkw", "helper"]), rng.choice(leafs)]]
        elif ci == 5:  # both threads make their first MUTATION of an instance of a class with invalidation
            # edges: the invalidation map (lazily generated metadata) is built by one thread while the
            # other thread's mutation looks it up (seeded C19-F1)
            d = gen_valid(rng, tier, force="inv")
            # (the SAME class: the map is per class - spec class or plain subclass - and per metadata)
            tg = [t for t in I.targets_of(d) if I.mut_deps(d, t)]
            t0_ = tg[-1] if rng.random() < 0.5 else rng.choice(tg)
            u = [["mutate", t0_], ["mutate", t0_]]
        elif ci == 6:  # the key handed over positionally by both threads, some __new__ using its arguments
            d = gen_valid(rng, tier, force="key")
            u = [[rng.choice(["instpos", "instposkw"]), I.targets_of(d)[-1]],
                 [rng.choice(["instpos", "instposkw", "inst"]), rng.choice(I.targets_of(d))]]
        nth = len(u)
        if time.time() > deadline:
            truncated.append(f"configuration {ci}")
            continue
        pols, info = schedules_for(rng, d, u, pool, tier, budget if nth == 2 else budget // 2)
        info.update(threads=nth, classes=len(d["classes"]), uses=u)
        sched_info.append(info)
        submit([(d, u, p) for p in pols], [("conc", nth)] * len(pols), f"configuration {ci}")
    t_run = time.time() - t0
    # generated uses must be valid sequentially (otherwise the case says nothing)
    invalid = [i for i, r in enumerate(results) if not r["eager_ok"]]
    bad, logs, distinct = evaluate(results)
    t_eval = time.time() - t0 - t_run
    reported = set()
    for i in sorted(bad, key=lambda j: (-bad[j], results[j]["steps"]))[:12]:
        code = bad[i]
        d, u, p = jobs[i]
        sig = (code, json.dumps(u), json.dumps(d, sort_keys=True))
        if (code, meta[i][0]) in reported:
            continue
        reported.add((code, meta[i][0]))
        d2, u2, p2 = shrink(d, u, p, code, pool, rng)
        res, code2, _ = replay_case({"classes": d2, "uses": u2, "policy": p2}, pool)
        if code2 != code:
            d2, u2, p2, res = d, u, p, results[i]
        import c19_impl as I
        what = (f"lazy bootstrapping {'differs from the eager sequential result' if code == 2 else 'differs from the model'}: "
                f"uses={u2} policy={p2} outcomes_ok={res['outs']} exceptions={res.get('errors')} first_differences={res.get('diff')} "
                f"deadlock={res['deadlock']} classes={d2['classes']} sub={d2.get('sub')} names={d2.get('names')}")
        chk.violation(what, {"classes": d2, "uses": u2, "policy": p2, "code": code, "meaning": MEANING.get(code),
                             "exceptions_seen_by_threads": res.get("errors"), "first_differences": res.get("diff"),
                             "source": I.render(d2, False), "replay": "bin/check C19 --replay <this file>"},
                      sig={"code": code, "generator": meta[i][0]}, no_input=(code != 2))
    for lg in logs:
        chk.violation("correspondence evaluation failed: " + lg[-500:], {"kind": "coq-eval", "log": lg}, no_input=True)
    if invalid:
        i = invalid[0]
        chk.violation("generated use raises on the eager class (generator defect): %r" % (jobs[i][:2],),
                      {"classes": jobs[i][0], "uses": jobs[i][1], "policy": jobs[i][2], "kind": "generator"}, no_input=True)
    kinds, usek, pre, lines = {}, {}, {}, ALL_LINES
    for (g, _), j, r in zip(meta, jobs, results):
        kinds[g] = kinds.get(g, 0) + 1
        for u in j[1]:
            usek[u[0]] = usek.get(u[0], 0) + 1
        pre[min(r["preempted"], 9)] = pre.get(min(r["preempted"], 9), 0) + 1
    forms = {}
    for j in jobs:
        for c in j[0]["classes"]:
            for a in c["attrs"]:
                forms[a[1] + str(a[2])] = forms.get(a[1] + str(a[2]), 0) + 1
    distinct_cfg = len({r["key"] for r in results})
    extra = {
        "correspondence": {
            "schedules_run": len(jobs), "distinct_cases_evaluated_in_coq": distinct, "disagreements": len(bad),
            "by_generator": kinds, "use_histogram": usek, "context_switch_histogram": pre,
            "declaration_form_histogram(form+default kind)": forms,
            "deadlocks": sum(1 for r in results if r["deadlock"]), "stuck_timeouts": sum(r["stuck"] for r in results),
            "max_steps": max(r["steps"] for r in results), "events_per_run_max": max(r["nevents"] for r in results),
            "twin_probe": twin_info, "schedule_sets": sched_info[:12], "truncated_by_deadline": truncated,
            "anchored_lines_executed": {f: sorted(l for ff, l in lines if ff == f) for f in sorted({f for f, _ in lines})},
            "compared": "protocol event trace (placeholder tests, lock acquire/release with depth, re-check, body entry, declaration reads/consumption, publish, registration, wrapper removal, __new__ lookups) vs model trace for the same schedule; eager metadata vs model seq_meta; oracle: final class descriptions + thread outcomes vs eager reference",
        },
        "evaluations": len(jobs), "distinct_nontrivial": distinct,
        "rule": "evaluations = (class description, thread uses, schedule) runs on the implementation; identical resulting Coq case terms are evaluated once (distinct_nontrivial); every case has >= 1 trigger (classes without managed attributes are part of the grammar); distinct configurations = %d" % distinct_cfg,
        "samples": [{"classes": jobs[i][0], "uses": jobs[i][1], "policy": jobs[i][2]} for i in (0, len(jobs) // 2, len(jobs) - 1)],
        "timing_s": {"implementation_runs": round(t_run, 1), "coq_evaluation": round(t_eval, 1)},
        "exhaustive": False,
    }
    return chk.finish(
        trusted_base=["Coq 8.16.1 kernel and vm_compute", "no axioms (Print Assumptions: closed under the global context)",
                      "hand-written model coq/Conc/BootstrapModel.v tied to /repo by this run's correspondence",
                      "harness/c19_sched.py (deterministic scheduler, traced lock wrapper around threading.RLock), harness/c19_impl.py (event extraction, canonical descriptions)"],
        assumptions=["atomic step = one source line of spec_class.py / methods/base.py (or one class-dictionary access); pre-emption inside a line at bytecode level is not explored",
                     "threading.RLock is a correct re-entrant mutex; a single class-dictionary read/write is atomic under the GIL",
                     "a thread that reads __spec_class__ directly after it was published sees complete sequential metadata, but the generated methods may still be being registered (instantiation waits for them)"],
        extra=extra)
