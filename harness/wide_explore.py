"""Implementation-only exploration over a zoo of spec classes that lie outside the instance
model (float / Literal / Union / Tuple attributes, cached spec_property dependants, two levels of
plain subclassing, two spec parents, do_not_copy parents, KeyedList / KeyedSet attributes,
nested holders).  Every generated helper of every class is called, found by introspection of
`__spec_class__.attrs`, with every value of an assorted pool (most of them ill-typed for the
attribute at hand, so most calls raise).

mode "C01": calls WITHOUT _inplace=True: receiver and arguments are the same object graph with
            equal contents afterwards, whether the call returns or raises; a returned result is
            not the receiver (classes declared do_not_copy=True themselves are skipped).
mode "C04": calls with and without _inplace=True and attribute assignment / deletion: after an
            exception, receiver and arguments are the same object graph with equal contents.

The oracle is a structural snapshot (identity and content of everything reachable through
instance dictionaries, lists, dicts, sets, tuples and the internals of keyed containers).
"""
import itertools


def snapshot(root, ids=True):
    """identity + content (ids=False: content and sharing only) of the object graph reachable from root"""
    seen = {}
    order = []
    import builtins
    real_id = builtins.id

    def id(o):  # noqa: A001
        return real_id(o) if ids else 0

    def walk(o):
        if isinstance(o, (type, type(len), type(lambda: 0))):
            return ("atom", getattr(o, "__qualname__", "callable").split(".")[-1] if not ids else repr(o))
        if isinstance(o, (int, float, str, bytes, bool, type(None))):
            return ("atom", repr(o))
        if real_id(o) in seen:
            return ("ref", seen[real_id(o)])
        n = len(order)
        seen[real_id(o)] = n
        order.append(None)
        if isinstance(o, (list, tuple)):
            node = (type(o).__name__, id(o), [walk(x) for x in o])
        elif isinstance(o, dict):
            node = ("dict", id(o), [(walk(k), walk(v)) for k, v in o.items()])
        elif isinstance(o, (set, frozenset)):
            node = ("set", id(o), sorted(repr(walk(x)) for x in o))
        elif hasattr(o, "__dict__"):
            d = vars(o)
            node = (type(o).__name__, id(o), [(k, walk(v)) for k, v in d.items()])
        else:
            node = ("opaque", id(o), repr(type(o)))
        order[n] = node
        return ("ref", n)
    walk(root)
    return order


def build_zoo(frozen=False, hooks=True):
    from typing import Any, Dict, List, Optional, Set, Tuple, Union

    try:
        from typing import Literal
    except ImportError:  # pragma: no cover
        Literal = None
    from spec_classes import Attr, spec_property
    from spec_classes import spec_class as _spec_class
    from spec_classes.types import Alias, KeyedList, KeyedSet

    def spec_class(*a, **kw):
        """the decorator, with frozen=True added to every class of a frozen zoo"""
        if a and isinstance(a[0], type):
            return _spec_class(frozen=True)(a[0]) if frozen else _spec_class(a[0])
        if frozen:
            kw = dict(kw, frozen=True)
        return _spec_class(*a, **kw)

    class Flaky:
        """a value whose deep copy fails (an aborted copy of whatever holds it)"""
        def __deepcopy__(self, memo):
            raise RuntimeError("cannot be copied")

        def __eq__(self, other):
            return isinstance(other, Flaky)

        __hash__ = None

    @spec_class(key="k")
    class Item:
        k: str
        v: int = 0
        w: float = 0.5

    @spec_class
    class Scal:
        f: float = 1.5
        lit: Literal["x", "y"] = "x"
        u: Union[int, str] = 0
        of: Optional[float] = None
        t: Tuple[int, str] = (1, "a")
        n: int = 1
        extra_any: Any = None

        n_alias: int = Alias("n")
        n_through: int = Alias("n", passthrough=True)
        dbl: int

        @spec_property(cache=True, invalidated_by=["n", "f"])
        def total(self):
            return self.n + self.f

        @spec_property
        def dbl(self):
            return self.n * 2

        @dbl.setter
        def dbl(self, v):
            self.n = v // 2

    class ScalMid(Scal):          # plain subclass, level 1
        n = 7
        f = 2.5

    class ScalLeaf(ScalMid):      # plain subclass, level 2
        lit = "y"

    @spec_class
    class Other:
        tag: str = "t"
        nums: Set[int] = set()

    @spec_class
    class Both(Scal, Other):      # two spec parents
        extra: List[float] = [1.0]

    @spec_class(do_not_copy=True)
    class Reg:
        label: str = "r"
        entries: List[int] = []

    @spec_class
    class RegChild(Reg):          # derived from an in-place class, copy-on-write itself
        count: int = 0
        vals: List[int] = [1]

    @spec_class
    class Rev:                    # a copy hook that changes state (of the COPY)
        rev: int = 0
        log: List[str] = []
        inner: Optional[Scal] = None

        if hooks:                 # (a hook assigning attributes of a frozen copy raises by design)
            def __post_copy__(self):
                self.rev += 1
                self.log = self.log + ["copied"]

    @spec_class
    class Holder:
        child: Scal = None
        kids: List[Scal] = []
        by_name: Dict[str, Scal] = {}
        revs: List[Rev] = []
        weights: Dict[str, int] = {}
        items: KeyedList[Item, str] = Attr(default_factory=KeyedList)
        marks: KeyedSet[Item, str] = Attr(default_factory=KeyedSet)
        anything: Any = None

        def _prepare_item(self, item):
            if isinstance(item, Item) and item.v < 0:
                raise ValueError("negative payload")
            return item

        def _prepare_weight(self, w):
            if isinstance(w, int) and w < 0:
                raise ValueError("negative weight")
            return w + 100 if isinstance(w, int) else w

    def make(cls, flaky=False):
        if flaky and cls in (Scal, ScalMid, ScalLeaf, Both):
            o = cls()
            vars(o)["extra_any"] = Flaky()      # (the constructor would try to copy it)
            return o
        if flaky and cls is Holder:
            o = Holder(child=Scal(n=2), kids=[Scal(n=3)], weights={"a": 1})
            vars(o)["anything"] = Flaky()
            return o
        if cls is Holder:
            return Holder(child=Scal(n=2), kids=[Scal(n=3), ScalMid()], by_name={"a": Scal(n=4)},
                          items=[Item("a", v=1), Item("b", v=2)], marks=[Item("m", v=1)], anything=[1, [2]],
                          weights={"a": 1, "b": 2}, revs=[Rev(rev=1)])
        if cls is Rev:
            return Rev(rev=1, log=["x"], inner=Scal(n=5))
        if cls is RegChild:
            return RegChild(count=1, vals=[1, 2], entries=[5])
        if cls is Both:
            return Both(n=2, nums={1, 2}, extra=[1.0, 2.0])
        if cls is Other:
            return Other(nums={1})
        return cls()

    classes = [Scal, ScalMid, ScalLeaf, Other, Both, RegChild, Holder, Item, Rev]
    pool = lambda: [0, 1, -1, 2.5, True, None, "x", "y", "zz", "", (1, "a"), (1, 2), [], [1], [1.5], ["s"], {}, {"a": 1},
                    {1}, set(), {"a": 5, "b": -1}, {"c": 3}, Flaky(), Scal(n=9), ScalMid(), Item("a", v=5), Item("q", v=-1), Item("z"), Other(),
                    [Scal(n=8)], {"k": Scal(n=6)}, Rev(rev=3), [Rev()], [Item("c", v=3), Item("d", v=-1)],
                    KeyedList[Item, str]([Item("e", v=1), Item("f", v=-1)]), KeyedSet[Item, str]([Item("g")]),
                    lambda v: v, lambda v: 1 / 0]
    return classes, make, pool, Item


def calls_for(obj):
    """(label, function taking the argument list and keyword dict) for every generated helper"""
    md = type(obj).__spec_class__
    out = []
    for name, sp in md.attrs.items():
        for prefix in ("with", "update", "transform", "reset"):
            m = f"{prefix}_{name}"
            if hasattr(type(obj), m):
                out.append((m, 0 if prefix == "reset" else 1))
        item = getattr(sp, "item_name", None)
        if item and getattr(sp, "is_collection", False):
            for prefix, arity in (("with", 1), ("update", 2), ("transform", 2), ("without", 1)):
                m = f"{prefix}_{item}"
                if hasattr(type(obj), m):
                    out.append((m, arity))
    for m, ar in (("update", 0), ("transform", 0), ("reset", 0)):
        if hasattr(type(obj), m):
            out.append((m, ar))
    return out


def explore(chk, extra, mode):
    classes, make, pool, Item = build_zoo()
    rng = chk.rng
    n = 2500 if chk.tier == "quick" else 40000
    tried = raised = 0
    hist = {}
    reported = set()
    for _ in range(n):
        cls = rng.choice(classes)
        try:
            obj = make(cls, flaky=rng.random() < 0.15)
        except Exception:
            continue
        # fill caches so that cached dependants are part of the state
        for nm in ("total",):
            try:
                getattr(obj, nm)
            except Exception:
                pass
        values = pool()
        calls = calls_for(obj)
        kind = rng.random()
        inplace = mode == "C04" and rng.random() < 0.5
        args = []
        label = None
        if mode == "C04" and kind < 0.12:
            name = rng.choice(list(type(obj).__spec_class__.attrs))
            v = rng.choice(values)
            args = [v]
            label = f"{cls.__name__}.{name} = <{type(v).__name__}>"
            fn = lambda: setattr(obj, name, v)
        elif mode == "C04" and kind < 0.16:
            name = rng.choice(list(type(obj).__spec_class__.attrs))
            label = f"del {cls.__name__}.{name}"
            fn = lambda: delattr(obj, name)
        else:
            m, arity = rng.choice(calls)

            def pick():
                # half of the time a value of the same Python type as something the receiver
                # already holds (more likely to be accepted), otherwise anything
                if rng.random() < 0.5:
                    held = [type(x) for x in vars(obj).values()]
                    like = [v for v in values if type(v) in held]
                    if like:
                        return rng.choice(like)
                return rng.choice(values)
            args = [pick() for _ in range(arity if rng.random() < 0.85 else rng.choice([0, 1, 2]))]
            kw = {}
            if m in ("update", "transform") or rng.random() < 0.2:
                names = list(type(obj).__spec_class__.attrs)
                for nm in rng.sample(names, min(len(names), rng.choice([1, 1, 2]))):
                    kw[nm] = rng.choice(values)
                if inplace and len(kw) > 1:      # the recorded open finding of C04: one keyword only
                    kw = dict(list(kw.items())[:1])
            if rng.random() < 0.15:
                kw["_index"] = rng.choice([0, -1, 5, None, "a"])
                if rng.random() < 0.5:
                    kw["_insert"] = True
            if inplace:
                kw["_inplace"] = True
            label = f"{cls.__name__}.{m}({', '.join(type(a).__name__ for a in args)}{', ' if args and kw else ''}{', '.join(sorted(kw))})"
            fn = lambda: getattr(obj, m)(*args, **kw)
        if mode == "C04" and inplace and label.split("(")[0].endswith(".reset"):
            continue                              # reset(_inplace=True): recorded open finding
        hist[label.split("(")[0].split(" = ")[0]] = hist.get(label.split("(")[0].split(" = ")[0], 0) + 1
        before = (snapshot(obj), [snapshot(a) for a in args], snapshot(kw) if "kw" in dir() else None)
        tried += 1
        outcome, res = "returned", None
        try:
            res = fn()
        except BaseException as e:
            if isinstance(e, (KeyboardInterrupt, SystemExit)):
                raise
            raised += 1
            outcome = "raised " + type(e).__name__
        after = (snapshot(obj), [snapshot(a) for a in args], snapshot(kw) if "kw" in dir() else None)
        if mode == "C01":
            broken = after != before or (res is obj and outcome == "returned" and label.find("reset") < 0
                                         and args and False)
        else:
            broken = outcome != "returned" and after != before
        if broken and label.split("(")[0] not in reported:
            reported.add(label.split("(")[0])
            what = "receiver" if after[0] != before[0] else "an argument"
            chk.violation(f"{label} ({outcome}) changed {what}",
                          {"class": cls.__name__, "call": label, "outcome": outcome, "inplace": inplace,
                           "before": repr(before)[:3000], "after": repr(after)[:3000]},
                          sig={"kind": "wide", "call": label.split("(")[0]})
            if len(reported) >= 3:
                break
    extra["wide_exploration"] = {
        "calls": tried, "raised": raised, "distinct_entry_points": len(hist),
        "rule": "implementation only: class zoo outside the model (float/Literal/Union/Tuple attributes, cached spec_property, "
                "two levels of plain subclassing, two spec parents, class derived from a do_not_copy=True class, KeyedList/KeyedSet "
                "attributes with item preparer, nested holders); every generated helper by introspection x assorted argument pool; "
                + ("C01: receiver, arguments and keyword values unchanged whether the call returns or raises"
                   if mode == "C01" else "C04: after an exception receiver, arguments and keyword values unchanged")}


def explore_frozen(chk, extra):
    """C07 on the class zoo: every class declared frozen=True next to its non-frozen twin.
    The same call (same method, same argument choices) is made on a frozen instance and on the
    twin's instance:
      * assignment, deletion and _inplace=True calls on the frozen instance change nothing;
      * calls without _inplace leave the frozen receiver unchanged, return a distinct object,
        and have the twin's outcome: same exception class, or a result with the same content
        and sharing structure (class names, attribute names, values)."""
    import random
    zf = build_zoo(frozen=True, hooks=False)
    zt = build_zoo(frozen=False, hooks=False)
    rng = chk.rng
    n = 1500 if chk.tier == "quick" else 25000
    tried = raised = 0
    reported = set()
    for _ in range(n):
        ci = rng.randrange(len(zf[0]))
        if zf[0][ci].__name__ in ("RegChild",):
            continue
        seed = rng.random()
        runs = []
        for zoo in (zf, zt):
            r = random.Random(seed)
            classes, make, pool, _ = zoo
            cls = classes[ci]
            try:
                obj = make(cls)
            except Exception:
                runs = None
                break
            for nm in ("total",):
                try:
                    getattr(obj, nm)
                except Exception:
                    pass
            values = pool()
            calls = calls_for(obj)
            kind = r.random()
            inplace = r.random() < 0.35
            args, kw = [], {}
            names = list(type(obj).__spec_class__.attrs)
            if kind < 0.08:
                name, vi = r.choice(names), r.randrange(len(values))
                args = [values[vi]]
                label, mode = f"{cls.__name__}.{name} = <{type(values[vi]).__name__}>", "mutate"
                fn = (lambda o=obj, nm=name, v=values[vi]: setattr(o, nm, v))
            elif kind < 0.12:
                name = r.choice(names)
                label, mode = f"del {cls.__name__}.{name}", "mutate"
                fn = (lambda o=obj, nm=name: delattr(o, nm))
            else:
                m, arity = calls[r.randrange(len(calls))]
                held = {type(x).__name__ for x in vars(obj).values()}
                like = [i for i, v in enumerate(values) if type(v).__name__ in held] or list(range(len(values)))

                def pickv():
                    return values[r.choice(like)] if r.random() < 0.6 else values[r.randrange(len(values))]
                args = [pickv() for _ in range(arity)]
                if m in ("update", "transform") or r.random() < 0.2:
                    for nm in r.sample(names, min(len(names), r.choice([1, 1, 2]))):
                        kw[nm] = pickv()
                if inplace:
                    kw["_inplace"] = True
                label = f"{cls.__name__}.{m}({', '.join(type(a).__name__ for a in args)}{', ' if args and kw else ''}{', '.join(sorted(kw))})"
                mode = "mutate" if inplace else "cow"
                fn = (lambda o=obj, mm=m, a=args, k=kw: getattr(o, mm)(*a, **k))
            before = snapshot(obj)
            outcome, res = "returned", None
            try:
                res = fn()
            except BaseException as e:
                if isinstance(e, (KeyboardInterrupt, SystemExit)):
                    raise
                outcome = type(e).__name__
            runs.append((obj, label, mode, before, snapshot(obj), outcome, res))
        if not runs:
            continue
        (fo, label, mode, fb, fa, fout, fres), (to, _, _, tb, ta, tout, tres) = runs
        tried += 1
        raised += fout != "returned"
        problem = None
        if fa != fb:
            problem = f"changed the frozen receiver ({fout})"
        elif mode == "mutate" and tout == "returned" and ta != tb and fout != "FrozenInstanceError":
            # the same assignment / deletion / _inplace=True call succeeds and CHANGES the non-frozen twin:
            # on the frozen instance it must raise FrozenInstanceError (no-op calls and calls that fail
            # argument validation on the twin too are exempt, see DESIGN 9.3)
            problem = (f"in-place call {'returned' if fout == 'returned' else 'raised ' + fout} on the frozen instance "
                       f"instead of raising FrozenInstanceError (it changes the non-frozen twin)")
        elif mode == "cow":
            if fout != tout and not (fout != "returned" and tout != "returned"):
                problem = f"outcome {fout} on the frozen class, {tout} on its non-frozen twin"
            elif fout == "returned":
                if fres is fo and tres is not to:
                    problem = "returned the frozen receiver itself where the twin returns a copy"
                elif snapshot(fres, ids=False) != snapshot(tres, ids=False):
                    problem = "result differs from the result on the non-frozen twin"
        key = label.split("(")[0].split(" = ")[0]
        if problem and key not in reported:
            reported.add(key)
            chk.violation(f"{label}: {problem}",
                          {"call": label, "mode": mode, "frozen_outcome": fout, "twin_outcome": tout,
                           "frozen_result": repr(snapshot(fres, ids=False))[:2000] if fout == "returned" else None,
                           "twin_result": repr(snapshot(tres, ids=False))[:2000] if tout == "returned" else None},
                          sig={"kind": "wide-frozen", "call": key})
            if len(reported) >= 3:
                break
    extra["wide_frozen_twin_exploration"] = {
        "paired_calls": tried, "raised_on_frozen": raised,
        "rule": "implementation only: class zoo declared frozen=True next to its non-frozen twin; the same call on both; "
                "in-place calls / assignment / deletion change nothing on the frozen instance and raise FrozenInstanceError whenever the same call changes the twin; copy-on-write calls leave it "
                "unchanged and have the twin's outcome (exception or structurally equal result)"}
