"""Implementation-level probe (no Coq evaluation; the oracle is the property statement itself):
an EXISTING instance which the caller keeps is handed to a helper as the complete replacement /
new value / element TOGETHER with two or more keywords (or attribute transforms), an accepted
one in front of the rejected one:

    x.update(<replacement>, kw1=ok, kw2=<rejected>)
    x.transform(<fn returning an existing instance>, a=f, b=<failing g>)
    x.update_<attr>(<replacement>, kw...)      x.with_<attr>(<instance>, kw...)
    x.transform_<attr>(<fn returning an existing instance>, a=f, ...)
    x.with_<item>(<instance>, kw...)           x.with_<item>(<key>, <instance>, kw...)
    x.update_<item>(<index / key>, <replacement>, kw...)
    x.transform_<item>(<index / key>, <fn returning an existing instance>, a=f, ...)

on the classes OUTSIDE the instance model: the class zoo of `wide_explore` (float / Literal /
Union / Tuple attributes, spec_property, aliases, plain subclasses, two spec parents, a class
derived from a do_not_copy=True class, a class with a state-changing copy hook, KeyedList /
KeyedSet attributes, item preparers that raise), the same zoo declared frozen=True, and a small
zoo of its own (scalar preparer that raises, item preparers, nested value, spec / plain / eager
subclasses, keyed items).  Rejected = ill-typed scalar, ill-typed collection, collection with
an ill-typed member, wrong nested value, a preparer / item preparer / transform that raises, a
value whose deep copy fails.  Which values an attribute accepts is decided with the library's
own `check_type` (for the CHOICE of arguments only).

The keywords are applied to a copy of the handed-over instance, so
  C04: when the call raises, receiver, handed-over instance and every keyword value are the same
       object graph with the same contents as before (identity and content of everything reachable);
  C01: the same for every copy-on-write call, whether it returns or raises.

Every case is rebuilt from one integer (`case_seed`); `bin/check C04|C01 --replay <file>`
re-executes it (replay kind "replacement-probe").
"""
import random

from wide_explore import build_zoo, snapshot

_ZOOS = {}


def _own_zoo():
    from typing import Dict, List, Optional

    from spec_classes import spec_class

    @spec_class
    class Child:
        a: int = 0
        b: str = "s"
        ratio: float = 0.5

    @spec_class(key="k")
    class Entry:
        k: str
        size: int = 0
        notes: List[str] = []

    @spec_class
    class Config:
        x: int = 0
        tags: List[int] = []
        table: Dict[str, int] = {}
        child: Child = Child()
        maybe: Optional[Child] = None
        label: str = "l"
        entries: List[Entry] = []
        named: Dict[str, Child] = {}

        def _prepare_label(self, label):
            if label == "boom":
                raise RuntimeError("preparer fails")
            return label

        def _prepare_tag(self, tag):
            if tag == 13:
                raise RuntimeError("item preparer fails")
            return tag

    @spec_class
    class ConfigSub(Config):           # spec subclass with an attribute of its own
        extra: float = 1.0

    @spec_class(bootstrap=True)
    class ConfigEager(Config):
        mode: str = "m"

    class ConfigPlain(Config):         # plain subclass overriding defaults
        x = 5
        label = "plain"

    def make(cls, flaky=False):
        if cls is Child:
            return Child(a=1, b="c")
        if cls is Entry:
            return Entry("e", size=1, notes=["n"])
        return cls(x=1, tags=[1, 2], table={"a": 1}, child=Child(a=2), maybe=Child(a=3), label="r",
                   entries=[Entry("p", size=1), Entry("q", size=2)], named={"a": Child(a=4), "b": Child(a=5)})

    def pool():
        return [0, 1, 7, -1, 2.5, True, None, "x", "boom", "zz", "", [], [3], [3, 13], [1, "s"], ["s"], "bad",
                {}, {"k": 2}, {"k": "v"}, {1: 1}, {1}, (1,), Child(a=9), Child(a=8, b="w"), Entry("z", size=9),
                [Entry("m", size=3)], [Child()], {"c": Child(a=7)}, {"c": 3}, Config(x=9), 3.5, lambda v: v]

    classes = [Config, ConfigSub, ConfigEager, ConfigPlain, Child, Entry]
    return classes, make, pool, Entry


def zoo(name):
    if name not in _ZOOS:
        if name == "own":
            _ZOOS[name] = _own_zoo()
        elif name == "wide":
            _ZOOS[name] = build_zoo()
        else:
            _ZOOS[name] = build_zoo(frozen=True, hooks=False)
    return _ZOOS[name]


SHAPES = ["update_top"] * 5 + ["transform_top"] * 2 + ["update_attr"] * 2 + ["with_attr"] * 2 + ["transform_attr"] \
    + ["with_item"] * 2 + ["update_item"] * 2 + ["transform_item"]


def _is_spec(v):
    return hasattr(type(v), "__spec_class__") and not isinstance(v, type)


def _boom(_):
    raise RuntimeError("callback raises")


def build(case_seed, mode):
    """-> None (nothing to call for these draws) or dict(label, call, watched, inplace, ...)"""
    rng = random.Random(case_seed)
    for _ in range(8):          # (class, shape) draws until the class has the attribute kind the shape needs
        b = _draw(rng, mode)
        if b is not None:
            return b
    return None


def _draw(rng, mode):
    from spec_classes.utils.type_checking import check_type
    zname = rng.choice(["own", "own", "wide", "wide", "frozen"])
    classes, make, pool, _ = zoo(zname)
    cls = rng.choice(classes)
    try:
        obj = make(cls)
    except Exception:
        return None
    values = pool()
    shape = rng.choice(SHAPES)
    inplace = mode == "C04" and not shape.endswith("_top") and rng.random() < 0.35
    reject = rng.choice(["later", "later", "later", "later", "first", "none", "none"])

    def instance_like(v):
        """another existing instance of the class of v (or of a class of its family)"""
        fam = [c for c in classes if issubclass(c, type(v)) or issubclass(type(v), c)]
        r = rng.random()
        if r < 0.1:
            return v                                   # the very object
        try:
            return make(rng.choice(fam) if fam and r < 0.5 else type(v))
        except Exception:
            return None

    def keywords(target, meth, transforms=False):
        """2..3 keywords for an instance `target` that the helper `meth` takes: values the attributes
        accept, and (per `reject`) one they do not, placed after an accepted one / first"""
        import inspect
        md = type(target).__spec_class__
        try:
            params = inspect.signature(getattr(type(obj), meth)).parameters
        except (AttributeError, TypeError, ValueError):
            return None
        open_kw = any(p.kind is p.VAR_KEYWORD for p in params.values())
        names = [n for n in md.attrs if open_kw or n in params]
        rng.shuffle(names)
        good, bad = {}, {}
        for n in names:
            ty = md.attrs[n].type
            try:
                acc = [v for v in values if check_type(v, ty) and not callable(v)]
                rej = [v for v in values if not check_type(v, ty) and not callable(v)]
            except Exception:
                continue
            if acc:
                good[n] = acc
            if rej:
                bad[n] = rej
        k = rng.choice([2, 2, 3])
        chosen = [n for n in names if n in good][:k]
        if len(chosen) < 2:
            return None
        vals = [rng.choice(good[n]) for n in chosen]
        kinds = ["ok"] * len(chosen)
        if reject != "none":
            j = 0 if reject == "first" else rng.randrange(1, len(chosen))
            cands = [n for n in names if n in bad and n not in chosen[:j] + chosen[j + 1:]]
            if transforms and rng.random() < 0.4:
                kinds[j] = "raise"
            elif cands:
                n = chosen[j] if chosen[j] in bad and rng.random() < 0.7 else rng.choice(cands)
                chosen[j], vals[j], kinds[j] = n, rng.choice(bad[n]), "bad"
        if not transforms:
            return dict(zip(chosen, vals)), [f"{n}=<{k}:{type(v).__name__}>" for n, v, k in zip(chosen, vals, kinds)]
        kw = {}
        for n, v, kd in zip(chosen, vals, kinds):
            kw[n] = _boom if kd == "raise" else (lambda _old, v=v: v)
        return kw, [f"{n}=<fn {k}>" for n, k in zip(chosen, kinds)], vals

    md = cls.__spec_class__
    state = dict(vars(obj))
    nested = [n for n in md.attrs if _is_spec(state.get(n))]
    colls = []
    for n, sp in md.attrs.items():
        c = state.get(n)
        item = getattr(sp, "item_name", None)
        if not item or c is None:
            continue
        try:
            elems = list(c.values()) if isinstance(c, dict) else list(c)
        except TypeError:
            continue
        if elems and all(_is_spec(e) for e in elems):
            colls.append((n, item, c, elems))
    args, kw, watched_extra, desc = [], {}, [], []
    if shape == "update_top":
        repl = instance_like(obj)
        meth = "update"
        built = keywords(repl, meth) if repl is not None else None
        if built is None:
            return None
        kw, desc = built
        args = [repl]
        desc = [f"<{type(repl).__name__} instance{' (the receiver)' if repl is obj else ''}>"] + desc
    elif shape == "transform_top":
        repl = instance_like(obj)
        meth = "transform"
        built = keywords(repl, meth, transforms=True) if repl is not None else None
        if built is None:
            return None
        kw, desc, vals = built
        args = [lambda _v, r=repl: r]
        watched_extra = [repl] + vals
        desc = [f"<fn returning an existing {type(repl).__name__}>"] + desc
    elif shape in ("update_attr", "with_attr", "transform_attr"):
        if not nested:
            return None
        n = rng.choice(nested)
        repl = instance_like(state[n])
        if repl is None:
            return None
        if shape == "transform_attr":
            meth = f"transform_{n}"
            built = keywords(repl, meth, transforms=True)
            if built is None:
                return None
            kw, desc, vals = built
            args = [lambda _v, r=repl: r]
            watched_extra = [repl] + vals
            desc = [f"<fn returning an existing {type(repl).__name__}>"] + desc
        else:
            meth = f"{shape.split('_')[0]}_{n}"
            built = keywords(repl, meth)
            if built is None:
                return None
            kw, desc = built
            args = [repl]
            desc = [f"<{type(repl).__name__} instance>"] + desc
    else:
        if not colls:
            return None
        n, item, c, elems = rng.choice(colls)
        repl = instance_like(rng.choice(elems))
        if repl is None:
            return None
        if isinstance(c, dict):
            addr = rng.choice(list(c) + ["new-key"])
        elif hasattr(c, "_dict") and rng.random() < 0.6:          # keyed container: address by key
            addr = rng.choice(list(c._dict) + ["new-key"])
        else:
            addr = rng.choice([0, -1, len(elems) - 1, len(elems)])
        if shape == "transform_item":
            meth = f"transform_{item}"
            built = keywords(repl, meth, transforms=True)
            if built is None:
                return None
            kw, desc, vals = built
            args = [addr, lambda _v, r=repl: r]
            watched_extra = [repl] + vals
            desc = [repr(addr), f"<fn returning an existing {type(repl).__name__}>"] + desc
        else:
            meth = f"update_{item}" if shape == "update_item" else f"with_{item}"
            built = keywords(repl, meth)
            if built is None:
                return None
            kw, desc = built
            if shape == "update_item":
                args = [addr, repl]
                desc = [repr(addr), f"<{type(repl).__name__} instance>"] + desc
            elif isinstance(c, dict):
                args = [addr, repl]
                desc = [repr(addr), f"<{type(repl).__name__} instance>"] + desc
            else:
                args = [repl]
                desc = [f"<{type(repl).__name__} instance>"] + desc
                if rng.random() < 0.3 and not isinstance(c, (set, frozenset)) and not hasattr(c, "_set"):
                    kw["_index"] = rng.choice([0, -1])
                    kw["_insert"] = rng.random() < 0.6
    if not hasattr(type(obj), meth):
        return None
    if inplace:
        kw = dict(kw, _inplace=True)
        desc = desc + ["_inplace=True"]
    watched = [obj] + [a for a in args if not callable(a)] + [v for k, v in kw.items() if not callable(v)] + watched_extra
    label = f"{cls.__name__}.{meth}({', '.join(desc)}) [{zname} zoo]"
    return {"label": label, "call": (lambda: getattr(obj, meth)(*args, **kw)), "watched": watched,
            "inplace": inplace, "helper": meth, "class": cls.__name__, "zoo": zname, "shape": shape}


def run(case_seed, mode):
    b = build(case_seed, mode)
    if b is None:
        return None
    before = [snapshot(o) for o in b["watched"]]
    outcome = "returned"
    try:
        b["call"]()
    except BaseException as e:
        if isinstance(e, (KeyboardInterrupt, SystemExit)):
            raise
        outcome = "raised " + type(e).__name__
    after = [snapshot(o) for o in b["watched"]]
    changed = [i for i, (x, y) in enumerate(zip(before, after)) if x != y]
    if mode == "C04":
        broken = bool(changed) and outcome != "returned"
    else:
        broken = bool(changed)
    return dict(b, outcome=outcome, changed=changed, broken=broken, before=before, after=after)


def _what(r):
    return ("the receiver" if 0 in r["changed"] else
            "an argument (the handed-over instance or a keyword value)") + " changed"


def explore(chk, extra, mode, n_quick=1800, n_thorough=30000):
    rng = chk.rng
    n = n_quick if chk.tier == "quick" else n_thorough
    tried = raised = later_rejected = 0
    hist, reported = {}, set()
    for _ in range(n):
        case_seed = rng.getrandbits(48)
        r = run(case_seed, mode)
        if r is None:
            continue
        tried += 1
        raised += r["outcome"] != "returned"
        hist[r["shape"]] = hist.get(r["shape"], 0) + 1
        key = (r["shape"], r["inplace"])
        if r["broken"] and key not in reported and len(reported) < 3:
            reported.add(key)
            chk.violation(
                f"{r['label']} ({r['outcome']}): {_what(r)}",
                {"kind": "replacement-probe", "mode": mode, "case_seed": case_seed, "call": r["label"],
                 "outcome": r["outcome"], "changed (0 = receiver, 1.. = arguments / keyword values)": r["changed"],
                 "before": repr(r["before"])[:3000], "after": repr(r["after"])[:3000],
                 "replay": f"bin/check {mode} --replay <this file>"},
                sig={"kind": "replacement-probe", "shape": r["shape"], "inplace": r["inplace"]})
    extra["replacement_probe"] = {
        "calls": tried, "raised": raised, "shape_histogram": hist,
        "rule": "implementation only: classes outside the model (wide zoo, its frozen twin, own zoo with raising scalar / item "
                "preparers and spec / eager / plain subclasses); an existing instance handed over as replacement / value / element "
                "(or returned by the transform) together with 2..3 keywords or attribute transforms, the rejected one (ill-typed "
                "scalar / collection / nested value, raising preparer or transform, uncopyable value) after an accepted one, first, "
                "or absent; oracle: "
                + ("receiver, handed-over instance and keyword values unchanged whether the call returns or raises"
                   if mode == "C01" else "after an exception receiver, handed-over instance and keyword values unchanged")}


def is_replay(path):
    import json
    try:
        with open(path) as fh:
            return json.load(fh).get("kind") == "replacement-probe"
    except (OSError, ValueError, AttributeError):
        return False


def replay(pid, path):
    import json
    with open(path) as fh:
        d = json.load(fh)
    r = run(d["case_seed"], d.get("mode", pid))
    if r is None:
        print("replay: the case could not be rebuilt")
        return 1
    print("replay:", r["label"])
    print("  outcome:", r["outcome"], "| changed (0 = receiver, 1.. = arguments / keyword values):", r["changed"])
    for i in r["changed"][:3]:
        print("  before:", repr(r["before"][i])[:500])
        print("  after: ", repr(r["after"][i])[:500])
    print("replay:", f"still failing ({_what(r)})" if r["broken"] else "passes now")
    return 1 if r["broken"] else 0
