"""Shared by the C05 and C06 checks: evaluation of generated histories through
coq/Corr/SpecCorr.v (documentation oracle + model/implementation tie), shrinking,
reporting.  Built on inst_common / inst_check (imported, not edited)."""
import json
import re

import inst_check
import inst_common as ic
from common import COQ, Check, coq_eval, sh
from common import clist as clist_, copt as copt_, cz as cz_

PRELUDE = """From Coq Require Import List ZArith Bool Arith.
From SC Require Import Base.Res Inst.Heap Inst.ClassTable Inst.Model Inst.Canon Inst.Abs Inst.SpecHelpers Corr.Enc Corr.InstCorr Corr.SpecCorr.
Import ListNotations.
Open Scope nat_scope.
Set Printing Width 1000000.
"""

TRUSTED = inst_check.TRUSTED + [
    "coq/Inst/Abs.v (abstraction of observed object graphs) and coq/Inst/SpecHelpers.v (the documentation as pure functions): the specification itself is trusted to say what the documentation says",
]


SPEC_ONLY_FOR_PLAIN = False   # inst_common / Model.v handle plain subclasses since verif "plain (undecorated) subclass"


def has_plain(table):
    return any(c.get("kind", "spec") != "spec" for c in table)


def c_table2(table):
    """like inst_common.c_table, but renders PLAIN (undecorated) subclasses the way
    coq/Inst/ClassTable.v means them: the attributes (and defaults) of the spec class
    whose metadata they inherit (c_owner), plus c_overrides = the class attributes
    that override inherited defaults along the chain of plain classes"""
    from common import cbool, clist, copt
    res, heap0 = ic.resolve_table(table)
    by_id = {c["id"]: c for c in res}

    def attr_terms(c):
        out = []
        for a in c["rattrs"]:
            out.append("mkattr {aid} {ty} {dflt} {fac} {owner} {init} {dnc} {prep} {prepi} {inv}".format(
                aid=a["aid"], ty=ic.c_ty(a["ty"]), dflt=a["default_c"],
                fac=copt(a.get("factory"), ic.c_fac), owner=a["owner"], init=cbool(a.get("init", True)),
                dnc=cbool(a.get("dnc", False)), prep=copt(a.get("prepare"), ic.c_fn),
                prepi=copt(a.get("prepare_item"), ic.c_fn), inv=clist(a.get("inv_by", []))))
        return out
    terms = []
    for c in res:
        if c.get("kind", "spec") == "spec":
            owner, overrides, attrs = c, [], attr_terms(c)
        else:
            chain, owner = [], c
            while owner.get("kind", "spec") != "spec":
                chain.append(owner)
                owner = by_id[owner["base"]]
            overridden = []
            for k in chain:
                for a in k["attrs"]:
                    if "override" in a and a["aid"] not in overridden:
                        overridden.append(a["aid"])
            eff = {a["aid"]: a["default_c"] for a in c["rattrs"]}
            overrides = ["(%d, %s)" % (aid, eff[aid]) for aid in overridden]
            attrs = attr_terms(owner)
        terms.append("mkcls {id} {attrs} {frozen} false {key} {mro} {owner} {ov} {pi} {pc}".format(
            id=c["id"], attrs=clist(attrs), frozen=cbool(owner["rfrozen"]), key=copt(owner["rkey"]),
            mro=clist(c["mro"]), owner=owner["id"], ov=clist(overrides),
            pi=copt(c.get("post_init"), ic.c_fn), pc=copt(c.get("post_copy"), ic.c_fn)))
    return clist(terms), clist(heap0, ic.c_obj)


def c_case2(table, ops, seen0, seen):
    res, _ = ic.resolve_table(table)
    if all("overrides" in c for c in res):
        # inst_common renders plain subclasses itself (c_owner / c_overrides)
        return ic.c_case(table, ops, seen0, seen)
    ct, heap0 = c_table2(table)
    ops_t = clist_(ops, lambda p: f"({ic.c_op(p[0])}, {copt_(p[1])})")
    seen_t = clist_(seen, lambda o: f"({clist_(o[0], cz_)}%Z, {ic.c_graph(o[1])})")
    return f"mkic {ct} {heap0} {ops_t} {ic.c_graph(seen0)} {seen_t}"


def evaluate(pid, cases, sel, tag="c", shard=150):
    """returns [(index, code, observation)] for non-zero codes (1: model differs only, 2: spec violated), logs"""
    terms, obs, broken = [], [], []
    for i, case in enumerate(cases):
        r, err = ic.run_case(case)
        if r is None:
            broken.append((i, err))
            r = (([], []), [])
        obs.append(r)
        # tables with plain subclasses: the instance model does not construct such instances
        # (inst_common cannot render them either), so only the documentation oracle judges them
        spec_only = has_plain(case["table"]) and SPEC_ONLY_FOR_PLAIN
        mk = c_case2 if spec_only else ic.c_case
        term = mk(case["table"], case["ops"], r[0], r[1]) if err is None else mk(case["table"], [], ([], []), [])
        terms.append(f"({'true' if spec_only else 'false'}, {term})")
    prelude = PRELUDE + f"Definition chk (p : bool * icase) : nat := if fst p then check_spec_case {sel} (snd p) else check_full {sel} (snd p).\n"
    bad, logs = coq_eval(pid, prelude, "chk", terms, shard=shard, tag=tag, case_type="bool * icase")
    out = [(i, code, obs[i]) for i, code in bad]
    for i, err in broken:
        logs.append(f"case {i}: harness could not run the implementation: {err}")
    return out, logs


def shrink(pid, case, sel, code, rounds=40):
    """smallest history (prefix, then dropped operations) that still yields `code`;
    paired relation runs (case["groups"]) are kept intact"""
    import c05_gen
    cur = case
    prefixes = [c05_gen.truncate(cur, n) for n in range(1, len(cur["ops"]))]
    if prefixes:
        bad, _ = evaluate(pid, prefixes, sel, tag="s")
        hit = [i for i, c, _ in bad if c == code]
        if hit:
            cur = prefixes[min(hit)]
    for _ in range(rounds):
        idx = [j for j in range(len(cur["ops"]) - 1) if c05_gen.droppable(cur, j)][::-1]
        cands = [c05_gen.drop_op(cur, j) for j in idx]
        cands = [c for c in cands if c is not None and c["ops"]]
        if not cands:
            break
        bad, _ = evaluate(pid, cands, sel, tag="s")
        hit = [i for i, c, _ in bad if c == code]
        if not hit:
            break
        cur = cands[min(hit)]
    return cur


def spec_view(pid, case):
    """expected (documentation) vs observed abstract result for every operation; text from Coq"""
    r, err = ic.run_case(case)
    if r is None:
        return "implementation could not be run: " + str(err)
    term = (c_case2 if has_plain(case["table"]) else ic.c_case)(case["table"], case["ops"], r[0], r[1])
    path = f"{COQ}/Corr/gen/{pid}_view.v"
    open(path, "w").write(PRELUDE + f"Definition c : icase := {term}.\nEval vm_compute in (spec_view c).\n"
                          "Eval vm_compute in (map fst (model_trace c)).\n")
    rc, out = sh(f"timeout 300 coqc -Q . SC Corr/gen/{pid}_view.v", cwd=COQ)
    return out[-6000:]


def op_sig(case):
    """signature of the last operation of a (shrunk) case, for KNOWN_FINDINGS matching"""
    op = case["ops"][-1][0]
    sig = {"kind": op[0]}
    table = {c["id"]: c for c in case["table"]}
    if op[0] == "helper":
        sig["helper"] = op[2][0]
        h = op[3]
        sig["inplace"] = bool(h.get("inplace"))
        aid = op[2][1]
        if aid is not None:
            sig["attr_type"] = attr_type(case, aid)
        pos = h.get("pos", [])
        sig["unchanged_arg"] = any(v == ("unchanged",) for v in pos) or \
            any(v == ("unchanged",) for _, v in (h.get("kw") or []))
    elif op[0] in ("setattr", "delattr"):
        sig["attr_type"] = attr_type(case, op[2])
        if op[0] == "setattr":
            sig["unchanged_arg"] = op[3] == ("unchanged",)
    return sig


def attr_type(case, aid):
    for c in case["table"]:
        for a in c["attrs"]:
            if a["aid"] == aid and "ty" in a:
                return a["ty"][0]
    return None


def describe(case, code, obs, view=None):
    d = {"table": case["table"], "ops": case["ops"], "nd": case["nd"], "groups": case.get("groups", []), "code": code,
         "meaning": {1: "model and implementation disagree; the documentation oracle accepts the implementation's run",
                     2: "the implementation's observed result contradicts the documentation oracle (Inst/SpecHelpers.v)"}.get(code),
         "observed": obs, "replay": "bin/check <id> --replay <this file>"}
    if view:
        d["expected_vs_observed"] = view
    return d


def report(chk, pid, sel, cases, bad, logs, limit=20, sig_fn=op_sig):
    """shrink and report; returns number of distinct reports"""
    reported = set()
    bad = sorted(bad, key=lambda t: (-t[1], len(cases[t[0]]["ops"])))
    for i, code, obs in bad[:limit]:
        small = shrink(pid, cases[i], sel, code)
        sig = sig_fn(small)
        key = (code, json.dumps(sig, sort_keys=True, default=str))
        if key in reported:
            continue
        reported.add(key)
        r, _ = ic.run_case(small)
        concrete = code == 2
        last = small["ops"][-1][0]
        what = ("%s violated by the implementation (documentation oracle): %s %s" % (pid, last[0], str(last[2])[:40] if len(last) > 2 else "")
                if concrete else
                "model and implementation disagree (documentation oracle accepts the run): %s %s" % (last[0], str(last[2])[:40] if len(last) > 2 else ""))
        view = spec_view(pid, small) if concrete else None
        chk.violation(what, describe(small, code, r, view), sig=sig if concrete else None, no_input=not concrete)
    for lg in logs[:3]:
        chk.violation("correspondence evaluation failed: " + lg[:400], {"kind": "coq-eval", "log": lg}, no_input=True)
    return len(reported)


def histograms(cases):
    ophist, sizes, n_ops = {}, {}, 0
    for c in cases:
        sizes[len(c["ops"])] = sizes.get(len(c["ops"]), 0) + 1
        for op, fa in c["ops"]:
            n_ops += 1
            if op[0] == "helper":
                h = op[3]
                k = "helper:" + op[2][0] + (":inplace" if h.get("inplace") else "") + ("" if h.get("if_", True) else ":if=False")
            else:
                k = op[0]
            ophist[k] = ophist.get(k, 0) + 1
    return ophist, sizes, n_ops


def replay(pid, path, sel):
    case = inst_check.load_replay(path)
    bad, logs = evaluate(pid, [case], sel, tag="r")
    code = bad[0][1] if bad else 0
    print("replay:", ("still failing, code=%d" % code) if code else "passes now", logs[:1])
    r, err = ic.run_case(case)
    if r:
        for (op, fa), o in zip(case["ops"], r[1]):
            print("  ", op, fa, "->", o[0])
    if code == 2:
        print(spec_view(pid, case))
    return 1 if code else 0
