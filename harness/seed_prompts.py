#!/usr/bin/env python3
"""seed_prompts.py <round letter> [Cnn ...] : writes /tmp/seedprompt<R>-<id>.txt (the prompt handed to an
independent tester: property text + one-line descriptions of the changes already stored under seeded/,
nothing else from /verif) and creates the scratch worktree /tmp/seed<R>-<id> of /repo."""
import json, os, subprocess, sys

V = os.path.dirname(os.path.dirname(os.path.abspath(__file__)))
R = sys.argv[1]
only = sys.argv[2:]
props = [json.loads(l) for l in open(V + "/properties.jsonl")]
desc = json.load(open(V + "/seeded/descriptions.json"))

TEMPLATE = """You are an independent tester. A Python library (spec-classes: a dataclass-like decorator that generates type-checked, copy-on-write with_/update_/transform_/reset_/without_ helper methods, plus KeyedList/KeyedSet containers and spec_property/Alias descriptors) is checked out as a git worktree at {wt}. Work ONLY inside {wt}. Do NOT read, list or use anything under /verif or /repo or any other /tmp/seed* directory (a separate team is building checkers there; your work must be independent of what they can already detect).

The library is supposed to satisfy this semantic property:

  TITLE: {title}
  STATEMENT: {statement}
  QUANTIFIED OVER: {quant}

Your task: produce TWO different, independent changes to the library source (files under {wt}/spec_classes/) each of which BREAKS this property while
  (1) the package still imports and works for ordinary use,
  (2) the existing test-suite still passes completely: `cd {wt} && /venv/bin/python -m pytest -q -p no:cacheprovider` must report 152 passed,
  (3) the breakage needs something specific to manifest — a multi-step sequence of operations, an unusual input (negative index, falsy element, empty container, particular flag combination, subclass, nested value, ...), a failure at a particular point, a particular interleaving, or two cooperating code sites that each look fine alone — NOT something that the first ordinary use would expose at once. Make them realistic: the kind of slip a maintainer could make in a refactoring (dropped copy on one branch, check moved after a write, wrong variable, off-by-one, condition inverted for an edge case, cache not cleared on one path, ...). The two changes should touch different code paths.
For each change i in {{1, 2}} deliver, inside {wt}/:
  * `patch{{i}}.diff` — `git diff` of the change against the clean checkout (each patch must apply on its own to the clean checkout with `git apply`),
  * `demo{{i}}.py` — a small stand-alone program (run as `cd {wt} && PYTHONPATH={wt} /venv/bin/python demo{{i}}.py`) that exits with status 0 on the clean checkout and with a non-zero status (failed assertion that states which part of the property is violated) when patch{{i}} is applied. Verify both directions yourself (switch states ONLY with `git apply` / `git apply -R` / `git checkout -- spec_classes`; NEVER use `git stash`: the stash is shared with other worktrees of this repository), and verify the 152 tests pass with each patch applied.
Several changes of this kind are already known; produce DIFFERENT ones, in other functions or on other code paths (prefer parts of the property, argument shapes, class shapes and files that the known ones do not touch), and do not simply vary them:
{known}
Leave the worktree CLEAN at the end (`git checkout -- spec_classes`; the patch and demo files stay as untracked files). Use `PYTHONPATH={wt} /venv/bin/python` to run Python (never `cd` into spec_classes/ itself: it shadows standard modules). Finish with a short report: for each change, the file/function touched, one sentence on what it breaks, and exactly what is needed for it to manifest (two lines per change at most)."""

for p in props:
    pid = p["id"]
    if only and pid not in only:
        continue
    wt = f"/tmp/seed{R}-{pid}"
    known = "\n".join(f"  - {d[0]} ({d[1]})" for k, d in sorted(desc.items()) if k.split("-")[0] == pid)
    txt = TEMPLATE.format(wt=wt, title=p["title"], statement=p["statement"], quant=p["quantifier"]["text"], known=known)
    open(f"/tmp/seedprompt{R}-{pid}.txt", "w").write(txt)
    subprocess.run(f"git -C /repo worktree remove --force {wt}; rm -rf {wt}; git -C /repo worktree add -q --detach {wt} HEAD && "
                   f"cp /repo/spec_classes/_version.py {wt}/spec_classes/ 2>/dev/null", shell=True,
                   stdout=subprocess.DEVNULL, stderr=subprocess.DEVNULL)
    print(pid, wt, len(txt))
