"""C03 — managed attributes always satisfy their declared type on every mutation route."""
import c03_gen  # noqa: F401  (registers the float atoms used by replays)
import inst_check

ASSUMPTIONS = [
    "class grammar: K1 leaf (optionally keyed/frozen), K2 node with int/str/Optional, nested spec, List/Dict/Set of scalars, List/Dict of (keyed) spec classes, K3 spec subclass; KeyedList/KeyedSet attributes, Literal/float/tuple annotations and validated types are outside the instance model (their conformance relation is C15's); KeyedList/KeyedSet attributes and bounded() types are probed on the implementation with reference predicates written in the harness (c03_keyed_probe, c03_probe)",
    "argument objects are fresh (args_fresh): every mutable argument is built for the call it is passed to and is not reachable from another instance",
    "user callbacks only allocate; they may return ill-typed values",
    "conformance is evaluated in Coq with the model's check_type on the implementation's canonical object graph (bit 8 of Corr/InstCorr.check_case)",
]


def main(tier, replay=None):
    if replay:
        return c03_gen.replay(replay)
    return c03_gen.run(tier, ASSUMPTIONS)
