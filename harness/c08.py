"""C08 — instances share no mutable state with defaults, constructor arguments or peers;
reset/del yield a fresh value equal to what a new instance would hold."""
import c02_gen
import c08_gen
import inst_check

ASSUMPTIONS = [
    "theorems: class tables without do_not_copy=True classes and without plain subclasses; callbacks and default factories embed no heap references; history theorem (class-level defaults isolated) for the alphabet hist_op_ok of coq/Inst/SepProofs.v",
    "oracles (on the implementation's canonical object graphs): a new instance shares nothing with anything that existed before (class defaults, constructor arguments, peers) except through do_not_copy attributes; class-level default objects are never reachable from any other root; `same` assertions: the attribute after reset_<a> / reset / del (in place or on a copy) equals the attribute of a freshly constructed instance of the same class",
    "the reset histories also report oracle bit 4 (a copy produced by reset_<a>() / reset() shares a mutable object with the instance it was made from): two instances sharing state is a violation of 'nor any other instance'",
    "every way of declaring a default that the class grammar of inst_common renders: literal, mutable literal, Attr(default=), Attr(default_factory=), dataclasses.field(default=/default_factory=), override (int and mutable list/dict) in a spec subclass, override in a plain subclass (K4..K7 of the plain-constructor histories; also plain_subclass_probe on the implementation only)",
    "do_not_copy per spec class: a spec subclass's own decorator decides for the attributes it inherits, re-defaulted or not (own_dnc_histories: K3 / K8 / K9 with own lists differing from K2's, through the model and the Coq oracles; harness/c08_probe.py run_own_dnc on the implementation only: Attr(default=) re-defaults, KeyedList, a spec class above a plain one)",
    "plain (undecorated) subclasses as constructed classes: K4 plain over K2, K5 plain over K4, K6 plain over the spec subclass K3, K7 plain over K6 - correspondence and oracles through the model (c_owner / c_overrides), the theorems keep the own_metadata guard; KeyedList / KeyedSet arguments and a spec class above a plain one only in the implementation-level probe harness/c08_probe.py (oracle: the property statement on object identities)",
]
GENS = [
    (2, dict(bad_rate=0.1, inplace_rate=0.5, fail_rate=0.0)),
    # K4 = plain (undecorated) subclass of K2, constructed WITH keyword arguments (seeded change C08-E1)
    (1, dict(bad_rate=0.1, inplace_rate=0.5, fail_rate=0.0, flavour="plain")),
]


def plain_subclass_probe(chk, extra):
    """implementation-only: a plain subclass overriding defaults of a spec class; del / reset
    must install a copy of the override (fresh, equal to a new instance's value)"""
    import dataclasses
    from typing import Dict, List

    from spec_classes import Attr, spec_class
    n = bad = 0
    for decl in ("plain", "Attr", "factory", "field_factory"):
        for form in ("del", "reset_attr", "reset_attr_inplace", "reset"):
            if decl == "plain":
                dflt = [1]
            elif decl == "Attr":
                dflt = Attr(default=[1])
            elif decl == "factory":
                dflt = Attr(default_factory=lambda: [1])
            else:
                dflt = dataclasses.field(default_factory=lambda: [1])
            A = spec_class(type("A", (), {"__annotations__": {"xs": List[int], "d": Dict[str, int]}, "xs": dflt, "d": {"a": 1},
                                          "__module__": "verif_generated", "__qualname__": "A"}))
            B = type("B", (A,), {"xs": [7, 8], "__module__": "verif_generated", "__qualname__": "B"})
            b = B()
            b.xs.append(9)
            if form == "del":
                del b.xs
                got = b
            elif form == "reset_attr":
                got = b.reset_xs()
            elif form == "reset_attr_inplace":
                got = b.reset_xs(_inplace=True)
            else:
                got = b.reset()
            fresh = B()
            n += 1
            ok = got.__dict__.get("xs") == fresh.__dict__.get("xs") == [7, 8] and got.__dict__["xs"] is not B.__dict__["xs"] \
                and got.__dict__["xs"] is not fresh.__dict__["xs"] and B.__dict__["xs"] == [7, 8]
            if not ok:
                bad += 1
                chk.violation("plain subclass override: value after %s differs from a new instance's (or is shared)" % form,
                              {"kind": "plain-subclass", "decl": decl, "form": form,
                               "after": repr(got.__dict__), "fresh": repr(fresh.__dict__), "class_attr": repr(B.__dict__["xs"])},
                              sig={"kind": "plain-subclass"})
    extra["plain_subclass_probe"] = {"cases": n, "failing": bad}


def dnc_family_ctor_probe(chk, extra):
    """implementation-only: whether a constructor copies an argument is decided by the class's own
    do_not_copy declaration, whatever spec subclasses (with a different declaration for the
    inherited attribute) have been bootstrapped; both directions, lazy and eager, parent and sibling"""
    n = bad = 0
    for eager in (False, True):
        for parent_dnc, child_dnc in (((), ("xs", "ks")), (("xs", "ks"), ()), (("xs",), ("ks",))):
            K, P, Q, S = c02_gen.dnc_family(parent_dnc, child_dnc, eager)
            for first_use in ("before", "after"):
                for cls, dnc in ((P, parent_dnc), (S, ()), (Q, child_dnc)):
                    if first_use == "before" and cls is Q:
                        continue
                    xs, ks = [1, 2], [K("a")]
                    obj = cls(xs=xs, ks=ks)
                    n += 1
                    ok = True
                    for a, arg in (("xs", xs), ("ks", ks)):
                        same = getattr(obj, a) is arg
                        ok = ok and (same if a in dnc else not same)
                    if "ks" not in dnc:
                        ok = ok and obj.ks[0] is not ks[0]
                    if ok:   # in-place mutation of the instance must not reach a copied argument
                        obj.with_x(9, _inplace=True)
                        ok = (xs == [1, 2, 9]) if "xs" in dnc else (xs == [1, 2])
                    if not ok:
                        bad += 1
                        if bad <= 4:
                            chk.violation("C08 violated by the implementation: constructor of %s (%s its spec subclass was first used) %s the argument for xs / ks although it declares do_not_copy=%s"
                                          % (cls.__name__, first_use, "keeps" if obj.xs is xs or obj.ks is ks else "copies", list(dnc)),
                                          {"kind": "dnc-family-ctor", "eager": eager, "parent_dnc": list(parent_dnc),
                                           "child_dnc": list(child_dnc), "class": cls.__name__, "when": first_use,
                                           "xs_same": obj.xs is xs, "ks_same": obj.ks is ks, "argument_after_mutation": repr(xs)},
                                          sig={"kind": "dnc-family-ctor"})
                if first_use == "before":
                    Q(xs=[0], ks=[])
    extra["dnc_family_ctor_probe"] = {"cases": n, "failing": bad}


def plain_ctor_probe(chk, extra):
    """implementation-only (harness/c08_probe.py): constructors of plain subclasses (one and two levels,
    below a spec class, a spec subclass and a spec class that itself sits above a plain one; lazy and
    eager; with and without overrides) called with list / dict / set / nested / List-, Dict-, KeyedList-,
    KeyedSet-of-spec arguments; two peers from the same argument; nothing mutable reachable from two of
    {argument, peer A, peer B, class defaults} unless do_not_copy; in-place mutation through each holder"""
    import c08_probe
    r = c08_probe.run()
    seen = set()
    for f in r["failures"]:
        k = (f["class"], f["what"].split("(")[0])
        if k in seen or len(seen) >= 3:
            continue
        seen.add(k)
        chk.violation("C08 violated by the implementation: %s(%s=<argument>) twice from the same argument: %s"
                      % (f["class"], f["attr"], f["what"]), dict(f, kind="plain-ctor"), sig={"kind": "plain-ctor"})
    extra["plain_ctor_probe"] = {"cases": r["cases"], "failing": len(r["failures"])}


def own_dnc_probe(chk, extra):
    """implementation-only (harness/c08_probe.py run_own_dnc): do_not_copy is decided by each spec class's
    OWN decorator, also for inherited attributes the subclass re-defaults (bare class attribute or
    Attr(default=...)), restates or does not restate; plain and further spec subclasses below; both
    directions; lazy and eager; list / dict / KeyedList of keyed spec instances; peers from one argument,
    copies by reset_<other>() / with_<other>() / update / transform / deepcopy, in-place mutation through
    every holder, del / reset_<a> against a new instance"""
    import c08_probe
    r = c08_probe.run_own_dnc()
    seen = set()
    for f in r["failures"]:
        k = (f["class"], f["what"].split("(")[0])
        if k in seen or len(seen) >= 3:
            continue
        seen.add(k)
        chk.violation("C08 violated by the implementation: %s(%s=<argument>) (its decorator lists do_not_copy=%s): %s"
                      % (f["class"], f["attr"], f["declared_do_not_copy"], f["what"]), dict(f, kind="own-dnc"),
                      sig={"kind": "own-dnc"})
    extra["own_dnc_probe"] = {"cases": r["cases"], "failing": len(r["failures"])}


def targeted(chk, cases, bad, extra):
    n = 220 if chk.tier == "quick" else 4500
    n_ops = 6 if chk.tier == "quick" else 9
    mine = [c08_gen.sanitize(c08_gen.gen_case_c08(chk.rng, n_ops)) for _ in range(n)]
    c02_gen.report(chk, "C08", 32 | 128 | 4, mine, extra, "reset_histories", sig_fn=c08_gen.same_signature)
    same = sum(1 for c in mine for op, _ in c["ops"] if op[0] == "same")
    extra["reset_histories"]["same_assertions"] = same
    n_pc = 60 if chk.tier == "quick" else 1000
    pc = [c08_gen.gen_case_plain_ctor(chk.rng, 4 if chk.tier == "quick" else 7) for _ in range(n_pc)]
    c02_gen.report(chk, "C08", 32 | 4, pc, extra, "plain_ctor_histories")
    hist = {}
    for c in pc:
        for op, _ in c["ops"]:
            if op[0] == "construct" and op[1] >= 4:
                hist["K%d" % op[1]] = hist.get("K%d" % op[1], 0) + 1
    extra["plain_ctor_histories"]["constructed_plain_classes"] = hist
    # a spec subclass's own do_not_copy list for inherited (re-defaulted) attributes (seeded change C08-F2)
    n_od = 60 if chk.tier == "quick" else 1200
    od = [c08_gen.sanitize(c08_gen.gen_case_own_dnc(chk.rng, 5 if chk.tier == "quick" else 8)) for _ in range(n_od)]
    c02_gen.report(chk, "C08", 32 | 128 | 4, od, extra, "own_dnc_histories", sig_fn=c08_gen.same_signature)
    extra["own_dnc_histories"]["shapes"] = c08_gen.own_dnc_shapes(od)
    plain_subclass_probe(chk, extra)
    dnc_family_ctor_probe(chk, extra)
    plain_ctor_probe(chk, extra)
    own_dnc_probe(chk, extra)
    import c08_sentinel
    c08_sentinel.probe(chk, extra)
    extra["rule"] = extra.get("rule", "") + "; own-do_not_copy histories = spec subclasses with their own do_not_copy list (differing from the parent's) that re-default inherited mutable attributes, plain / spec classes below them and a merely inheriting sibling: peers from the same mutable argument objects, copies by reset_<other>() / with_<other>() / deepcopy, in-place mutation through every holder, del / reset_<a> with `same` assertions; plain-constructor histories = peers of plain / spec classes built from the same mutable argument objects, in-place mutation through every holder, del / reset, further peers; reset histories = construct, in-place mutation, del / reset_<a> / reset (in place or copy), fresh instance of the same class, `same` assertion per reset attribute"


def main(tier, replay=None):
    if replay:
        import json
        r = json.load(open(replay))
        probes = {"plain-subclass": (plain_subclass_probe, "plain_subclass_probe"),
                  "dnc-family-ctor": (dnc_family_ctor_probe, "dnc_family_ctor_probe"),
                  "plain-ctor": (plain_ctor_probe, "plain_ctor_probe"),
                  "own-dnc": (own_dnc_probe, "own_dnc_probe")}
        if r.get("kind") in probes:
            from common import Check
            fn, key = probes[r["kind"]]
            chk, extra = Check("C08", "quick"), {}
            fn(chk, extra)
            print("replay:", "still failing" if extra[key]["failing"] else "passes now", extra)
            return 1 if extra[key]["failing"] else 0
        return inst_check.replay("C08", replay, 32 | 128 | 4)
    return inst_check.run("C08", tier, 32 | 128, GENS, 90, 2500, ASSUMPTIONS, post=targeted)
