"""C13 — KeyedList: correspondence of KL/Model.v with spec_classes.types.keyed.KeyedList
and property oracle (KL/Spec.v) on the implementation's observations."""
import itertools

from common import Check, ERR_CODES, cbool, clist, copt, coq_eval, cz, czlist, outcome_class

PRELUDE = """From Coq Require Import List ZArith Bool.
From SC Require Import Base.Res Base.PyList KL.Model KL.Spec Corr.Enc Corr.KLCorr.
Import ListNotations.
Open Scope Z_scope.
"""

UNIVERSES = ["self", "tuple", "spec", "intkey"]


class FalsyTuple(tuple):
    """a tuple (equal to and hashing like the plain one) whose truth value is its payload's"""
    def __bool__(self):
        return bool(self[1])


# ------------------------------------------------------------------ implementation side
class Impl:
    def __init__(self, universe, typed):
        from spec_classes import spec_class
        from spec_classes.types import KeyedList
        self.u, self.typed, self.KeyedList = universe, typed, KeyedList
        if universe == "spec":
            @spec_class(key="k")
            class Item:
                k: str
                p: int

            @spec_class(key="k")
            class Other:
                k: str
                p: int
            self.Item, self.Other = Item, Other

    # item (k, p) -> python object
    def item(self, kp):
        k, p = kp
        u = self.u
        if u == "self":
            return 1000 + k if p == 9 else f"{k}.{p}"
        if u == "tuple":
            if p == 9:
                return [f"k{k}", 9]
            return (9, p) if k == 9 else (f"k{k}", p)
        if u == "spec":
            # key 0 is the EMPTY string: a falsy key value reaching the default key extraction
            ks = "" if k == 0 else f"k{k}"
            return self.Other(k=ks, p=9) if p == 9 else self.Item(k=ks, p=p)
        if p == 9:
            return [k, 9]
        # int-keyed universe: tuples that are FALSY when their payload is 0 (a stored item may be
        # falsy: `x or default`, `if item:` slips)
        return FalsyTuple(("nine", p) if k == 9 else (k, p))

    def keyarg(self, kp):
        k, p = kp
        if self.u == "self":
            return self.item(kp)
        if self.u == "intkey":
            return k
        if self.u == "spec" and k == 0:
            return ""
        return f"k{k}"

    def dec_item(self, o):
        try:
            u = self.u
            if u == "self":
                if isinstance(o, int):
                    return (o - 1000, 9)
                a, b = o.split(".")
                return (int(a), int(b))
            if u == "spec":
                return (0 if o.k == "" else int(o.k[1:]), 9 if isinstance(o, self.Other) else o.p)
            k, p = o[0], o[1]
            if u == "tuple":
                return (9 if k == 9 else int(k[1:]), p)
            return (9 if k == "nine" else k, p)
        except Exception:
            return (60, 0)

    def dec_key(self, k):
        try:
            if self.u == "self":
                return self.dec_item(k)
            if self.u == "intkey":
                return (9 if k == "nine" else int(k), 0)
            if self.u == "spec" and k == "":
                return (0, 0)
            return (9 if k == 9 else int(k[1:]), 0)
        except Exception:
            return (60, 0)

    def enc_item(self, o):
        k, p = self.dec_item(o)
        return k * 16 + p

    def enc_key(self, k):
        kk = self.dec_key(k)
        return kk[0] * 16 + kk[1] if self.u == "self" else kk[0]

    def enc_pairs(self, d, lst=None):
        out = []
        for k, v in d:
            e = self.enc_key(k) * 1000 + self.enc_item(v)
            if lst is not None and not any(v is x for x in lst):
                e += 500000  # the index holds an object that is not in the list
            out.append(e)
        return sorted(out)

    def new(self, items):
        KL = self.KeyedList
        seq = [self.item(x) for x in items]
        keyf = None if self.u in ("self", "spec") else (lambda t: t[0])
        if self.typed:
            from typing import Union
            # self-keyed universe: the item type admits the ill-typed items (ints), so it is the
            # KEY type check (default key extraction, no key function) that has to reject them
            T = {"self": KL[Union[str, int], str], "tuple": KL[tuple, str], "intkey": KL[tuple, int]}.get(self.u)
            if self.u == "spec":
                T = KL[self.Item, str]
            return T(seq, key=keyf)
        return KL(seq, key=keyf)

    def enc_new(self, n):
        if not isinstance(n, self.KeyedList):
            return [-99]
        return [8, len(n._list)] + [self.enc_item(x) for x in n._list] + self.enc_pairs(list(n._dict.items()), n._list)

    def arg_seq(self, l, a):
        """the argument of extend / +=: a list, or (third component of the operation) a tuple,
        a generator, or an UNTYPED KeyedList sharing the receiver's key function object"""
        seq = [self.item(x) for x in a[0]]
        kind = a[1] if len(a) > 1 else "list"
        if kind == "tuple":
            return tuple(seq)
        if kind == "gen":
            return (x for x in seq)
        if kind == "kl":
            try:
                return self.KeyedList(seq, key=l._key)
            except BaseException:      # e.g. duplicate keys inside the argument: hand over the list
                return seq
        return seq

    def apply(self, l, op):
        name, a = op[0], op[1:]
        it, ka = self.item, self.keyarg
        if name == "GetIdx":
            return [1, self.enc_item(l[a[0]])]
        if name == "GetKey":
            return [1, self.enc_item(l[ka(a[0])])]
        if name == "GetSlice":
            r = l[slice(a[0], a[1], a[2])]
            return [-98] if r is l else self.enc_new(r)
        if name == "SetIdx":
            l[a[0]] = it(a[1]); return [0]
        if name == "SetKey":
            l[ka(a[0])] = it(a[1]); return [0]
        if name == "SetSlice":
            l[0:1] = []; return [0]
        if name == "DelIdx":
            del l[a[0]]; return [0]
        if name == "DelKey":
            del l[ka(a[0])]; return [0]
        if name == "DelSlice":
            del l[0:1]; return [0]
        if name == "Insert":
            r = l.insert(a[0], it(a[1])); return [0] if r is None else [-99]
        if name == "InsertBadPos":   # a position that is not an integer: None, or a key
            r = l.insert(None if a[1] == 0 else "pos", it(a[0])); return [0] if r is None else [-99]
        if name == "Append":
            l.append(it(a[0])); return [0]
        if name == "Extend":
            l.extend(self.arg_seq(l, a)); return [0]
        if name == "ExtendSelf":
            l.extend(l); return [0]
        if name == "IAdd":
            l0 = l
            l += self.arg_seq(l, a)
            return [0] if l is l0 else [-99]
        if name == "Pop":
            v = l.pop() if a[0] is None else l.pop(a[0]); return [1, self.enc_item(v)]
        if name == "Remove":
            l.remove(it(a[0])); return [0]
        if name == "Reverse":
            l.reverse(); return [0]
        if name == "Clear":
            l.clear(); return [0]
        if name == "Add":       # like list + list: always a NEW container (also for an empty operand)
            r = l + [it(x) for x in a[0]]
            return [-98] if r is l else self.enc_new(r)
        if name == "RAdd":
            r = [it(x) for x in a[0]] + l
            return [-98] if r is l else self.enc_new(r)
        if name == "ContainsItem":
            return [3, int(it(a[0]) in l)]
        if name == "ContainsKey":
            return [3, int(ka(a[0]) in l)]
        if name == "Iter":
            return [2] + [self.enc_item(x) for x in iter(l)]
        if name == "Reversed":
            return [2] + [self.enc_item(x) for x in reversed(l)]
        if name == "Len":
            return [4, len(l)]
        if name == "Index":
            return [4, l.index(it(a[0]))]
        if name == "Count":
            return [4, l.count(it(a[0]))]
        if name == "Get":
            v = l.get(ka(a[0])); return [5] if v is None else [5, self.enc_item(v)]
        if name == "Keys":
            return [6] + sorted(self.enc_key(k) for k in l.keys())
        if name == "Items":
            return [7] + self.enc_pairs(list(l.items()))
        if name == "IndexForKey":
            return [4, l.index_for_key(ka(a[0]))]
        if name == "EqList":
            r = (l == [it(x) for x in a[0]])
            return [3, int(r)] if isinstance(r, bool) else [-99]
        raise AssertionError(name)

    def run(self, init, ops):
        l = self.new(init)
        seen = []
        for op in ops:
            try:
                out = self.apply(l, op)
            except BaseException as e:  # BaseTypeError derives from BaseException
                if isinstance(e, (KeyboardInterrupt, SystemExit, AssertionError)):
                    raise
                out = [ERR_CODES[outcome_class(e)]]
            seen.append((out, [self.enc_item(x) for x in l._list],
                         self.enc_pairs(list(l._dict.items()), l._list)))
        return seen


# ------------------------------------------------------------------ Coq side
def c_item(kp):
    return f"({cz(kp[0])}, {cz(kp[1])})"


def c_key(u, kp):
    return c_item(kp) if u == "self" else cz(kp[0])


def c_op(u, op):
    n, a = op[0], op[1:]
    items = lambda xs: clist(xs, c_item)
    if n in ("GetIdx", "DelIdx"):
        return f"O{n} {cz(a[0])}"
    if n in ("GetKey", "DelKey", "ContainsKey", "Get", "IndexForKey"):
        return f"O{n} {c_key(u, a[0])}"
    if n == "GetSlice":
        return f"OGetSlice {copt(a[0], cz)} {copt(a[1], cz)} {cz(a[2])}"
    if n in ("SetIdx", "Insert"):
        return f"O{n} {cz(a[0])} {c_item(a[1])}"
    if n == "SetKey":
        return f"OSetKey {c_key(u, a[0])} {c_item(a[1])}"
    if n in ("Append", "Remove", "ContainsItem", "Index", "Count"):
        return f"O{n} {c_item(a[0])}"
    if n == "InsertBadPos":
        return f"OInsertBadPos {c_item(a[0])}"
    if n in ("Extend", "IAdd", "Add", "RAdd", "EqList"):
        return f"O{n} {items(a[0])}"
    if n == "Pop":
        return f"OPop {copt(a[0], cz)}"
    return f"O{n}"


def c_case(u, typed, init, ops, seen):
    obs = clist(seen, lambda o: f"({czlist(o[0])}, {czlist(o[1])}, {czlist(o[2])})")
    return f"mkcase {cbool(typed)} {clist(init, c_item)} {clist(ops, lambda o: c_op(u, o))} {obs}"


# ------------------------------------------------------------------ generation
def op_instances(u, n, keys, pays, typed):
    """every operation instance over a state of n items (used for the exhaustive scope)"""
    items = [(k, p) for k in keys for p in pays]
    bad = [(keys[0], 9)] + ([(9, pays[0])] if u in ("tuple", "intkey") else []) if typed else []
    idx = list(range(-n - 1, n + 2))
    ops = []
    ops += [("GetIdx", i) for i in idx] + [("DelIdx", i) for i in idx]
    ops += [("Pop", i) for i in idx] + [("Pop", None)]
    ops += [("SetIdx", i, x) for i in idx for x in items + bad]
    ops += [("Insert", i, x) for i in idx for x in items + bad]
    ops += [("Append", x) for x in items + bad]
    ops += [("InsertBadPos", x, j) for x in items + bad for j in (0, 1)]
    for x in items:
        ops += [("Remove", x), ("ContainsItem", x), ("Index", x), ("Count", x)]
    kk = [(k, pays[0]) for k in keys] if u != "self" else items
    for k in kk:
        ops += [("Get", k), ("ContainsKey", k), ("IndexForKey", k)]
        if u != "intkey":
            ops += [("GetKey", k), ("DelKey", k)] + [("SetKey", k, x) for x in items + bad[:1]]
    pairs = [[a, b] for a in items for b in items]
    ops += [("Extend", xs) for xs in [[]] + [[x] for x in items] + pairs[:: max(1, len(pairs) // 8)]]
    ops += [("IAdd", [items[0], items[-1]]), ("IAdd", [items[-1]] + bad[:1]), ("ExtendSelf",)]
    for kind in ("kl", "tuple", "gen"):
        ops += [("Extend", [items[-1]] + bad[:1], kind), ("Extend", [items[0], items[-1]], kind),
                ("IAdd", bad[:1] + [items[0]], kind), ("IAdd", [items[-1]], kind)]
    ops += [("Add", [items[0]]), ("Add", [items[-1], items[-2]]), ("RAdd", [items[-1]]), ("Add", bad[:1] or [items[1]])]
    # empty operands: the result is still a new container; in-place forms keep the receiver
    ops += [("Add", []), ("RAdd", []), ("IAdd", []), ("IAdd", [], "tuple"), ("Extend", [], "kl")]
    ops += [("Reverse",), ("Clear",), ("Iter",), ("Reversed",), ("Len",), ("Keys",), ("Items",),
            ("SetSlice",), ("DelSlice",)]
    ops += [("GetSlice", a, b, s) for a in (None, -1, 1) for b in (None, -1, 2) for s in (1, -1, 2, 0)]
    ops += [("EqList", [])] + [("EqList", [items[0], items[-1]])]
    return ops


def states(keys, pays, maxlen):
    out = [[]]
    for n in range(1, maxlen + 1):
        for ks in itertools.permutations(keys, n):
            for ps in itertools.product(pays, repeat=n):
                out.append(list(zip(ks, ps)))
    return out


def random_case(rng, u, typed, maxops):
    keys, pays = list(range(5)), [0, 1, 2]
    n0 = rng.choice([0, 1, 2, 3, 4, 5])
    ks = rng.sample(keys, n0)
    init = [(k, rng.choice(pays)) for k in ks]
    ops, n = [], n0
    for _ in range(rng.randint(1, maxops)):
        pool = op_instances(u, min(n, 6), rng.sample(keys, 3), rng.sample(pays, 2), typed)
        if rng.random() < 0.6:      # the kind of operation first, then one of its instances
            name = rng.choice(sorted({o[0] for o in pool}))
            pool = [o for o in pool if o[0] == name]
        ops.append(rng.choice(pool))
        n = min(6, n + 1)
    return init, ops


def generate(rng, tier):
    cases = []
    quick = tier == "quick"
    # exhaustive small scope: every state of <= 2 (quick) / 3 (thorough) items over
    # 3 keys x 2 payloads, every operation instance, depth 1
    for u in UNIVERSES:
        for typed in (False, True):
            keys, pays = [0, 1, 2], [0, 1]
            for init in states(keys, pays, 2 if quick else 3):
                insts = op_instances(u, len(init), keys, pays, typed)
                if quick:
                    insts = insts[rng.randrange(4)::4]
                for op in insts:
                    cases.append((u, typed, init, [op], "exh1"))
    # depth 2 over a smaller universe
    for u in UNIVERSES:
        typed = u in ("self", "spec")
        keys, pays = [0, 1], [0, 1]
        for init in states(keys, pays, 2):
            insts = op_instances(u, len(init), keys, pays, typed)
            pairs = [(a, b) for a in insts for b in insts]
            step = 97 if quick else 7
            for a, b in pairs[rng.randrange(step)::step]:
                cases.append((u, typed, init, [a, b], "exh2"))
    # stale-view patterns: an access by key, a mutation, another access by key / full read
    # (a lazily built or incrementally maintained view that one mutation forgets to refresh)
    READ = ("IndexForKey", "GetKey", "Get", "ContainsKey", "SetKey", "DelKey", "Keys", "Items", "GetIdx", "Index")
    MUT = ("Reverse", "SetIdx", "DelIdx", "Insert", "Append", "Pop", "Remove", "Extend", "IAdd", "Clear",
           "SetKey", "DelKey", "ExtendSelf")
    n_tri = 1500 if quick else 20000
    for i in range(n_tri):
        u = UNIVERSES[i % 4]
        typed = (i // 4) % 2 == 1
        keys, pays = [0, 1, 2], [0, 1]
        init = rng.choice(states(keys, pays, 3)[4:] or states(keys, pays, 3))
        insts = op_instances(u, len(init), keys, pays, typed)
        by = {}
        for o in insts:
            by.setdefault(o[0], []).append(o)
        pick = lambda names: rng.choice(by[rng.choice([n for n in names if n in by])])
        cases.append((u, typed, init, [pick(READ), pick(MUT), pick(READ), ("Items",)], "stale"))
    # random longer sequences
    n_rand = 600 if quick else 12000
    for i in range(n_rand):
        u = UNIVERSES[i % 4]
        typed = (i // 4) % 2 == 1
        init, ops = random_case(rng, u, typed, 8 if quick else 16)
        cases.append((u, typed, init, ops, "rand"))
    return cases


# ------------------------------------------------------------------ check
def evaluate(cases, tag="c"):
    """run implementation and Coq on cases; return list of (index, code) failures"""
    impls = {}
    by_u = {"self": [], "fst": []}
    for i, (u, typed, init, ops, _) in enumerate(cases):
        impl = impls.setdefault((u, typed), Impl(u, typed))
        try:
            seen = impl.run(init, ops)
        except BaseException as e:
            if isinstance(e, (KeyboardInterrupt, SystemExit)):
                raise
            seen = [([-98], [], [])]  # construction of the initial container failed
        by_u["self" if u == "self" else "fst"].append((i, c_case(u, typed, init, ops, seen), seen))
    bad, logs = [], []
    for g, fn, ty in (("self", "check_self", "@case item"), ("fst", "check_fst", "@case Z")):
        if not by_u[g]:
            continue
        b, lg = coq_eval("C13", PRELUDE, fn, [t for _, t, _ in by_u[g]], tag=f"{tag}{g}", case_type=ty)
        bad += [(by_u[g][j][0], code, by_u[g][j][2]) for j, code in b]
        logs += lg
    return bad, logs


def shrink(case, code):
    u, typed, init, ops, kind = case
    cur = (u, typed, list(init), list(ops), kind)
    for _ in range(12):
        cands = []
        for j in range(len(cur[3])):
            cands.append((u, typed, cur[2], cur[3][:j] + cur[3][j + 1:], kind))
        for j in range(len(cur[2])):
            cands.append((u, typed, cur[2][:j] + cur[2][j + 1:], cur[3], kind))
        cands = [c for c in cands if c[3]]
        if not cands:
            break
        bad, _ = evaluate(cands, tag="s")
        hit = [i for i, c, _ in bad if c == code]
        if not hit:
            break
        cur = cands[min(hit)]
    return cur


def describe(case, code, seen):
    u, typed, init, ops, kind = case
    return {"universe": u, "typed": typed, "init": init, "ops": ops, "observed": seen, "code": code,
            "meaning": {1: "model and implementation differ; the plain-list specification still accepts the run",
                        2: "the implementation's run is not a run of the plain-list specification",
                        3: "initial container not constructible"}.get(code, "?"),
            "replay": "bin/check C13 --replay <this file>"}


def main(tier, replay=None):
    chk = Check("C13", tier)
    if replay:
        import json
        r = json.load(open(replay))
        case = (r["universe"], r["typed"], [tuple(x) for x in r["init"]], [fix_op(o) for o in r["ops"]], "replay")
        bad, logs = evaluate([case], tag="r")
        print("replay:", "still failing code=%s" % bad[0][1] if bad else "passes now", logs)
        print("observed now:", Impl(case[0], case[1]).run(case[2], case[3]))
        return 1 if bad else 0
    chk.proofs(extra_targets=["Corr/KLCorr.vo"])
    cases = generate(chk.rng, tier)
    bad, logs = evaluate(cases)
    hist = {}
    for c in cases:
        for o in c[3]:
            hist[o[0]] = hist.get(o[0], 0) + 1
    errs = {}
    distinct = set()
    for c in cases:
        distinct.add(repr(c[:4]))
    reported = set()
    for i, code, seen in sorted(bad, key=lambda b: (-b[1], len(cases[b[0]][3])))[:40]:
        small = shrink(cases[i], code)
        sig = (small[0], small[1], small[3][-1][0], code)
        if sig in reported:
            continue
        reported.add(sig)
        seen2 = Impl(small[0], small[1]).run(small[2], small[3])
        what = (f"KeyedList {'violates the plain-list specification' if code == 2 else 'differs from the model'}: "
                f"universe={small[0]} typed={small[1]} init={small[2]} ops={small[3]}")
        chk.violation(what, describe(small, code, seen2), sig={"op": small[3][-1][0]}, no_input=(code != 2))
    for lg in logs:
        chk.violation("correspondence evaluation failed: " + lg[-500:], {"kind": "coq-eval", "log": lg}, no_input=True)
    kinds = {}
    for c in cases:
        kinds[c[4]] = kinds.get(c[4], 0) + 1
    extra = {
        "correspondence": {"cases": len(cases), "operations": sum(len(c[3]) for c in cases),
                           "disagreements": len(bad), "by_generator": kinds, "op_histogram": hist,
                           "universes": UNIVERSES, "typed_and_untyped": True},
        "evaluations": len(cases), "distinct_nontrivial": len(distinct),
        "rule": "cases = (universe, typed, initial items, operation list); exhaustive depth-1 over all states of <=2/3 items x every operation instance (quick: every 4th), sampled depth-2, random sequences of <=8/16 operations; distinct = distinct (universe, typed, init, ops); every case has >=1 operation",
        "samples": [dict(universe=c[0], typed=c[1], init=c[2], ops=c[3]) for c in (cases[0], cases[len(cases) // 2], cases[-1])],
        "exhaustive": False,
    }
    return chk.finish(
        trusted_base=["Coq 8.16.1 kernel and vm_compute", "no axioms (Print Assumptions: closed under the global context)",
                      "hand-written model coq/KL/Model.v tied to /repo by this run's correspondence",
                      "harness/c13.py encoders; Python list/dict semantics in coq/Base/PyList.v"],
        assumptions=["items are compared by value; key functions are total on items",
                     "l[i] with an int argument is list indexing (by-key interface for int keys is get/keys/items/index_for_key)",
                     "keys()/items() are compared as sets"],
        extra=extra)


def fix_op(o):
    """JSON turns tuples into lists; restore (k, p) tuples and item lists."""
    def fx(y):
        if isinstance(y, list) and len(y) == 2 and all(isinstance(z, int) for z in y):
            return tuple(y)
        if isinstance(y, (list, tuple)):
            return [fx(z) for z in y] if not (len(y) == 2 and all(isinstance(z, int) for z in y)) else tuple(y)
        return y
    name = o[0]
    args = []
    for y in o[1:]:
        if name in ("Extend", "IAdd", "Add", "RAdd", "EqList") and not isinstance(y, str):
            args.append([tuple(z) for z in y])
        else:
            args.append(fx(y))
    return tuple([name] + args)
