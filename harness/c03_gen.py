"""Generators aimed at C03: ill-typed values at every position of every route.
Builds on inst_gen (class grammar, history builder) and adds what it lacks:
preparers / item preparers / default factories that produce ill-typed values,
dict-to-spec casting with ill-typed nested attributes, ill-typed dict keys."""
import inst_check
import inst_gen as ig
from inst_gen import NONE, S, V


def gen_table(rng, flavour=None, evil=0.0):
    table = ig.gen_table(rng, flavour)
    k1, k2, k3 = table
    by = {a["aid"]: a for a in k2["attrs"]}
    if rng.random() < evil:      # preparer returning a non-int for the int attribute
        by[1]["prepare"] = rng.choice([("const", S(7)), ("newlist", [V(1)]), ("const", NONE)])
    if rng.random() < evil:      # item preparer returning a non-int element
        by[50]["prepare_item"] = rng.choice([("const", S(7)), ("const", NONE), ("newlist", [V(1)])])
    if rng.random() < evil:      # default factories producing ill-typed collections
        by[50]["default"], by[50]["factory"] = None, ("list", [V(1), S(7)])
    if rng.random() < evil:
        by[51]["default"], by[51]["factory"] = None, rng.choice([("dict", [(V(1), V(1))]), ("dict", [(S(7), S(8))])])
    if rng.random() < evil:
        by[52]["default"], by[52]["factory"] = None, ("set", [S(7)])
    # class-level defaults / overriding class attributes that do not conform: the
    # constructor refuses them; `del` / reset_ / invalidation must refuse them too
    if rng.random() < evil:
        by[1]["default"] = rng.choice([S(7), NONE])
    if rng.random() < evil:
        by[3]["default"] = S(7)
    if rng.random() < evil:
        k1["attrs"][1]["default"] = S(7)
    if rng.random() < evil:
        for a in k3["attrs"]:
            if a["aid"] == 1:
                a["override"] = S(7)
    if rng.random() < 0.5:       # Union and Optional[spec] positions (not in the shared grammar)
        k2["attrs"].append({"aid": 6, "ty": ("union", ig.INT, ig.STR), "default": rng.choice([None, V(1), S(7)]),
                            "decl": rng.choice(["plain", "Attr"])})
        k2["attrs"].append({"aid": 8, "ty": ("opt", ("spec", 1)), "default": rng.choice([None, NONE])})
        k3["attrs"][-1:-1] = [{"aid": 6, "inherited": True}, {"aid": 8, "inherited": True}]
    if rng.random() < evil / 2:  # preparer on the leaf class
        k1["attrs"][1]["prepare"] = ("const", S(7))
    return table


class Hist(ig.Hist):
    def value_for(self, a, bad=False):
        t = a["ty"]
        if t == ("union", ig.INT, ig.STR):
            if bad:
                return self.rng.choice([NONE, self.alloc(("list", [V(1)])), ("atom", 0)])
            return self.rng.choice([V(2), S(8), ("bool", True)])
        if t == ("opt", ("spec", 1)):
            if not bad and self.rng.random() < 0.3:
                return NONE
            return self.k1_value(bad)
        if bad and t[0] in ("list", "dict", "set") and self.rng.random() < 0.3:
            # a FALSY value of the wrong kind: empty container of another kind, 0, ''
            # ({} for a List/Set attribute and '' are left out: dict-to-keyword casting of
            # {} onto typing.List raises in the library but not in the model, and the
            # model does not iterate strings)
            other = {"list": [("set", [])], "dict": [("list", []), ("set", [])], "set": [("list", [])]}[t[0]]
            r = self.rng.random()
            if r < 0.7:
                return self.alloc(self.rng.choice(other))
            return self.rng.choice([V(0), ("bool", False)])
        return super().value_for(a, bad)

    def k1_dict(self, bad):
        rng = self.rng
        kv = [(S(1), V(rng.choice([0, 1])) if not bad else rng.choice([S(7), NONE]))]
        if self.keyed or rng.random() < 0.5:
            kv.append((S(2), S(rng.choice([7, 8])) if not (bad and rng.random() < 0.4) else V(3)))
        if bad and rng.random() < 0.3:
            kv.append((S(3), S(7)))
        return self.alloc(("dict", kv))

    def k1_value(self, bad=False):
        if bad and self.rng.random() < 0.5:
            return self.k1_dict(True)       # dict-to-spec casting with ill-typed nested values
        return super().k1_value(bad)

    def list_k1(self, bad=False):
        if bad and self.rng.random() < 0.5:
            xs = [self.new_k1() for _ in range(self.rng.choice([0, 1]))] + [self.k1_dict(True)]
            return self.alloc(("list", xs))
        return super().list_k1(bad)

    def dict_k1(self, bad=False):
        if bad and self.rng.random() < 0.5:
            r = self.rng.random()
            if r < 0.5:
                kv = [(S(7), self.k1_dict(True))]
            else:
                kv = [(V(1), self.new_k1())]          # ill-typed key, well-typed value
            return self.alloc(("dict", kv))
        return super().dict_k1(bad)

    def dict_str_int(self, bad=False):
        if bad and self.rng.random() < 0.5:
            return self.alloc(("dict", [(S(7), V(1)), (self.rng.choice([V(2), NONE, ("bool", True)]), V(1))]))
        return super().dict_str_int(bad)


def gen_history(rng, table, nd, n_ops, bad_rate=0.4, inplace_rate=0.4, fail_rate=0.0, weights=None):
    h = Hist(rng, table, nd)
    w = weights or {"construct": 2, "setattr": 3, "delattr": 1, "scalar": 5, "item": 6, "top": 3, "deepcopy": 1}
    kinds = [k for k, n in w.items() for _ in range(n)]
    h.construct(rng.choice([2, 2, 3, 1]), bad_rate / 3)
    for _ in range(n_ops):
        insts = h.roots_of(lambda k: k[0] == "inst")
        k = rng.choice(kinds)
        if k == "construct" or not insts:
            h.construct(rng.choice([1, 2, 2, 3]), bad_rate)
            continue
        x = rng.choice(insts[-4:])
        cid = h.kinds[x][1]
        if k == "setattr":
            a = rng.choice(h.attrs_of(cid))
            h.add(("setattr", x, a["aid"], h.value_for(a, bad=rng.random() < bad_rate)), ("none",))
        elif k == "delattr":
            a = rng.choice(h.attrs_of(cid))
            h.add(("delattr", x, a["aid"]), ("none",))
        elif k == "scalar":
            h.scalar_helper(x, cid, bad_rate, inplace_rate, fail_rate)
        elif k == "item" and cid != 1:
            h.item_helper(x, cid, bad_rate, inplace_rate, fail_rate)
        elif k == "top":
            h.top_helper(x, cid, bad_rate, inplace_rate, fail_rate)
        elif k == "deepcopy":
            h.add(("deepcopy", x), ("inst", cid))
    return h.ops


# Values that are EQUAL to a conforming element but do not conform themselves:
# Python floats 1.0 / 2.0 (1 == 1.0).  The instance model has no floats; they are
# passed as opaque immutable atoms (VAtom 4 / VAtom 5: conform to Any only) and are
# used solely as NEW elements, where the library type-checks before it compares.
import inst_common as _ic
if len(_ic.ATOMS) == 4:
    _ic.ATOMS.extend([1.0, 2.0])
FLT = {1: ("atom", 4), 2: ("atom", 5)}


def gen_equal_ill_typed(rng, n_ops):
    from inst_common import resolve_table
    table = ig.gen_table(rng, None)
    table[1]["frozen"] = table[2]["frozen"] = False
    _, heap0 = resolve_table(table)
    h = Hist(rng, table, len(heap0))
    members = rng.choice([[1, 2], [1], [2, 3, 1]])
    st = h.alloc(("set", [V(m) for m in members]))
    x = h.add(("construct", 2, None, [(52, st)] + ([(1, V(1))] if rng.random() < 0.5 else [])), ("inst", 2))
    for _ in range(max(1, n_ops // 2)):
        m = rng.choice([1, 2])
        hh = {"inplace": rng.random() < 0.5, "if_": True}
        kind = rng.choice(["update_item", "with_item", "transform_item", "with"])
        if kind == "update_item":
            hh["pos"] = [V(m), FLT[m]]
        elif kind == "with_item":
            hh["pos"] = [FLT[m]]
        elif kind == "transform_item":
            hh["pos"] = [V(m)]
            hh["fn"] = ("const", FLT[m])
        else:
            hh["pos"] = [h.alloc(("set", [FLT[m]] + ([V(3)] if rng.random() < 0.5 else [])))]
            h.add(("helper", x, ("with", 52), hh), ("inst", 2))
            continue
        h.add(("helper", x, (kind, 52), hh), ("inst", 2))
    return {"table": table, "ops": h.ops, "nd": len(heap0)}


def gen_case(rng, n_ops=6, **kw):
    from inst_common import resolve_table
    if kw.pop("equal_ill_typed", False):
        return gen_equal_ill_typed(rng, n_ops)
    evil = kw.pop("evil", None)
    if evil is None:
        return ig.gen_case(rng, n_ops, **kw)
    table = gen_table(rng, kw.pop("flavour", None), evil)
    _, heap0 = resolve_table(table)
    ops = gen_history(rng, table, len(heap0), n_ops, **kw)
    return {"table": table, "ops": ops, "nd": len(heap0)}


GENS = [
    # the shared generator, wrong values on every route it knows
    (3, dict(bad_rate=0.3, inplace_rate=0.4, fail_rate=0.05)),
    # aimed histories: callbacks / factories returning ill-typed values, casting, keys
    (4, dict(evil=0.12, bad_rate=0.3, inplace_rate=0.4, fail_rate=0.0)),
    (2, dict(evil=0.08, bad_rate=0.4, inplace_rate=0.8, fail_rate=0.0,
             weights={"construct": 1, "setattr": 2, "item": 8, "scalar": 3, "top": 2})),
    (2, dict(evil=0.1, bad_rate=0.35, inplace_rate=0.0, fail_rate=0.1, n_ops=8)),
    (1, dict(evil=0.1, bad_rate=0.3, inplace_rate=0.4, fail_rate=0.0, flavour="frozen")),
    (1, dict(evil=0.5, bad_rate=0.45, inplace_rate=0.4, fail_rate=0.0)),
    # elements equal to a member but of another type (1.0 for Set[int] holding 1)
    (1, dict(equal_ill_typed=True)),
]


class _Gen:
    """stands in for inst_gen inside inst_check.run (same gen_case interface)"""
    gen_case = staticmethod(gen_case)


def signature(case, mask):
    sig = inst_check.signature(case, mask)
    op = case["ops"][-1][0]
    if op[0] == "helper":
        sig["attr"] = op[2][1]
    return sig


def route_histogram(chk, cases, bad, extra):
    """what was aimed where: ill-typed positions per route, error kinds seen"""
    import inst_common as ic
    errs, routes = {}, {}
    sample = cases[:: max(1, len(cases) // 150)]
    for c in sample:
        r, _ = ic.run_case(c)
        if r is None:
            continue
        for (op, _), o in zip(c["ops"], r[1]):
            k = op[0] if op[0] != "helper" else "helper:" + op[2][0]
            routes.setdefault(k, {"ok": 0, "raised": 0})["ok" if o[0] == [0] else "raised"] += 1
            errs[str(o[0][0])] = errs.get(str(o[0][0]), 0) + 1
    evil = sum(1 for c in cases if any(a.get("prepare") in (("const", S(7)), ("newlist", [V(1)]), ("const", NONE))
                                       or (a.get("factory") or ("",))[0] in ("list", "dict", "set") and a.get("factory")[1]
                                       and a["aid"] in (50, 51, 52) and a.get("default") is None
                                       for cl in c["table"] for a in cl["attrs"] if not a.get("inherited")))
    extra["correspondence"]["outcomes_by_route_sampled"] = routes
    extra["correspondence"]["outcome_code_histogram_sampled"] = errs
    extra["correspondence"]["tables_with_ill_typed_callbacks_or_factories"] = evil
    import c03_probe
    c03_probe.run(chk, extra)
    c03_probe.run_bounded_probe(chk, extra)
    import c03_keyed_probe
    c03_keyed_probe.run(chk, extra)
    import c03_itemprep_probe
    c03_itemprep_probe.run(chk, extra)


def run(tier, assumptions):
    saved = inst_check.ig
    inst_check.ig = _Gen
    try:
        return inst_check.run("C03", tier, 8, GENS, 1800, 14000, assumptions, sig_fn=signature,
                              post=route_histogram)
    finally:
        inst_check.ig = saved


def load_replay(path):
    """replay files store tuples as JSON lists: turn every list below the case's
    top-level containers back into a tuple (types, values, operations)"""
    import json
    r = json.load(open(path))

    def tup(x):
        if isinstance(x, list):
            return tuple(tup(y) for y in x)
        if isinstance(x, dict):
            return {k: tup(v) for k, v in x.items()}
        return x
    table = []
    for c in r["table"]:
        c = {k: (tup(v) if k != "attrs" else [{ak: tup(av) for ak, av in a.items()} for a in v]) for k, v in c.items()}
        for a in c["attrs"]:
            if "inv_by" in a:
                a["inv_by"] = list(a["inv_by"])
        table.append(c)
    ops = []
    for op, fa in r["ops"]:
        op = list(op)
        if op[0] == "helper":
            h = {k: tup(v) for k, v in op[3].items()}
            for k in ("pos", "kw", "kwfn"):
                if h.get(k) is not None:
                    h[k] = list(h[k])
            op = ("helper", op[1], tup(op[2]), h)
        elif op[0] == "construct":
            op = ("construct", op[1], tup(op[2]), [tup(p) for p in op[3]])
        else:
            op = tup(op)
        ops.append((op, fa))
    return {"table": table, "ops": ops, "nd": r["nd"]}


def replay(path):
    import json
    import inst_common as ic
    raw = json.load(open(path))
    if raw.get("kind") == "probe":
        import c03_probe
        return c03_probe.replay(raw["scenario"])
    if raw.get("kind") == "probe-keyed":
        import c03_keyed_probe
        return c03_keyed_probe.replay(raw["scenario"])
    if raw.get("kind") == "probe-itemprep":
        import c03_itemprep_probe
        return c03_itemprep_probe.replay(raw["scenario"])
    if raw.get("kind") == "probe-bounded":
        import c03_probe
        return c03_probe.replay_bounded(raw["scenario"])
    case = load_replay(path)
    bad, logs = ic.evaluate("C03", [case], tag="r")
    failing = bool(bad and bad[0][1] & (8 | 1))
    print("replay:", ("still failing, mask=%d" % bad[0][1]) if failing else "passes now", logs[:1])
    r, err = ic.run_case(case)
    if r:
        for (op, fa), o in zip(case["ops"], r[1]):
            print("  ", op, fa, "->", o[0])
    return 1 if failing or logs else 0
