"""C04 / C01 — implementation-level exploration over a zoo of spec classes whose attribute and
ELEMENT types are `validated(...)` / `bounded(...)` types (spec_classes.types.validated): the
type check of such a type calls a user callback (the validator), so every `check_type` in an
operation is a point at which user code can raise or change its verdict.  The instance model
(coq/Inst/Model.v) has no validated types; this is a probe of the implementation whose oracle
is the property statement itself.

Every case is a JSON-able description (class, initial keywords, operation, arguments, keywords,
fault) that `run_case` re-executes from scratch, so a reported case is a concrete replay
(`bin/check C04 --replay <file>`).

For every base case (no fault) the number N of validator invocations made by the operation is
measured; the case is then re-run with the validator raising at its 1st, 2nd, ... min(N, LIMIT)th
invocation, and with the validator no longer accepting one of the values the receiver stores
(a "stale" element: the verdict depends on outside state).

mode "C04": an operation that raises leaves receiver, arguments and keyword values exactly as
            they were (identity and content of everything reachable).
mode "C01": a helper call without _inplace=True leaves them as they were whether it returns or
            raises, and does not return the receiver.
"""
import json

from wide_explore import calls_for, snapshot

STATE = {"calls": 0, "fail_at": None}
INTS = set(range(0, 8))
STRS = {"a", "b", "c", "d"}
ALLOWED = {"int": set(INTS), "str": set(STRS)}
_ZOO = None


class ValidatorBoom(RuntimeError):
    pass


def _tick():
    STATE["calls"] += 1
    if STATE["fail_at"] is not None and STATE["calls"] == STATE["fail_at"]:
        raise ValidatorBoom(f"validator raises at its invocation {STATE['fail_at']}")


def v_small(value):
    _tick()
    return isinstance(value, int) and not isinstance(value, bool) and value in ALLOWED["int"]


def v_word(value):
    _tick()
    return isinstance(value, str) and value in ALLOWED["str"]


def zoo():
    """classes by name, and per class the domain of every attribute"""
    global _ZOO
    if _ZOO is not None:
        return _ZOO
    from typing import Dict, List, Optional, Set, Union

    from spec_classes import Attr, spec_class
    from spec_classes.types import KeyedList, KeyedSet, bounded, validated

    Small = validated(v_small, "small")
    Word = validated(v_word, "word")
    Digit = bounded(int, ge=0, le=9)
    Frac = bounded(float, ge=0.0, lt=1.0)

    @spec_class
    class VScal:
        s: Small = 1
        w: Word = "a"
        d: Digit = 0
        fr: Frac = 0.5
        os: Optional[Small] = None
        us: Union[Small, Word] = 2
        n: int = 0

    class VScalSub(VScal):            # plain subclass re-defaulting validated attributes
        s = 3
        w = "b"

    @spec_class
    class VColl:
        label: str = "box"
        zs: List[Small] = []
        ws: List[Word] = []
        ds: List[Digit] = []
        dz: Dict[str, Small] = {}
        kz: Dict[Word, int] = {}
        sz: Set[Small] = set()
        sw: Set[Word] = set()
        oz: Optional[List[Small]] = None

    @spec_class
    class VPrep:                      # (item) preparers in front of validated types
        s: Small = 1
        zs: List[Small] = []
        dz: Dict[str, Small] = {}
        sz: Set[Small] = set()

        def _prepare_s(self, s):
            return s + 1 if isinstance(s, int) and not isinstance(s, bool) and s < 7 else s

        def _prepare_z(self, z):
            return z + 1 if isinstance(z, int) and not isinstance(z, bool) and z < 7 else z

        def _prepare_dz_item(self, z):
            return z + 1 if isinstance(z, int) and not isinstance(z, bool) and z < 7 else z

        def _prepare_sz_item(self, z):
            return z + 1 if isinstance(z, int) and not isinstance(z, bool) and z < 7 else z

    @spec_class(key="k")
    class VItem:
        k: Word
        v: Small = 1
        zs: List[Small] = []

    @spec_class
    class VNest:
        inner: VScal
        box: VColl
        scals: List[VScal] = []
        items: List[VItem] = []
        entries: Dict[str, VScal] = {}
        boxes: List[VColl] = []
        keyed: KeyedList[VItem, str] = Attr(default_factory=KeyedList)
        marks: KeyedSet[VItem, str] = Attr(default_factory=KeyedSet)

    scal = {"s": "small", "w": "word", "d": "digit", "fr": "frac", "os": "optsmall", "us": "union", "n": "int"}
    coll = {"label": "str", "zs": ("list", "small"), "ws": ("list", "word"), "ds": ("list", "digit"),
            "dz": ("dict", "str", "small"), "kz": ("dict", "word", "int"), "sz": ("set", "small"),
            "sw": ("set", "word"), "oz": ("list", "small")}
    prep = {"s": "small", "zs": ("list", "small"), "dz": ("dict", "str", "small"), "sz": ("set", "small")}
    item = {"k": "word", "v": "small", "zs": ("list", "small")}
    nest = {"inner": ("spec", "VScal"), "box": ("spec", "VColl"), "scals": ("list", ("spec", "VScal")),
            "items": ("list", ("spec", "VItem")), "entries": ("dict", "str", ("spec", "VScal")),
            "boxes": ("list", ("spec", "VColl")), "keyed": ("list", ("spec", "VItem")),
            "marks": ("set", ("spec", "VItem"))}
    _ZOO = ({"VScal": VScal, "VScalSub": VScalSub, "VColl": VColl, "VPrep": VPrep, "VItem": VItem, "VNest": VNest},
            {"VScal": scal, "VScalSub": scal, "VColl": coll, "VPrep": prep, "VItem": item, "VNest": nest})
    return _ZOO


# ---------------------------------------------------------------------------------------------
# JSON-able value descriptions

FNS = {
    "ident": lambda v: v,
    "inc": lambda v: (v + 1 if isinstance(v, (int, float)) and not isinstance(v, bool) else
                      v + "a" if isinstance(v, str) else v),
    "to_bad": lambda v: "zz" if isinstance(v, str) else 99,
    "to_zero": lambda v: "a" if isinstance(v, str) else 0,
    "boom": lambda v: 1 // 0,
    "to_none": lambda v: None,
    "append_bad": lambda v: (v + [99] if isinstance(v, list) else v),
    "drop_first": lambda v: (v[1:] if isinstance(v, list) else v),
}


def decode(d):
    classes, _ = zoo()
    if isinstance(d, list):
        return [decode(x) for x in d]
    if isinstance(d, dict):
        if "$fn" in d:
            return FNS[d["$fn"]]
        if "$set" in d:
            return {decode(x) for x in d["$set"]}
        if "$obj" in d:
            return classes[d["$obj"]](**{k: decode(v) for k, v in d.get("kw", {}).items()})
        if "$keyedlist" in d:
            from spec_classes.types import KeyedList
            return KeyedList[classes["VItem"], str]([decode(x) for x in d["$keyedlist"]])
        if "$dict" in d:
            return {decode(k): decode(v) for k, v in d["$dict"]}
        return {k: decode(v) for k, v in d.items()}
    return d


class Gen:
    def __init__(self, rng):
        self.rng = rng

    GOOD = {"small": [0, 1, 2, 3, 4, 5, 6, 7], "word": ["a", "b", "c", "d"], "digit": [0, 1, 5, 9],
            "frac": [0.0, 0.25, 0.75], "optsmall": [None, 1, 2, 7], "union": [1, 5, "a", "c"],
            "int": [0, 3, 12, -4], "str": ["lbl", "a", ""]}
    BAD = {"small": [9, 99, -1], "word": ["zz", "", "e"], "digit": [10, -1], "frac": [1.0, -0.5, 2.5],
           "optsmall": [9, -1], "union": [9, "zz"], "int": ["a", 1.5], "str": [3, None]}
    ILL = ["a", 1.5, None, [1], True, 3, {"$set": [1]}, {"x": 1}]

    def scalar(self, dom, ok=None):
        r = self.rng
        ok = r.random() < 0.75 if ok is None else ok
        if ok:
            return r.choice(self.GOOD[dom])
        return r.choice(self.BAD[dom]) if r.random() < 0.7 else r.choice(self.ILL)

    def obj(self, cname, ok=True, small=False):
        """description of an instance; `ok`: every keyword acceptable"""
        r = self.rng
        _, doms = zoo()
        kw = {}
        names = list(doms[cname])
        if cname == "VItem":
            kw["k"] = r.choice(self.GOOD["word"])
            names.remove("k")
        if cname == "VNest":
            kw["inner"] = self.obj("VScal")
            kw["box"] = self.obj("VColl", small=True)
            names.remove("inner")
            names.remove("box")
        for nm in names:
            if r.random() < (0.35 if small else 0.7):
                kw[nm] = self.value(doms[cname][nm], ok=True, unique_keys=nm in ("keyed", "marks"))
        if not ok and names:
            nm = r.choice(names)
            kw[nm] = self.value(doms[cname][nm], ok=False)
        return {"$obj": cname, "kw": kw}

    def elem(self, edom, ok=None):
        if isinstance(edom, tuple):          # ("spec", cls)
            return self.obj(edom[1], ok=True, small=True)
        return self.scalar(edom, ok)

    def value(self, dom, ok=None, unique_keys=False):
        """a value for an attribute of domain `dom`"""
        r = self.rng
        ok = r.random() < 0.7 if ok is None else ok
        if isinstance(dom, str):
            return self.scalar(dom, ok)
        if dom[0] == "spec":
            return self.obj(dom[1], ok=True, small=True) if ok else r.choice(self.ILL)
        if not ok and r.random() < 0.25:
            return r.choice([3, "a", None, 1.5])
        n = r.choice([0, 1, 2, 3, 3, 4])
        badpos = r.randrange(n) if (not ok and n) else None
        if dom[0] in ("list", "set"):
            xs = [self.elem(dom[1], ok=(i != badpos)) for i in range(n)]
            if unique_keys or dom[0] == "set":
                seen, ys = set(), []
                for x in xs:
                    k = json.dumps(x["kw"]["k"] if isinstance(x, dict) and "$obj" in x and "k" in x["kw"] else x,
                                   sort_keys=True, default=str)
                    if k not in seen:
                        seen.add(k)
                        ys.append(x)
                xs = ys
            if dom[0] == "set":
                xs = [x for x in xs if not isinstance(x, (list, dict))]
                return {"$set": xs}
            return xs
        if dom[0] == "dict":
            keys = r.sample(["a", "b", "c", "d"], min(n, 4))
            if not ok and keys and dom[1] != "str" and r.random() < 0.5:
                keys[r.randrange(len(keys))] = r.choice(["zz", 3])
                badpos = None
            return {"$dict": [[k, self.elem(dom[2], ok=(i != badpos))] for i, k in enumerate(keys)]}
        raise AssertionError(dom)

    def fn(self):
        return {"$fn": self.rng.choice(["ident", "inc", "inc", "to_bad", "to_zero", "boom", "to_none"])}

    # -- operations ---------------------------------------------------------------------------
    def target(self, held, dom):
        """an existing or absent element / index / key of the held collection"""
        r = self.rng
        kw = {}
        if dom[0] == "dict":
            keys = list(held) if isinstance(held, dict) else []
            return (r.choice(keys) if keys and r.random() < 0.8 else r.choice(["q", "a", 3])), kw
        elems = list(held) if isinstance(held, (list, set)) or hasattr(held, "_list") else []
        if dom[0] == "list" and r.random() < 0.45:
            kw["_by_index"] = True
            return (r.randrange(len(elems)) if elems and r.random() < 0.8 else r.choice([7, 7, -9, -9, "x"])), kw
        if elems and r.random() < 0.8:
            e = r.choice(elems)
            if hasattr(e, "__spec_class__"):
                return (getattr(e, "k", None) if hasattr(e, "k") else {"$held": elems.index(e)}), kw
            return e, kw
        return self.elem(dom[1], ok=r.random() < 0.6) if not isinstance(dom[1], tuple) else r.choice(["q", 5]), kw

    def nested_kw(self, cname, fns=False, n=None):
        r = self.rng
        _, doms = zoo()
        names = list(doms[cname])
        out = {}
        for nm in r.sample(names, min(len(names), n or r.choice([1, 1, 2, 3]))):
            out[nm] = self.fn() if fns else self.value(doms[cname][nm])
        return out

    def operation(self, cname, obj, mode):
        r = self.rng
        _, doms = zoo()
        dom = doms[cname]
        md = type(obj).__spec_class__
        item_of = {sp.item_name: a for a, sp in md.attrs.items() if getattr(sp, "is_collection", False)}
        kind = r.random()
        if mode == "C04" and kind < 0.10:
            a = r.choice(list(dom))
            return {"kind": "setattr", "name": a, "args": [self.value(dom[a])], "kw": {}}
        if mode == "C04" and kind < 0.14:
            return {"kind": "delattr", "name": r.choice(list(dom)), "args": [], "kw": {}}
        if mode == "C04" and kind < 0.20:
            return {"kind": "construct", "name": cname, "args": [], "kw": self.obj(cname, ok=r.random() < 0.4)["kw"]}
        calls = [m for m, _ in calls_for(obj)]
        groups = [[m for m in calls if m.partition("_")[2] in item_of],            # element helpers
                  [m for m in calls if m.partition("_")[2] in dom],                # attribute helpers
                  [m for m in calls if m in ("update", "transform", "reset")]]     # whole-instance helpers
        weights = [w if g else 0 for g, w in zip(groups, (0.5, 0.35, 0.15))]
        m = r.choice(r.choices(groups, weights=weights)[0])
        prefix, _, rest = m.partition("_")
        args, kw = [], {}
        if m in ("update", "transform", "reset"):
            if m != "reset":
                kw = self.nested_kw(cname, fns=(m == "transform"))
        elif rest in dom:                       # attribute helpers
            d = dom[rest]
            if prefix == "with":
                args = [self.value(d)] if r.random() < 0.9 else []
            elif prefix == "update":
                args = [self.value(d)] if r.random() < 0.92 else []
            elif prefix == "transform":
                args = [self.fn() if r.random() < 0.8 else {"$fn": r.choice(["append_bad", "drop_first"])}]
            if isinstance(d, tuple) and d[0] == "spec" and prefix != "reset" and r.random() < 0.7:
                kw = self.nested_kw(d[1], fns=(prefix == "transform"))
                if prefix in ("update", "transform") and r.random() < 0.6:
                    args = [] if prefix == "update" else [{"$fn": "ident"}]
        else:                                   # element helpers
            a = item_of[rest]
            d = dom[a]
            held = vars(obj).get(a)
            spec_elem = isinstance(d[-1], tuple)
            if prefix == "with":
                if d[0] == "dict":
                    args = [self.target(held, d)[0] if r.random() < 0.5 else r.choice(["a", "n", "zz", 3]),
                            self.elem(d[2])]
                else:
                    args = [self.elem(d[1])]
                    if d[0] == "list" and r.random() < 0.4:
                        kw["_index"] = r.choice([0, 1, -1, 5, None])
                        if r.random() < 0.5:
                            kw["_insert"] = True
                if spec_elem and r.random() < 0.5:
                    kw.update(self.nested_kw(d[-1][1]))
                    if r.random() < 0.5:
                        args = args[:-1]
            elif prefix in ("update", "transform"):
                t, tkw = self.target(held, d)
                kw.update(tkw)
                new = self.fn() if prefix == "transform" else self.elem(d[-1])
                args = [t, new]
                if spec_elem and r.random() < 0.7:
                    kw.update(self.nested_kw(d[-1][1], fns=(prefix == "transform")))
                    if r.random() < 0.7:
                        args = [t] if prefix == "update" else [t, {"$fn": "ident"}]
            elif prefix == "without":
                t, tkw = self.target(held, d)
                kw.update(tkw)
                args = [t]
        return {"kind": "helper", "name": m, "args": args, "kw": kw}


def _resolve_held(x, obj, opname):
    """{"$held": i}: the i-th element object of the collection the helper addresses"""
    if isinstance(x, dict) and "$held" in x:
        md = type(obj).__spec_class__
        rest = opname.partition("_")[2]
        for a, sp in md.attrs.items():
            if getattr(sp, "is_collection", False) and sp.item_name == rest:
                return list(vars(obj)[a])[x["$held"]]
    return decode(x)


def run_case(case):
    """re-executes a case from its description; None when the initial state cannot be built"""
    classes, _ = zoo()
    STATE["fail_at"] = None
    ALLOWED["int"], ALLOWED["str"] = set(INTS), set(STRS)
    op = case["op"]
    try:
        obj = None if op["kind"] == "construct" and not case.get("init") else classes[case["cls"]](
            **{k: decode(v) for k, v in case["init"].items()})
        args = [_resolve_held(a, obj, op["name"]) for a in op["args"]]
        kw = {k: decode(v) for k, v in op["kw"].items()}
    except Exception:  # pylint: disable=broad-except
        return None
    if case.get("inplace"):
        kw["_inplace"] = True
    for v in case.get("stale", []):
        ALLOWED["int" if isinstance(v, int) else "str"].discard(v)
    keep = (obj, args, kw)
    before = (snapshot(obj), [snapshot(a) for a in args], snapshot(kw))
    STATE["calls"], STATE["fail_at"] = 0, case.get("fail_at")
    outcome, exc, res = "returned", None, None
    try:
        if op["kind"] == "setattr":
            setattr(obj, op["name"], args[0])
        elif op["kind"] == "delattr":
            delattr(obj, op["name"])
        elif op["kind"] == "construct":
            res = classes[case["cls"]](**kw)
        else:
            res = getattr(obj, op["name"])(*args, **kw)
    except BaseException as e:  # pylint: disable=broad-except
        if isinstance(e, (KeyboardInterrupt, SystemExit)):
            raise
        outcome, exc = "raised", f"{type(e).__name__}: {e}"[:200]
    finally:
        calls = STATE["calls"]
        STATE["fail_at"] = None
        ALLOWED["int"], ALLOWED["str"] = set(INTS), set(STRS)
    after = (snapshot(obj), [snapshot(a) for a in args], snapshot(kw))
    changed = None
    if after[0] != before[0]:
        changed = "receiver"
    elif after[1] != before[1]:
        changed = "an argument"
    elif after[2] != before[2]:
        changed = "a keyword value"
    return {"outcome": outcome, "exception": exc, "validator_calls": calls, "changed": changed,
            "result_is_receiver": res is obj and obj is not None,
            "before": repr(before[0])[:1500], "after": repr(after[0])[:1500], "_keep": keep}


def stored_validated(obj, limit=64):
    """ints / strs stored anywhere below obj (candidates for a stale verdict)"""
    out, seen, todo = [], set(), [obj]
    while todo and len(seen) < limit:
        o = todo.pop()
        if id(o) in seen:
            continue
        seen.add(id(o))
        if isinstance(o, bool) or o is None or isinstance(o, float):
            continue
        if isinstance(o, int):
            if o in INTS:
                out.append(o)
        elif isinstance(o, str):
            if o in STRS:
                out.append(o)
        elif isinstance(o, dict):
            todo.extend(o.keys())
            todo.extend(o.values())
        elif isinstance(o, (list, tuple, set)):
            todo.extend(o)
        elif hasattr(o, "__dict__"):
            todo.extend(v for k, v in vars(o).items())
    return sorted(set(out), key=repr)


def known_sig(case):
    """the signature under which multi-step in-place commits are recorded as open findings"""
    op = case["op"]
    if op["kind"] == "helper" and case.get("inplace"):
        if op["name"] in ("update", "transform") and len(op["kw"]) > 1:
            return {"kind": "helper", "helper": op["name"] + "_top", "inplace": True, "multi_kw": True}
        if op["name"] == "reset":
            return {"kind": "helper", "helper": "reset_top", "inplace": True}
    return None


def judge(mode, case, r):
    if r is None:
        return None
    if mode == "C01":                # (identity of the result is the business of the main C01 oracle)
        return f"{r['outcome']} and left {r['changed']} changed" if r["changed"] else None
    if r["outcome"] == "raised" and r["changed"]:
        return f"raised and left {r['changed']} changed"
    return None


def label(case):
    op = case["op"]
    fault = (f"validator raising at its invocation {case['fail_at']}" if case.get("fail_at") else
             f"validator no longer accepting the stored {case['stale']}" if case.get("stale") else "no fault")
    if op["kind"] == "setattr":
        call = f"{case['cls']}.{op['name']} = {json.dumps(op['args'][0], default=str)[:80]}"
    elif op["kind"] == "delattr":
        call = f"del {case['cls']}.{op['name']}"
    elif op["kind"] == "construct":
        call = f"{case['cls']}({', '.join(sorted(op['kw']))})"
    else:
        a = ", ".join(json.dumps(x, default=str)[:60] for x in op["args"])
        k = ", ".join(f"{k}={json.dumps(v, default=str)[:40]}" for k, v in op["kw"].items())
        call = f"{case['cls']}.{op['name']}({a}{', ' if a and k else ''}{k}{', _inplace=True' if case.get('inplace') else ''})"
    return f"{call} [{fault}]"


def explore(chk, extra, mode, n_quick=2400, n_thorough=30000, limit_quick=6, limit_thorough=10):
    import time
    t0 = time.time()
    classes, _ = zoo()
    rng = chk.rng
    gen = Gen(rng)
    n = n_quick if chk.tier == "quick" else n_thorough
    limit = limit_quick if chk.tier == "quick" else limit_thorough
    names = ["VScal", "VScalSub", "VColl", "VColl", "VColl", "VPrep", "VPrep", "VItem", "VNest", "VNest"]
    base = runs = raised = known = 0
    by_fault = {"none": 0, "nth": 0, "stale": 0}
    raised_by_fault = {"none": 0, "nth": 0, "stale": 0}
    hist, max_calls = {}, 0
    reported = set()
    samples = []

    def one(case, fault):
        nonlocal runs, raised, known
        r = run_case(case)
        if r is None:
            return None
        runs += 1
        by_fault[fault] += 1
        if r["outcome"] == "raised":
            raised += 1
            raised_by_fault[fault] += 1
        problem = judge(mode, case, r)
        if problem:
            sig = known_sig(case) if mode == "C04" else None
            key = (case["op"]["kind"], case["op"]["name"] if case["op"]["kind"] == "helper" else "", fault)
            if sig is not None:
                known += 1
                chk.violation(label(case) + ": " + problem, {}, sig=sig)
            elif key not in reported and len(reported) < 4:
                reported.add(key)
                rep = {k: v for k, v in case.items()}
                rep.update(kind="validated-zoo", mode=mode, outcome=r["outcome"], exception=r["exception"],
                           before=r["before"], after=r["after"])
                chk.violation(f"{label(case)}: {r['exception'] or 'returned'}; {problem}", rep,
                              sig={"kind": "validated-zoo", "call": case["op"]["name"], "fault": fault})
        return r

    for _ in range(n):
        cname = rng.choice(names)
        init = gen.obj(cname)["kw"]
        try:
            STATE["fail_at"] = None
            probe = classes[cname](**{k: decode(v) for k, v in init.items()})
        except Exception:  # pylint: disable=broad-except
            continue
        op = gen.operation(cname, probe, mode)
        inplace = mode == "C04" and op["kind"] == "helper" and rng.random() < 0.6
        case = {"cls": cname, "init": {} if op["kind"] == "construct" else init, "op": op, "inplace": inplace,
                "fail_at": None, "stale": []}
        r = one(case, "none")
        if r is None:
            continue
        base += 1
        hk = op["name"] if op["kind"] == "helper" else op["kind"]
        hist[hk] = hist.get(hk, 0) + 1
        max_calls = max(max_calls, r["validator_calls"])
        if len(samples) < 6:
            samples.append({"case": label(case), "outcome": r["outcome"], "exception": r["exception"],
                            "validator_calls": r["validator_calls"]})
        for k in range(1, min(r["validator_calls"], limit) + 1):
            one(dict(case, fail_at=k), "nth")
        held = stored_validated(r["_keep"][0]) if r["_keep"][0] is not None else []
        for v in (rng.sample(held, min(2, len(held))) if held else []):
            one(dict(case, stale=[v]), "stale")
        if len(reported) >= 4:
            break
    extra["validated_zoo_exploration"] = {
        "base_cases": base, "runs": runs, "raised": raised, "runs_by_fault": by_fault,
        "raised_by_fault": raised_by_fault, "max_validator_invocations_in_one_operation": max_calls,
        "entry_point_histogram": hist, "multi_step_inplace_commits_matching_open_findings": known,
        "samples": samples, "wall_s": round(time.time() - t0, 1),
        "rule": "implementation only (probe, not Coq evaluation): zoo of classes with validated(...)/bounded(...) scalar "
                "attributes, List/Dict/Set attributes of validated element and key types, item preparers in front of "
                "validated types, nested and keyed spec elements with validated attributes; every helper by "
                "introspection + assignment + deletion + constructor, copy and in place; per base case the validator "
                f"raises at its 1st..min(N,{limit})th invocation and stops accepting a stored value; " +
                ("C01: receiver, arguments and keyword values unchanged whether the call returns or raises"
                 if mode == "C01" else "C04: after an exception receiver, arguments and keyword values unchanged")}


def replay(pid, path):
    with open(path) as fh:
        case = json.load(fh)
    mode = case.get("mode", pid)
    r = run_case(case)
    problem = judge(mode, case, r)
    print("replay:", label(case))
    if r is None:
        print("  initial state cannot be built any more: passes now")
        return 0
    print("  outcome:", r["outcome"], r["exception"], "| validator invocations:", r["validator_calls"])
    print("  before:", r["before"][:600])
    print("  after: ", r["after"][:600])
    print("replay:", f"still failing ({problem})" if problem else "passes now")
    return 1 if problem else 0
