"""Deterministic line-level thread scheduler for C20.

n worker threads run under sys.settrace.  At every `line` event inside a chosen
set of code objects (the three methods of spec_classes.utils.mutation.
_modules_copyable and the harness' Probe.__deepcopy__) the running thread parks
on its own semaphore; the scheduler wakes exactly one thread per step.  A thread
that is woken at a lock-acquiring line while another (parked) thread holds that
lock blocks inside the C-level acquire: this is predicted from the lock's state
and confirmed by the absence of progress within a short timeout (progress in
spite of the prediction is reported as a step, so a protocol without the lock
is seen).  When the holder releases the lock the blocked thread continues on
its own up to its next line event; that is recorded as an implicit step of that
thread right after the step that released the lock.
"""
import queue
import re
import sys
import threading
import time


class Stuck(Exception):
    pass


class Worker:
    def __init__(self, idx, fn):
        self.idx, self.fn = idx, fn
        self.sem = threading.Semaphore(0)
        self.pos = ("start", 0, 0)      # (function name, line, visit)
        self.state = "new"              # new | parked | running | blocked | finished
        self.result = None
        self.exc = None
        self.thread = None
        self.ident = None


class Scheduler:
    def __init__(self, fns, targets, lock_of, hard_timeout=6.0, block_wait=0.004, call_hook=None):
        """fns: one callable per thread.  targets: set of code objects whose
        lines are scheduling points.  lock_of(pos) -> None or a function
        returning (held_by_other_than(ident)) for the lock acquired at pos."""
        self.workers = [Worker(i, f) for i, f in enumerate(fns)]
        self.targets = targets
        self.lock_of = lock_of
        self.events = queue.Queue()
        self.hard_timeout = hard_timeout
        self.block_wait = block_wait
        self.stuck = None
        self.call_hook = call_hook

    # ---------------------------------------------------------------- worker side
    def _tracer(self, w):
        visits = {}

        def local(frame, event, arg):
            if event == "line":
                v = visits.setdefault(id(frame), {})
                v[frame.f_lineno] = v.get(frame.f_lineno, 0) + 1
                self._park(w, (frame.f_code.co_name, frame.f_lineno, v[frame.f_lineno]))
            elif event == "return":
                visits.pop(id(frame), None)
            return local

        def glob(frame, event, arg):
            if event == "call":
                if frame.f_code in self.targets:
                    visits[id(frame)] = {}
                    return local
                if self.call_hook is not None:
                    self.call_hook(frame.f_code)
            return None
        return glob

    def _park(self, w, pos):
        # the worker only reports; every state transition is made by the scheduler
        # thread when it consumes the report (no shared writes, no races)
        self.events.put((w.idx, "parked", pos))
        w.sem.acquire()

    def _run(self, w):
        w.ident = threading.get_ident()
        self._park(w, ("start", 0, 0))
        sys.settrace(self._tracer(w))
        try:
            w.result = w.fn()
        except BaseException as e:  # noqa: the outcome of the thread
            w.exc = e
        finally:
            sys.settrace(None)
            self.events.put((w.idx, "finished", ("end", 0, 0)))

    # ---------------------------------------------------------------- scheduler side
    def _get(self, timeout):
        """consume one report; returns the worker index or None on timeout"""
        try:
            j, what, pos = self.events.get(timeout=timeout)
        except queue.Empty:
            return None
        self.workers[j].state = what
        self.workers[j].pos = pos
        return j

    def _wait_for(self, idx, predicted_blocked):
        """wait until worker idx reports; returns ('moved'|'blocked', implicit)
        where implicit lists other (previously blocked) workers that reported meanwhile."""
        implicit = []
        t0 = time.time()
        while True:
            j = self._get(self.block_wait if predicted_blocked else 0.05)
            if j is None:
                if predicted_blocked:
                    return "blocked", implicit
                if time.time() - t0 > self.hard_timeout:
                    raise Stuck(f"thread {idx} made no progress at {self.workers[idx].pos}")
                continue
            if j == idx:
                return "moved", implicit
            implicit.append(j)

    def start(self):
        """start the threads one after the other; each runs to its first scheduling point"""
        for w in self.workers:
            w.thread = threading.Thread(target=self._run, args=(w,), daemon=True)
            w.thread.start()
            self._expect(w.idx)         # parked at 'start'
        for w in self.workers:
            w.state = "running"
            w.sem.release()
            self._expect(w.idx)         # first line event (or finished)

    def _expect(self, idx):
        t0 = time.time()
        while True:
            j = self._get(0.05)
            if j is None:
                if time.time() - t0 > self.hard_timeout:
                    raise Stuck(f"thread {idx} did not reach a scheduling point")
                continue
            if j == idx:
                return

    def runnable(self):
        return [w.idx for w in self.workers if w.state == "parked"]

    def live(self):
        return [w.idx for w in self.workers if w.state != "finished"]

    def settle(self, wait=0.05):
        """consume late reports (a thread wrongly taken for blocked); returns their indices"""
        out = []
        while True:
            j = self._get(wait)
            if j is None:
                return out
            out.append(j)

    def would_block(self, w):
        chk = self.lock_of(w.pos)
        return bool(chk and chk(w.ident))

    def step(self, idx):
        """wake worker idx.  Returns a list of (thread, blocked) records: the step
        itself and the implicit steps of blocked threads that got their lock."""
        w = self.workers[idx]
        assert w.state == "parked", (idx, w.state)
        predicted = self.would_block(w)
        w.state = "running"
        w.sem.release()
        how, implicit = self._wait_for(idx, predicted)
        recs = []
        if how == "blocked":
            w.state = "blocked"
            recs.append((idx, True))
        else:
            recs.append((idx, False))
        recs += [(j, False) for j in implicit]
        # blocked threads whose lock has become free continue on their own
        while True:
            moved = False
            for b in [b for b in self.workers if b.state == "blocked"]:
                chk = self.lock_of(b.pos)
                if chk and not chk(b.ident):
                    # nobody else holds it: b (or another waiter) takes it; wait for the report
                    j = self._next_event()
                    recs.append((j, False))
                    moved = True
                    break
            if not moved:
                break
        return recs

    def _next_event(self):
        t0 = time.time()
        while True:
            j = self._get(0.05)
            if j is not None:
                return j
            if time.time() - t0 > self.hard_timeout:
                raise Stuck("a thread waiting for a free lock made no progress")

    def join(self):
        for w in self.workers:
            if w.thread is not None:
                w.thread.join(timeout=0.5)

    def abandon(self):
        """let every thread run free (used after a deadlock was diagnosed)"""
        for w in self.workers:
            for _ in range(10000):
                w.sem.release()


_RLOCK_OWNER = re.compile(r"owner=(\d+)")


def rlock_held_by_other(lock, ident):
    r = repr(lock)
    if "unlocked" in r:
        return False
    m = _RLOCK_OWNER.search(r)
    return bool(m) and int(m.group(1)) != ident and int(m.group(1)) != 0
