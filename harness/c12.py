"""C12 — spec_property / classproperty: correspondence of Desc/SpecPropModel.v and
Desc/ClassPropModel.v with spec_classes/types/spec_property.py, and property oracle
(the two-slot specifications Desc/SpecPropSpec.v, Desc/ClassPropSpec.v) evaluated on
the implementation's observations."""
import itertools
import json

from common import Check, ERR_CODES, cbool, clist, coq_eval, cz, czlist, outcome_class

PRELUDE = """From Coq Require Import List ZArith Bool.
From SC Require Import Base.Res Corr.Enc Desc.SpecPropModel Desc.SpecPropSpec Desc.ClassPropModel Desc.ClassPropSpec Desc.SpecPropDepsModel Desc.SpecPropDepsSpec Corr.SpecPropCorr.
Import ListNotations.
Open Scope Z_scope.
"""

ABSENT = object()
OWNERS = ["plain", "unmanaged", "unmanaged_inval", "managed", "managed_inval"]
C_OWNER = {"plain": "Plain", "unmanaged": "(SpecUnmanaged false)", "unmanaged_inval": "(SpecUnmanaged true)",
           "managed": "(SpecManaged false)", "managed_inval": "(SpecManaged true)"}


# ------------------------------------------------------------------ values
# a value is ("I", z) | ("S", z) | ("M",) | ("E",) | ("U",) | ("N",) None | ("ES",) '' | ("EL",) []
def py_val(v):
    from spec_classes.types.missing import EMPTY, MISSING, UNCHANGED
    if v[0] == "I":
        return v[1]
    if v[0] == "S":
        return f"s{v[1]}"
    if v[0] == "EL":
        return []
    return {"M": MISSING, "E": EMPTY, "U": UNCHANGED, "N": None, "ES": ""}[v[0]]


def enc_val(o):
    from spec_classes.types.missing import EMPTY, MISSING, UNCHANGED
    if o is MISSING:
        return 2
    if o is EMPTY:
        return 3
    if o is UNCHANGED:
        return 4
    if o is None:
        return 5
    if type(o) is str and o == "":
        return 6
    if type(o) is list and len(o) == 0:
        return 7
    if type(o) is int:
        return 8 * o
    if type(o) is str and o[:1] == "s" and o[1:].lstrip("-").isdigit():
        return 8 * int(o[1:]) + 1
    return -99


def enc_opt(o):
    return -1 if o is ABSENT else enc_val(o)


def c_val(v):
    if v[0] == "I":
        return f"(VInt {cz(v[1])})"
    if v[0] == "S":
        return f"(VStr {cz(v[1])})"
    return {"M": "VMissing", "E": "VEmpty", "U": "VUnchanged", "N": "VNone", "ES": "VEStr", "EL": "VEList"}[v[0]]


def mode_value(x, priv, base):
    from spec_classes.types.missing import MISSING, UNCHANGED
    m = x % 8
    if m == 1:
        raise AttributeError("getter: no such thing")
    if m == 2:
        return MISSING
    if m == 3:
        return f"s{x}"
    if m == 5:
        return UNCHANGED
    if m == 6:
        raise KeyError("getter: key")
    if m == 7:
        return None
    return base if priv is ABSENT else priv


def outcome(fn):
    """run fn; [1, v] value, [0, 0] None, [-code, 0] exception class"""
    try:
        r = fn()
    except BaseException as e:
        if isinstance(e, (KeyboardInterrupt, SystemExit, AssertionError)):
            raise
        return [ERR_CODES[outcome_class(e)], 0]
    return r


# ------------------------------------------------------------------ spec_property: implementation side
# cfg = (overridable, cache, has_fset, has_fdel, has_fget, allow_ae)
_owner_cache = {}


def make_owner(cfg, owner, sid, did, pid, own=False):
    """own=True: getter / custom setter / custom deleter keep the backing value in
    instance.__dict__ under the property's OWN name "p" (instead of "_p")"""
    key = (cfg, owner, sid, did, pid, own)
    if key in _owner_cache:
        return _owner_cache[key]
    from spec_classes import spec_class, spec_property
    ov, ca, fs, fd, fg, ae = cfg

    def fget(self):
        d = object.__getattribute__(self, "__dict__")
        d["calls"] = d.get("calls", 0) + 1
        return mode_value(d["x"], d.get("p" if own else "_p", ABSENT), d["x"])

    def fset(self, v):
        if sid == 1 and isinstance(v, str):
            raise ValueError("setter: str")
        if own:
            object.__getattribute__(self, "__dict__")["p"] = v
        else:
            self._p = v

    def fdel(self):
        if own:
            d = object.__getattribute__(self, "__dict__")
            if did == 1 and "p" not in d:
                raise AttributeError("deleter: nothing stored")
            d.pop("p", None)
        elif did == 1:
            del self._p
        else:
            object.__getattribute__(self, "__dict__").pop("_p", None)

    kw = dict(overridable=bool(ov), cache=bool(ca), allow_attribute_error=bool(ae))
    owner, _, layout = owner.partition("+")
    if owner.endswith("_inval"):
        kw["invalidated_by"] = ["x"]
    prop = spec_property(fget if fg else None, **kw)
    if fs:
        prop = prop.setter(fset)
    if fd:
        prop = prop.deleter(fdel)
    ns = {}
    if owner.startswith("managed"):
        ns["__annotations__"] = {"p": int}
        if pid == 1:
            ns["_prepare_p"] = lambda self, v: v + 1 if type(v) is int else v
        elif pid == 2:
            ns["_prepare_p"] = lambda self, v: f"s{v}" if type(v) is int else v
        elif pid == 3:
            def _prepare_p(self, v):
                if v == 11:
                    raise ValueError("preparer: 11")
                return v
            ns["_prepare_p"] = _prepare_p
    elif owner != "plain":
        ns["__annotations__"] = {"y": int}
        ns["y"] = 0
    # layout (round G, seeded change C12-G1): WHERE the descriptor is defined relative to the
    # class that manages the attribute (annotation + preparer) and to the class of the instance
    #   ""         one class defines and manages (all earlier rounds)
    #   "mixin"    defined on a plain base, managed only by the spec subclass `Owner`
    #   "parent"   defined on a parent spec class that does NOT manage it, managed by the spec subclass
    #   "sub"      defined and managed by a spec class, the instance is of a spec subclass of it
    #   "plainsub" same, the instance is of a plain subclass
    #   "deep"     plain mix-in <- spec parent managing it <- spec subclass (instance)
    # the expected behaviour (Coq model / specification) is that of the owner kind in every layout:
    # what counts is the spec metadata of the INSTANCE's class.
    if layout in ("", "sub", "plainsub"):
        ns["p"] = prop
        cls = type("Owner", (), ns)
        if owner != "plain":
            cls = spec_class(cls)
        if layout == "sub":
            cls = spec_class(type("SubOwner", (cls,), {"__annotations__": {"z": int}, "z": 0})) if owner != "plain" else type("SubOwner", (cls,), {})
        elif layout == "plainsub":
            cls = type("PlainSubOwner", (cls,), {})
    elif layout in ("mixin", "deep"):
        base = type("Mixin", (), {"p": prop})
        cls = type("Owner", (base,), ns)
        if owner != "plain":
            cls = spec_class(cls)
        if layout == "deep":
            cls = spec_class(type("SubOwner", (cls,), {"__annotations__": {"z": int}, "z": 0})) if owner != "plain" else type("SubOwner", (cls,), {})
    elif layout == "parent":
        base = spec_class(type("Parent", (), {"p": prop, "__annotations__": {"z": int}, "z": 0}))
        cls = type("Owner", (base,), ns)
        if owner != "plain":
            cls = spec_class(cls)
    else:
        raise ValueError(layout)
    _owner_cache[key] = cls
    return cls


def run_spo(case):
    return run_sp(case, own=True)


def run_sp(case, own=False):
    """case = (cfg, owner, sid, did, pid, x0, ops); returns the observations"""
    cfg, owner, sid, did, pid, x0, ops = case
    cls = make_owner(cfg, owner, sid, did, pid, own)
    obj = cls()
    import inspect
    class_read_ok = cls.p is inspect.getattr_static(cls, "p")   # Owner.p (instance is None) is the descriptor itself
    d = object.__getattribute__(obj, "__dict__")
    d["x"] = x0
    d["calls"] = 0
    seen = []
    for op in ops:
        if op[0] == "Read":
            out = outcome(lambda: [1, enc_val(obj.p)])
        elif op[0] == "Assign":
            def f():
                obj.p = py_val(op[1])
                return [0, 0]
            out = outcome(f)
        elif op[0] == "Delete":
            def f():
                del obj.p
                return [0, 0]
            out = outcome(f)
        else:
            def f():
                obj.x = op[1]
                return [0, 0]
            out = outcome(f)
        extra = sorted(k for k in d if k not in ("p", "x", "_p", "calls", "y", "z"))
        seen.append(out + [enc_opt(d.get("p", ABSENT)), d.get("x", -77), enc_opt(d.get("_p", ABSENT)),
                           d.get("calls", -77)] + ([-98] if extra or not class_read_ok else []))
    return seen


def c_cfg(cfg):
    return "(mkcfg " + " ".join(cbool(b) for b in cfg) + ")"


def c_op(op):
    if op[0] == "Assign":
        return f"Assign {c_val(op[1])}"
    if op[0] == "Poke":
        return f"Poke {cz(op[1])}"
    return op[0]


def c_case_sp(case, seen):
    cfg, owner, sid, did, pid, x0, ops = case
    return (f"mkcase {c_cfg(cfg)} {C_OWNER[owner.partition('+')[0]]} {sid} {did} {pid} {cz(x0)} "
            f"{clist(ops, c_op)} {clist(seen, czlist)}")


# ------------------------------------------------------------------ trigger + dependant: implementation side
# dflags = (ct, mt, cq, mq, star): ct / cq the six flags of the trigger `t` / the dependant `q`
# (declared invalidated_by=["t"], or "*" when star), mt / mq: `t: int` / `q: int` annotated
def make_owner2(dflags, tids, qids):
    key = (dflags, tids, qids)
    if key in _owner_cache:
        return _owner_cache[key]
    from spec_classes import spec_class, spec_property
    ct, mt, cq, mq, star = dflags

    def build(name, cfg, ids, base, **more):
        ov, ca, fs, fd, fg, ae = cfg
        sid, did, pid = ids

        def fget(self):
            d = object.__getattribute__(self, "__dict__")
            d["calls"] = d.get("calls", 0) + 1
            return mode_value(d["x"], d.get("_p", ABSENT), d["x"] + base)

        # raw writes: an assignment through the generated __setattr__ would itself invalidate a
        # dependant declared invalidated_by="*" from inside the setter
        def fset(self, v):
            if sid == 1 and isinstance(v, str):
                raise ValueError("setter: str")
            object.__getattribute__(self, "__dict__")["_p"] = v

        def fdel(self):
            d = object.__getattribute__(self, "__dict__")
            if did == 1 and "_p" not in d:
                raise AttributeError("deleter: nothing stored")
            d.pop("_p", None)

        prop = spec_property(fget if fg else None, overridable=bool(ov), cache=bool(ca),
                             allow_attribute_error=bool(ae), **more)
        if fs:
            prop = prop.setter(fset)
        if fd:
            prop = prop.deleter(fdel)
        return prop

    ns = {"t": build("t", ct, tids, 0),
          "q": build("q", cq, qids, 100, invalidated_by="*" if star else ["t"])}
    ann = {}
    for name, mg, ids in (("t", mt, tids), ("q", mq, qids)):
        if not mg:
            continue
        ann[name] = int
        pid = ids[2]
        if pid == 1:
            ns["_prepare_" + name] = lambda self, v: v + 1 if type(v) is int else v
        elif pid == 2:
            ns["_prepare_" + name] = lambda self, v: f"s{v}" if type(v) is int else v
        elif pid == 3:
            def _prep(self, v):
                if v == 11:
                    raise ValueError("preparer: 11")
                return v
            ns["_prepare_" + name] = _prep
    if not ann:
        ann["y"] = int
        ns["y"] = 0
    ns["__annotations__"] = ann
    cls = spec_class(type("Owner2", (), ns))
    _owner_cache[key] = cls
    return cls


def run_dp(case):
    """case = (dflags, tids, qids, x0, ops); observation rows:
    [outcome, value, __dict__['t'], __dict__['q'], x, _p, getter calls]"""
    dflags, tids, qids, x0, ops = case
    cls = make_owner2(dflags, tids, qids)
    obj = cls()
    d = object.__getattribute__(obj, "__dict__")
    d["x"] = x0
    d["calls"] = 0
    seen = []
    for op in ops:
        n = op[0]
        name = "t" if n[0] == "T" else "q"
        if n in ("TRead", "QRead"):
            out = outcome(lambda: [1, enc_val(getattr(obj, name))])
        elif n in ("TAssign", "QAssign"):
            def f():
                setattr(obj, name, py_val(op[1]))
                return [0, 0]
            out = outcome(f)
        elif n in ("TDelete", "QDelete"):
            def f():
                delattr(obj, name)
                return [0, 0]
            out = outcome(f)
        else:
            def f():
                obj.x = op[1]
                return [0, 0]
            out = outcome(f)
        extra = sorted(k for k in d if k not in ("t", "q", "x", "_p", "calls", "y"))
        seen.append(out + [enc_opt(d.get("t", ABSENT)), enc_opt(d.get("q", ABSENT)), d.get("x", -77),
                           enc_opt(d.get("_p", ABSENT)), d.get("calls", -77)] + ([-98] if extra else []))
    return seen


def c_dop(op):
    if op[0] in ("TAssign", "QAssign"):
        return f"{op[0]} {c_val(op[1])}"
    if op[0] == "XPoke":
        return f"XPoke {cz(op[1])}"
    return op[0]


def c_case_dp(case, seen):
    (ct, mt, cq, mq, star), tids, qids, x0, ops = case
    return (f"mkdcase (mkd {c_cfg(ct)} {cbool(mt)} {c_cfg(cq)} {cbool(mq)} {cbool(star)}) "
            f"{tids[0]} {tids[1]} {tids[2]} {qids[0]} {qids[1]} {qids[2]} {cz(x0)} "
            f"{clist(ops, c_dop)} {clist(seen, czlist)}")


# ------------------------------------------------------------------ classproperty: implementation side
# ccfg = (overridable, cache, per_subclass, has_fset, has_fdel, has_fget, allow_ae)
def make_hierarchy(ccfg, shape, sid, did, x0):
    from spec_classes import classproperty
    ov, ca, ps, fs, fd, fg, ae = ccfg
    holder = {}

    def fget(cls):
        holder["A"].calls += 1
        return mode_value(cls.x, getattr(cls, "_p", ABSENT), 10 * cls.x + cls.idx)

    def fset(cls, v):
        if sid == 1 and isinstance(v, str):
            raise ValueError("setter: str")
        cls._p = v

    def fdel(cls):
        if did == 1:
            del cls._p
        elif "_p" in cls.__dict__:
            del cls._p

    prop = classproperty(fget if fg else None, overridable=bool(ov), cache=bool(ca),
                         cache_per_subclass=bool(ps), allow_attribute_error=bool(ae))
    if fs:
        prop = prop.setter(fset)
    if fd:
        prop = prop.deleter(fdel)
    A = type("A", (), {"p": prop, "x": x0, "calls": 0, "idx": 0})
    holder["A"] = A
    B = type("B", (A,), {"idx": 1})
    C = type("C", (B,) if shape == 0 else (A,), {"idx": 2})
    return [A, B, C], A.__dict__["p"]


def run_cp(case):
    ccfg, shape, sid, did, x0, ops = case
    classes, desc = make_hierarchy(ccfg, shape, sid, did, x0)
    seen = []
    for op in ops:
        n = op[0]
        if n == "ReadC":
            out = outcome(lambda: [1, enc_val(classes[op[1]].p)])
        elif n == "ReadI":
            out = outcome(lambda: [1, enc_val(classes[op[1]]().p)])
        elif n == "Assign":
            def f():
                classes[op[1]]().p = py_val(op[2])
                return [0, 0]
            out = outcome(f)
        elif n == "Delete":
            def f():
                del classes[op[1]]().p
                return [0, 0]
            out = outcome(f)
        else:
            def f():
                classes[op[1]].x = op[2]
                return [0, 0]
            out = outcome(f)
        cache = desc._cache
        unknown = [k for k in cache if k is not None and k not in classes]
        obs = out + [enc_opt(cache.get(k, ABSENT)) for k in [None] + classes]
        obs += [k.__dict__.get("x", -1) for k in classes]
        obs += [enc_opt(k.__dict__.get("_p", ABSENT)) for k in classes]
        obs += [classes[0].calls] + ([-98] if unknown or classes[0].__dict__.get("p") is not desc else [])
        seen.append(obs)
    return seen


def c_ccfg(ccfg):
    return "(mkccfg " + " ".join(cbool(b) for b in ccfg) + ")"


def c_cop(op):
    n = op[0]
    if n == "ReadC":
        return f"CReadC {op[1]}"
    if n == "ReadI":
        return f"CReadI {op[1]}"
    if n == "Assign":
        return f"CAssign {op[1]} {c_val(op[2])}"
    if n == "Delete":
        return f"CDelete {op[1]}"
    return f"CPoke ({op[1]}, {cz(op[2])})"


def c_case_cp(case, seen):
    ccfg, shape, sid, did, x0, ops = case
    return f"mkccase {c_ccfg(ccfg)} {shape} {sid} {did} {cz(x0)} {clist(ops, c_cop)} {clist(seen, czlist)}"


# ------------------------------------------------------------------ generation
FLAGS16 = list(itertools.product((0, 1), repeat=4))
# exhaustive alphabets (5 operations each).  Stored values that are None / falsy must behave
# like any other stored value, so they are IN the exhaustive scope: on plain and unmanaged
# owners the assigned value is None and one state change makes the getter return None
# (x=7); a second alphabet assigns a truthy value; on managed (`p: int`) owners the assigned
# value is the falsy int 0 (None is ill-typed there) and the getter returns 0 at x=0.
CORE_NONE = [("Read",), ("Assign", ("N",)), ("Delete",), ("Poke", 4), ("Poke", 7)]
CORE_TRUTHY = [("Read",), ("Assign", ("I", 10)), ("Delete",), ("Poke", 4), ("Poke", 8)]
CORE_ZERO = [("Read",), ("Assign", ("I", 0)), ("Delete",), ("Poke", 4), ("Poke", 0)]
INTS = [("I", 10), ("I", 0), ("I", 11), ("I", 12)]
FALSY = [("N",), ("ES",), ("EL",), ("I", 0)]          # None, '', [], 0
SENTINELS = [("M",), ("E",), ("U",)]
FULL_VALUES = INTS + FALSY + [("S", 7)] + SENTINELS
NORMAL_X = [0, 4, 8, 12, 16]
FULL_X = NORMAL_X + [1, 2, 3, 5, 6, 7, 9, 15]          # 7, 15: the getter returns None


def full_op(rng):
    r = rng.random()
    if r < 0.34:
        return ("Read",)
    if r < 0.56:
        return ("Assign", pick_value(rng))
    if r < 0.74:
        return ("Delete",)
    return ("Poke", rng.choice(FULL_X) if rng.random() < 0.6 else rng.choice(NORMAL_X))


def pick_value(rng):
    r = rng.random()
    if r < 0.35:
        return rng.choice(INTS)
    if r < 0.70:
        return rng.choice(FALSY)
    if r < 0.82:
        return ("S", 7)
    return rng.choice(SENTINELS)


def gen_sp(rng, tier):
    quick = tier == "quick"
    cases = []
    # (a) the literal scope of the property text: all 16 flag combinations x plain / spec
    #     class without annotation / managed without preparer / managed with preparer,
    #     EVERY sequence of length L over {read, assign v, delete, 2 state changes}
    #     (every shorter sequence is a prefix; observations are compared after every step)
    L = 4 if quick else 5
    kinds = [("plain", 0, CORE_NONE, L), ("unmanaged", 0, CORE_NONE, L),
             ("managed", 0, CORE_ZERO, L), ("managed", 1, CORE_TRUTHY, L),
             # truthy values on the untyped owners, one step shorter
             ("plain", 0, CORE_TRUTHY, L - 1), ("unmanaged", 0, CORE_TRUTHY, L - 1)]
    for fl in FLAGS16:
        for owner, pid, alphabet, ln in kinds:
            cfg = fl + (1, 1)
            for seq in itertools.product(alphabet, repeat=ln):
                cases.append(((cfg, owner, 0, 0, pid, 0, list(seq)), "exh"))
    # (b) sampled: all owners, fget absent, allow_attribute_error, setter / deleter /
    #     preparer pools, sentinels and ill-typed values, getter raising / returning
    #     sentinels, invalidated_by; length <= 4 (quick) / <= 7 (thorough)
    n = 9000 if quick else 60000
    maxlen = 4 if quick else 7
    for i in range(n):
        fl = FLAGS16[i % 16]
        owner = OWNERS[(i // 16) % 5]
        cfg = fl + (0 if rng.random() < 0.06 else 1, 0 if rng.random() < 0.3 else 1)
        pid = rng.randrange(4) if owner.startswith("managed") else 0
        ln = maxlen if rng.random() < 0.7 else rng.randint(1, maxlen)
        ops = [full_op(rng) for _ in range(ln)]
        cases.append(((cfg, owner, rng.randrange(2), rng.randrange(2), pid, rng.choice(NORMAL_X + FULL_X), ops), "rand"))
    cases += gen_sp_layouts(rng, tier)
    return cases


LAYOUTS = ["mixin", "parent", "sub", "plainsub", "deep"]


def gen_sp_layouts(rng, tier):
    """round G (seeded change C12-G1): the descriptor is DEFINED on a class that does not manage the
    attribute (plain mix-in / parent spec class without the annotation) and MANAGED (annotation +
    preparer) only by the spec subclass whose instance is used; neighbours: instance of a (spec or
    plain) subclass of the managing class.  Expected behaviour = that of the owner kind (model unchanged)."""
    quick = tier == "quick"
    cases = []
    L = 3 if quick else 4
    # (c) all 16 flag combinations x {mix-in, unmanaging spec parent} x preparer {v+1 (to be prepared),
    #     int -> str (ill-typed after preparation: the read must raise TypeError and cache nothing)}
    #     + no preparer with the falsy alphabet, every sequence of length L
    kinds = [("managed+mixin", 1, CORE_TRUTHY), ("managed+parent", 1, CORE_TRUTHY),
             ("managed+mixin", 2, CORE_TRUTHY), ("managed+parent", 2, CORE_ZERO),
             ("managed_inval+parent", 1, CORE_TRUTHY), ("managed+deep", 1, CORE_TRUTHY)]
    if not quick:
        kinds += [("managed_inval+mixin", 2, CORE_TRUTHY), ("managed+sub", 1, CORE_TRUTHY), ("managed+plainsub", 1, CORE_TRUTHY),
                  ("unmanaged+mixin", 0, CORE_NONE), ("unmanaged+parent", 0, CORE_NONE)]
    for fl in FLAGS16:
        for owner, pid, alphabet in kinds:
            for seq in itertools.product(alphabet, repeat=L):
                cases.append(((fl + (1, 1), owner, 0, 0, pid, 0, list(seq)), "layout-exh"))
    # (d) sampled over every owner kind x layout and the full pools (getter returning ill-typed
    #     strings / None / sentinels, raising getter / preparer, fget absent, custom setter / deleter)
    n = 3000 if quick else 30000
    maxlen = 4 if quick else 7
    for i in range(n):
        fl = FLAGS16[i % 16]
        base = OWNERS[1:][(i // 16) % 4] if rng.random() < 0.25 else rng.choice(["managed", "managed_inval"])
        layout = LAYOUTS[(i // 64) % 5] if rng.random() < 0.4 else rng.choice(["mixin", "parent"])
        cfg = fl + (0 if rng.random() < 0.06 else 1, 0 if rng.random() < 0.3 else 1)
        pid = rng.randrange(4) if base.startswith("managed") else 0
        ln = maxlen if rng.random() < 0.7 else rng.randint(1, maxlen)
        ops = [full_op(rng) for _ in range(ln)]
        if rng.random() < 0.5:      # make sure the getter result is observed: a read after at most one other operation
            ops[min(1, len(ops) - 1)] = ("Read",)
        cases.append(((cfg, base + "+" + layout, rng.randrange(2), rng.randrange(2), pid, rng.choice(NORMAL_X + FULL_X), ops), "layout-rand"))
    return cases


def gen_spo(rng, tier):
    """own-name backing field (seeded change C12-F2): the custom setter keeps its value in
    instance.__dict__["p"].  Only overridable=False, cache=False (the entry can then be neither
    an override nor a cached value: every read is the getter on current state)."""
    quick = tier == "quick"
    cases = []
    L = 3 if quick else 4
    short = [("plain", 0, CORE_TRUTHY), ("plain", 0, CORE_NONE), ("unmanaged", 0, CORE_TRUTHY),
             ("unmanaged", 0, CORE_NONE), ("managed", 0, CORE_ZERO), ("managed", 1, CORE_TRUTHY),
             ("managed_inval", 1, CORE_TRUTHY), ("unmanaged_inval", 0, CORE_TRUTHY)]
    longer = [("plain", 0, CORE_TRUTHY), ("managed", 1, CORE_TRUTHY)] + ([] if quick else [("unmanaged", 0, CORE_NONE)])
    for kinds, ln in ((short, L), (longer, L + 1)):
        for owner, pid, alphabet in kinds:
            for fd in (0, 1):
                cfg = (0, 0, 1, fd, 1, 1)
                for seq in itertools.product(alphabet, repeat=ln):
                    cases.append(((cfg, owner, 0, 0, pid, 0, list(seq)), "exh"))
    n = 1500 if quick else 20000
    maxlen = 4 if quick else 7
    for i in range(n):
        owner = OWNERS[i % 5]
        cfg = (0, 0, 0 if rng.random() < 0.1 else 1, rng.randrange(2),
               0 if rng.random() < 0.06 else 1, 0 if rng.random() < 0.3 else 1)
        pid = rng.randrange(4) if owner.startswith("managed") else 0
        ln = maxlen if rng.random() < 0.7 else rng.randint(1, maxlen)
        ops = [full_op(rng) for _ in range(ln)]
        cases.append(((cfg, owner, rng.randrange(2), rng.randrange(2), pid, rng.choice(NORMAL_X + FULL_X), ops), "rand"))
    return cases


def full_dop(rng):
    r = rng.random()
    if r < 0.14:
        return ("TRead",)
    if r < 0.36:
        return ("TAssign", pick_value(rng))
    if r < 0.46:
        return ("TDelete",)
    if r < 0.66:
        return ("QRead",)
    if r < 0.78:
        return ("QAssign", pick_value(rng))
    if r < 0.86:
        return ("QDelete",)
    return ("XPoke", rng.choice(FULL_X) if rng.random() < 0.5 else rng.choice(NORMAL_X))


def gen_dp(rng, tier):
    """trigger `t` + dependant `q` (invalidated_by=["t"] / "*") on one spec-class instance
    (seeded change C12-F1): what a dependant holds must survive everything but a successful
    assignment / deletion of the trigger."""
    quick = tier == "quick"
    cases = []
    # (a) every trigger configuration (16 flags x managed or not) x dependant that can hold a
    #     value (cache / overridable / both) x managed or not x ["t"] / "*": the dependant is
    #     filled (by a read or an assignment), one operation on the trigger (or x), the dependant read
    fills = [("QRead",), ("QAssign", ("I", 10))]
    trigs = [("TAssign", ("I", 10)), ("TDelete",), ("TAssign", ("M",)), ("TRead",), ("XPoke", 4)]
    seqs = [[f, t, ("QRead",)] for f in fills for t in trigs]
    seqs += [[first, f, ("TDelete",), ("QRead",)] for first in [("TRead",), ("TAssign", ("I", 10))] for f in fills]
    if not quick:
        seqs += [[f, t, t2, ("QRead",)] for f in fills for t in trigs for t2 in trigs]
    for fl in FLAGS16:
        for mt in (0, 1):
            for qf in ((0, 1), (1, 0), (1, 1)):
                for mq in (0, 1):
                    for star in (0, 1):
                        dflags = (fl + (1, 1), mt, qf + (0, 0, 1, 1), mq, star)
                        for seq in seqs:
                            cases.append(((dflags, (0, 0, 0), (0, 0, 0), 0, list(seq)), "exh"))
    # (b) sampled: all flags of both properties, setter / deleter / preparer pools, sentinels,
    #     ill-typed values, raising getters
    n = 3600 if quick else 40000
    maxlen = 5 if quick else 8
    for i in range(n):
        def six():
            return tuple(rng.randrange(2) for _ in range(4)) + (0 if rng.random() < 0.05 else 1, 0 if rng.random() < 0.3 else 1)
        ct = FLAGS16[i % 16] + six()[4:]
        mt, mq, star = rng.randrange(2), rng.randrange(2), rng.randrange(2)
        dflags = (ct, mt, six(), mq, star)
        tids = (rng.randrange(2), rng.randrange(2), rng.randrange(4) if mt else 0)
        qids = (rng.randrange(2), rng.randrange(2), rng.randrange(4) if mq else 0)
        ln = maxlen if rng.random() < 0.7 else rng.randint(1, maxlen)
        ops = [full_dop(rng) for _ in range(ln)]
        cases.append(((dflags, tids, qids, rng.choice(NORMAL_X + FULL_X), ops), "rand"))
    return cases


def full_cop(rng):
    r = rng.random()
    k = rng.randrange(3)
    if r < 0.22:
        return ("ReadC", k)
    if r < 0.42:
        return ("ReadI", k)
    if r < 0.62:
        return ("Assign", k, pick_value(rng))
    if r < 0.80:
        return ("Delete", k)
    return ("Poke", k, rng.choice(FULL_X) if rng.random() < 0.5 else rng.choice(NORMAL_X))


def gen_cp(rng, tier):
    quick = tier == "quick"
    cases = []
    core = ([("ReadC", k) for k in range(3)] + [("ReadI", k) for k in range(3)]
            + [("Assign", 0, ("N",)), ("Assign", 1, ("I", 0)), ("Assign", 2, ("I", 12))]   # None, falsy 0, truthy
            + [("Delete", k) for k in range(3)]
            + [("Poke", 0, 4), ("Poke", 1, 7)])                                          # B (and C below B): getter returns None
    flags32 = list(itertools.product((0, 1), repeat=5))
    # (a) all 32 flag combinations x both hierarchy shapes: every sequence of length 2
    #     over 14 operations on the three classes (thorough adds a third of the length-3 ones)
    L = 2 if quick else 3
    for fl in flags32:
        for shape in (0, 1):
            seqs = list(itertools.product(core, repeat=L))
            if not quick:  # every third length-3 sequence (random phase); all length-2 ones are covered in quick
                seqs = seqs[rng.randrange(3)::3] + list(itertools.product(core, repeat=2))
            for seq in seqs:
                cases.append(((fl + (1, 1), shape, 0, 0, 0, list(seq)), "exh"))
    # (a') round G (seeded change C12-G2): NO getter (`classproperty(None, ...)`, a pure class-level
    #     override / setter slot): all 32 flag combinations x both shapes x {assign through one class,
    #     [delete through one,] read through every class and instance}; a stored override must be
    #     served although there is no getter, per hierarchy or per subclass
    assigns = [("Assign", 0, ("I", 0)), ("Assign", 1, ("N",)), ("Assign", 2, ("I", 12))]
    reads = [("ReadC", k) for k in range(3)] + [("ReadI", k) for k in range(3)]
    nog = [[a, r] for a in assigns for r in reads]
    nog += [[a, ("Delete", k), r] for a in assigns for k in range(3) for r in (("ReadC", a[1]), ("ReadI", (a[1] + 1) % 3))]
    nog += [[a, b, r] for a in assigns for b in assigns if a[1] != b[1] for r in (("ReadC", a[1]), ("ReadI", b[1]))]
    if not quick:
        nog += [[r0, a, ("Poke", 1, 7), r] for r0 in reads[:2] for a in assigns for r in reads]
    for fl in flags32:
        for shape in (0, 1):
            for seq in nog:
                cases.append(((fl + (0, 1), shape, 0, 0, 0, list(seq)), "nogetter"))
    # (b) sampled longer sequences with pools
    n = 8000 if quick else 50000
    maxlen = 4 if quick else 7
    for i in range(n):
        fl = flags32[i % 32]
        ccfg = fl + (0 if rng.random() < 0.06 else 1, 0 if rng.random() < 0.3 else 1)
        ln = maxlen if rng.random() < 0.7 else rng.randint(1, maxlen)
        ops = [full_cop(rng) for _ in range(ln)]
        cases.append(((ccfg, (i // 32) % 2, rng.randrange(2), rng.randrange(2), rng.choice(NORMAL_X + FULL_X), ops), "rand"))
    return cases


# ------------------------------------------------------------------ line coverage of the anchored functions
def anchored_coverage(sp_cases, cp_cases):
    """re-run a sample of the compared cases under sys.settrace and report which lines of the
    descriptor methods were executed (the others are modelled but not tied in this run)"""
    import sys
    import spec_classes  # noqa: F401
    mod = sys.modules["spec_classes.types.spec_property"]  # (the package attribute of that name is the class)
    fname = mod.__file__
    hit = set()

    def tracer(frame, event, arg):
        if frame.f_code.co_filename != fname:
            return None
        if event == "line":
            hit.add(frame.f_lineno)
        return tracer

    sys.settrace(tracer)
    try:
        for c in sp_cases:
            run_sp(c)
        for c in cp_cases:
            run_cp(c)
    finally:
        sys.settrace(None)
    report = {}
    for cls in (mod.spec_property, mod.classproperty):
        for name in ("__get__", "__set__", "__delete__", "_cache_key"):
            fn = cls.__dict__.get(name)
            if fn is None:
                continue
            code = fn.__code__
            lines = sorted({ln for _, _, ln in code.co_lines() if ln is not None and ln != code.co_firstlineno})
            missed = [ln for ln in lines if ln not in hit]
            report[f"{cls.__name__}.{name}"] = {"lines": len(lines), "executed": len(lines) - len(missed),
                                                "not_executed": missed}
    return report


# ------------------------------------------------------------------ check
# kind -> (run on the implementation, encoder, Coq checker, Coq case type)
KINDS = {"sp": (run_sp, c_case_sp, "check_sp", "case"),
         "spo": (run_spo, c_case_sp, "check_sp_own", "case"),
         "dp": (run_dp, c_case_dp, "check_dp", "dcase"),
         "cp": (run_cp, c_case_cp, "check_cp", "ccase")}
KIND_NAME = {"sp": "spec_property", "spo": "spec_property (backing value stored under the property's own name)",
             "dp": "spec_property pair (trigger t + dependant q)", "cp": "classproperty"}
SP_FLAGS = ["overridable", "cache", "setter", "deleter", "fget", "allow_attribute_error"]


def evaluate(kind, cases, tag):
    """kind 'sp' | 'spo' | 'dp' | 'cp'; cases: list of case tuples. returns ([(index, code, seen)], logs)"""
    run, enc, fn, ty = KINDS[kind]
    terms, seens = [], []
    for c in cases:
        seen = run(c)
        seens.append(seen)
        terms.append(enc(c, seen))
    bad, logs = coq_eval("C12", PRELUDE, fn, terms, shard=1500, tag=f"{tag}{kind}", case_type=ty)
    return [(i, code, seens[i]) for i, code in bad], logs


def shrink(kind, case, code):
    cur = case
    for _ in range(10):
        ops = cur[-1]
        cands = [cur[:-1] + (ops[:j] + ops[j + 1:],) for j in range(len(ops))]
        cands = [c for c in cands if c[-1]]
        if not cands:
            break
        bad, _ = evaluate(kind, cands, "s")
        hit = [i for i, c, _ in bad if c == code]
        if not hit:
            break
        cur = cands[min(hit)]
    return cur


def flags_of(kind, case):
    if kind == "dp":
        ct, mt, cq, mq, star = case[0]
        d = {"t_" + n: bool(b) for n, b in zip(SP_FLAGS, ct)}
        d.update({"q_" + n: bool(b) for n, b in zip(SP_FLAGS, cq)})
        d.update(t_managed=bool(mt), q_managed=bool(mq), q_invalidated_by="*" if star else ["t"])
        return d
    names = (SP_FLAGS if kind in ("sp", "spo")
             else ["overridable", "cache", "cache_per_subclass", "setter", "deleter", "fget", "allow_attribute_error"])
    return {n: bool(b) for n, b in zip(names, case[0])}


LAYOUT = {"sp": "[outcome, value, __dict__['p'] (-1 absent), x, _p, getter calls]",
          "spo": "[outcome, value, __dict__['p'] (-1 absent; here the backing field of getter / setter / deleter), x, _p, getter calls]",
          "dp": "[outcome, value, __dict__['t'] (-1 absent), __dict__['q'], x, _p, getter calls]",
          "cp": "[outcome, value, _cache[None], _cache[A], _cache[B], _cache[C], own x of A,B,C, own _p of A,B,C, getter calls]"}


def describe(kind, case, code, seen):
    d = {"kind": kind, "flags": flags_of(kind, case), "case": case, "observed": seen, "code": code,
         "meaning": {1: "model and implementation differ; the two-slot specification still accepts the run",
                     2: "the implementation's run is not a run of the two-slot specification"}.get(code, "?"),
         "observation_layout": LAYOUT[kind],
         "replay": "bin/check C12 --replay <this file>"}
    if kind in ("sp", "spo"):
        d.update(owner=case[1], setter_id=case[2], deleter_id=case[3], preparer_id=case[4], x0=case[5], ops=case[6])
    elif kind == "dp":
        d.update(owner="spec class with properties t and q", t_setter_deleter_preparer_ids=case[1],
                 q_setter_deleter_preparer_ids=case[2], x0=case[3], ops=case[4])
    else:
        d.update(shape=case[1], setter_id=case[2], deleter_id=case[3], x0=case[4], ops=case[5])
    return d


def tup(x):
    return tuple(tup(y) for y in x) if isinstance(x, list) else x


def case_from_json(kind, c):
    c = list(c)
    c[0] = tup(list(c[0]))
    if kind == "dp":
        c[1], c[2] = tuple(c[1]), tuple(c[2])
    c[-1] = [tup(o) for o in c[-1]]
    return tuple(c)


def main(tier, replay=None):
    chk = Check("C12", tier)
    if replay:
        r = json.load(open(replay))
        if r.get("kind") not in KINDS:
            print("replay: not a concrete case:", r.get("what", "")[:300])
            return 1
        case = case_from_json(r["kind"], r["case"])
        bad, logs = evaluate(r["kind"], [case], "r")
        print("replay:", "still failing code=%s" % bad[0][1] if bad else "passes now", logs)
        print("observed now:", KINDS[r["kind"]][0](case))
        return 1 if bad else 0
    chk.proofs()
    stats = {}
    all_cases = {"sp": gen_sp(chk.rng, tier), "cp": gen_cp(chk.rng, tier),
                 "spo": gen_spo(chk.rng, tier), "dp": gen_dp(chk.rng, tier)}
    reported = set()
    total_bad = 0
    for kind in ("sp", "cp", "spo", "dp"):
        cases = [c for c, _ in all_cases[kind]]
        bad, logs = evaluate(kind, cases, "c")
        total_bad += len(bad)
        def rejected_first(b):
            # two-property cases: show a REJECTED operation on the trigger that changed something first
            if kind != "dp":
                return 0
            ct = cases[b[0]][0][0]
            return 0 if (not ct[0] and not ct[2] and any(o[0] == "TAssign" and row[0] == ERR_CODES["AttrErr"]
                                                         for o, row in zip(cases[b[0]][-1], b[2]))) else 1

        for i, code, seen in sorted(bad, key=lambda b: (-b[1], rejected_first(b), len(cases[b[0]][-1])))[:30]:
            small = shrink(kind, cases[i], code)
            fl = flags_of(kind, small)
            last = small[-1][-1][0]
            sig = {"kind": kind, "op": last, "code": code, **{k: v for k, v in fl.items()},
                   "owner": small[1] if kind in ("sp", "spo") else "spec" if kind == "dp" else "plain"}
            skey = json.dumps(sig, sort_keys=True)
            if skey in reported:
                continue
            reported.add(skey)
            seen2 = KINDS[kind][0](small)
            where = ("owner=" + small[1] if kind in ("sp", "spo") else "shape=" + str(small[1]) if kind == "cp"
                     else "owner=spec class")
            what = (f"{KIND_NAME[kind]} "
                    f"{'violates the two-slot protocol' if code == 2 else 'differs from the model'}: "
                    f"flags={fl} {where} ops={small[-1]}")
            chk.violation(what, describe(kind, small, code, seen2), sig=sig, no_input=(code != 2))
        for lg in logs:
            chk.violation("correspondence evaluation failed: " + lg[-500:], {"kind": "coq-eval", "log": lg}, no_input=True)
        # statistics
        ops_hist, out_hist, len_hist, gen_hist, owner_hist = {}, {}, {}, {}, {}
        for (c, g) in all_cases[kind]:
            gen_hist[g] = gen_hist.get(g, 0) + 1
            len_hist[len(c[-1])] = len_hist.get(len(c[-1]), 0) + 1
            for o in c[-1]:
                ops_hist[o[0]] = ops_hist.get(o[0], 0) + 1
            if kind in ("sp", "spo"):
                owner_hist[c[1]] = owner_hist.get(c[1], 0) + 1
        stats[kind] = {"cases": len(cases), "operations": sum(len(c[-1]) for c in cases), "disagreements": len(bad),
                       "by_generator": gen_hist, "op_histogram": ops_hist, "length_histogram": len_hist,
                       "owner_histogram": owner_hist,
                       "flag_combinations": len({c[0] for c in cases})}
    # outcome histogram from a sample re-run (cheap)
    outs = {}
    for kind, run in (("sp", run_sp), ("cp", run_cp), ("spo", run_spo), ("dp", run_dp)):
        cs = [c for c, _ in all_cases[kind]]
        for c in cs[:: max(1, len(cs) // 4000)]:
            for o in run(c):
                k = {1: "value", 0: "none"}.get(o[0]) or [n for n, v in ERR_CODES.items() if v == o[0]][0]
                outs[f"{kind}:{k}"] = outs.get(f"{kind}:{k}", 0) + 1
    sp_all, cp_all = [c for c, _ in all_cases["sp"]], [c for c, _ in all_cases["cp"]]
    line_cov = anchored_coverage(sp_all[:: max(1, len(sp_all) // 1500)] + sp_all[-1500:],
                                 cp_all[:: max(1, len(cp_all) // 1500)] + cp_all[-1500:])
    n_cases = sum(s["cases"] for s in stats.values())
    distinct = len({repr(c) for k in all_cases for c, _ in all_cases[k]})
    sp, cp = [c for c, _ in all_cases["sp"]], [c for c, _ in all_cases["cp"]]
    extra = {
        "correspondence": {"spec_property": stats["sp"], "classproperty": stats["cp"],
                           "spec_property_own_name_backing": stats["spo"], "spec_property_trigger_and_dependant": stats["dp"],
                           "outcome_histogram_sampled": outs, "disagreements": total_bad,
                           "anchored_line_coverage_sampled": line_cov},
        "evaluations": n_cases, "distinct_nontrivial": distinct,
        "rule": "case = (flags, owner kind / hierarchy shape, setter/deleter/preparer pool ids, initial state, operation list); "
                "spec_property: 16 flag combinations x {plain, spec unmanaged, managed, managed+preparer} x EVERY sequence of "
                "length 4 (quick) / 5 (thorough) over {read, assign v, delete, two state changes} where v and the getter results include None "
                "(plain/unmanaged: assign None, x=7 makes the getter return None), the falsy int 0 (managed) and a truthy value "
                "(managed+preparer; plain/unmanaged one step shorter) plus sampled sequences of length <= 4 / <= 7 "
                "over the full pools (5 owner kinds incl. invalidated_by, fget absent, allow_attribute_error, None / 0 / '' / [] as overrides, getter results and private-field values, sentinels, ill-typed values, "
                "raising getter/setter/deleter/preparer); classproperty: 32 flag combinations x 2 hierarchy shapes x every sequence of "
                "length 2 (quick; thorough adds every third sequence of length 3) over 14 operations on three classes (assignments of None, 0 and 12; a state change that makes the getter return None) plus sampled sequences of length <= 4 / <= 7; "
                "own-name backing (overridable=False, cache=False, custom setter / deleter / getter keep the value in instance.__dict__ under the property's own name): "
                "8 owner/alphabet kinds x deleter present or not x every sequence of length 3 / 4 (two / three kinds one step longer) plus sampled sequences over the full pools; "
                "trigger + dependant (two spec_properties t, q on one spec-class instance, q invalidated_by=['t'] or '*'): 16 trigger flag combinations x managed or not x "
                "dependant cache / overridable / both x managed or not x ['t'] / '*' x 14 sequences (fill q by read or assignment; assign / delete / read t, sentinel, x; read q) "
                "plus sampled sequences of length <= 5 / <= 8 over all flags and pools of both properties; "
                "owner layouts (round G): the descriptor defined on a plain mix-in / on a parent spec class that does not manage it, managed (annotation + preparer) "
                "only by the spec subclass whose instance is used (also: instance of a spec / plain subclass of the managing class, mix-in below a managing parent): "
                "16 flag combinations x 6 layout/preparer kinds x every sequence of length 3 / 4 plus 3 000 / 30 000 sampled over all owner kinds x 5 layouts and the full pools; "
                "classproperty without a getter: 32 flag combinations x 2 shapes x 48 sequences (assign through one class [, delete / second assignment], read through classes and instances); "
                "distinct = distinct case tuples; "
                "every case has >= 1 operation; after EVERY operation outcome, stored entry, underlying state and getter call count are compared",
        "samples": [dict(kind="sp", case=sp[0]), dict(kind="sp", case=sp[-1]), dict(kind="cp", case=cp[0]), dict(kind="cp", case=cp[-1]),
                    dict(kind="spo", case=all_cases["spo"][0][0]), dict(kind="dp", case=all_cases["dp"][-1][0])],
        "exhaustive": False,
    }
    return chk.finish(
        trusted_base=["Coq 8.16.1 kernel and vm_compute", "no axioms (Print Assumptions: closed under the global context)",
                      "hand-written models coq/Desc/SpecPropModel.v, coq/Desc/ClassPropModel.v (incl. the spec-class __setattr__/__delattr__/__getattr__ "
                      "and mutate_attr / prepare_attr_value behaviour around the descriptor) tied to /repo by this run's correspondence",
                      "harness/c12.py class factories and encoders; concrete pools in coq/Corr/SpecPropCorr.v"],
        assumptions=["a custom setter / deleter replaces the default assignment / deletion (as for builtin property); the default clauses of the property apply without them",
                     "deletion drops override and cache together ('cached since the last deletion')",
                     "on a spec class assigning a sentinel is 'no assignment'; an ill-typed value is rejected with TypeError before the descriptor is reached",
                     "owner is not frozen; dependants (properties listing the property in invalidated_by, or '*') are covered for one trigger and one dependant; "
                     "a custom setter that stores under the property's own name is covered for overridable=False, cache=False (with an override or a cache possible the entry's meaning is ambiguous)"],
        extra=extra)
