"""C18 — Alias / DeprecatedAlias: correspondence of coq/Desc/AliasModel.v with
spec_classes/types/alias.py, and the property oracle (coq/Desc/AliasSpec.v:step_okb)
evaluated on the implementation's own observations.

A case = (host class kind, alias configuration, initial instance tree, operations).
The implementation is run on real classes (plain classes and spec classes on which
the alias is an annotated, managed attribute); after every operation the outcome,
the warnings recorded by warnings.catch_warnings(record=True) and the __dict__ tree
of every live instance are written out as Coq terms and judged by
Corr/AliasCorr.v:check_case under vm_compute.

The path PARSER (Alias.ATTR_PARSER / _attr_path) is not modelled: the model is fed the
parsed path.  What the library parsed out of each generated path string is compared
here with the harness's own split ("validated, not proved")."""
import copy
import itertools
import json
import typing
import warnings

from common import Check, cbool, clist, copt, coq_eval, cz, outcome_class

PRELUDE = """From Coq Require Import List ZArith Bool.
From SC Require Import Base.Res Desc.AliasBase Desc.AliasModel Desc.AliasSpec Corr.Enc Corr.AliasCorr.
Import ListNotations.
Open Scope Z_scope.
Set Printing Width 1000000.
"""

ATTR = {0: "a", 1: "b", 2: "x", 3: "c", 5: "y", 6: "z"}
ATTR_ID = {v: k for k, v in ATTR.items()}
KEYS = {0: "k", 1: "l", 2: "k.l", 3: 'q"r', 4: "it's", 5: "", 6: "]["}
KEY_ID = {v: k for k, v in KEYS.items()}
INT_ATTRS = [2]            # `x: int` on spec classes; the others are `Any`
TRANSFORMS = {None: None, "FInc": lambda v: v + 1, "FNeg": lambda v: -v, "FSeven": lambda v: 7}


# transforms handed to transform_<a>(g) (AliasModel.v:hfn / apply_hfn).  HPush and HPushOne
# WRITE INTO their argument: harmless when the helper hands them a protected copy, a change of
# the original instance when it hands them the live object (seed C18-E1).
HFNS = ["HId", "HPush", "HPushOne", "HWrap", "HInc", "HSeven"]
HELPER_KINDS = ("WithAlias", "WithTarget", "TransformAlias", "UpdateAlias", "ResetAlias",
                "TransformTarget", "UpdateTarget", "ResetTarget")
COPY_KINDS = ("DeepCopy",) + HELPER_KINDS
# round G: top-level `o.update(**{n: v})` IS `with_<n>(v)` (copy) / `o.<n> = v` (in place): executed as
# the top-level call, handed to the Coq oracle as XWithAlias / XWithTarget / WrAlias / WrTarget
TOP_KINDS = ("TopUpdAlias", "TopUpdTarget")
TOP_IN = {"UpdAliasIn": "WrAlias", "UpdTargetIn": "WrTarget"}


# ------------------------------------------------------------------ trees <-> Python / Coq / JSON
# tree: ("n",) | ("i", z) | ("s", z) | ("I", [(attr id, tree)...]) | ("D", [(key id, tree)...])
#       | ("T", [tree...]) tuple | ("F", [tree...]) frozenset, elements in canonical (repr) order
def c_val(t):
    k = t[0]
    if k == "n":
        return "VNone"
    if k == "i":
        return f"(VInt {cz(t[1])})"
    if k == "s":
        return f"(VStr {cz(t[1])})"
    if k == "T":
        return "(VTuple " + clist(list(enumerate(t[1])), lambda p: f"({p[0]}, {c_val(p[1])})") + ")"
    if k == "F":
        return "(VFrozen " + clist(t[1], lambda e: f"(0, {c_val(e)})") + ")"
    body = clist(t[1], lambda p: f"({cz(p[0])}, {c_val(p[1])})")
    return f"({'VInst' if k == 'I' else 'VDict'} {body})"


def frozen(elems):
    """canonical frozenset tree"""
    return ("F", sorted(elems, key=repr))


def tree_from_json(j):
    if j[0] in ("T", "F"):
        return (j[0], [tree_from_json(e) for e in j[1]])
    if j[0] in ("I", "D"):
        return (j[0], [(p[0], tree_from_json(p[1])) for p in j[1]])
    return tuple(j)


def override_name(alias_id):
    return f"__spec_classes_Alias_{ATTR[alias_id]}_override"


PROXY = {"built": 0, "bad": []}


class World:
    """The classes of one case: a host class carrying the alias and a node class for
    the objects below it."""

    def __init__(self, host, cfg):
        from spec_classes import Alias, DeprecatedAlias, spec_class
        self.host, self.cfg = host, cfg
        self.alias_name = ATTR[cfg["name"]]
        self.path_str = render_path(cfg["path"], cfg.get("quotes", 0))
        kw = {}
        if cfg["tr"] is not None:
            kw["transform"] = TRANSFORMS[cfg["tr"]]
        if cfg["fb"] is not None:
            self.fallback = self.build(cfg["fb"], node_cls=None)
            kw["fallback"] = self.fallback
        else:
            self.fallback = None
        with warnings.catch_warnings(record=True) as rec:
            warnings.simplefilter("always")
            if cfg["dep"]:
                self.descr = DeprecatedAlias(self.path_str, passthrough=cfg["pt"], **kw)
            elif cfg.get("proxy"):
                # attr_proxy.py: AttrProxy is Alias plus one DeprecationWarning at construction
                from spec_classes import AttrProxy
                self.descr = AttrProxy(self.path_str, passthrough=cfg["pt"], **kw)
                PROXY["built"] += 1
                if len([w for w in rec if issubclass(w.category, DeprecationWarning)]) != 1 \
                        or not isinstance(self.descr, Alias):
                    PROXY["bad"].append(self.path_str)
            else:
                self.descr = Alias(self.path_str, passthrough=cfg["pt"], **kw)
        ann = {n: (int if i in host["int"] else typing.Any) for i, n in ATTR.items() if i not in (5, 6)}
        if host["spec"]:
            self.Node = spec_class(type("Node", (), {"__annotations__": dict(ann)}))
            hann = dict(ann)
            hann[self.alias_name] = int if cfg["name"] in host["int"] else typing.Any
            sub = host.get("sub", 0)
            if not sub:
                ns = {"__annotations__": hann, self.alias_name: self.descr}
                self.Host = spec_class(type("Host", (), ns))
            else:
                # round G: the host is a spec SUBCLASS (sub=1) / sub-subclass (sub=2) that INHERITS
                # the alias (and, unless listed in host["own"], the other attributes) from a parent
                # spec class; every operation goes through the child
                own = [ATTR[i] for i in host.get("own", [])]
                pann = {k: v for k, v in hann.items() if k not in own}
                cls = spec_class(type("Parent", (), {"__annotations__": pann, self.alias_name: self.descr}))
                if sub == 2:
                    cls = spec_class(type("Mid", (cls,), {"__annotations__": {}}))
                self.Host = spec_class(type("Host", (cls,), {"__annotations__": {k: hann[k] for k in own}}))
        else:
            self.Node = type("Node", (), {})
            if cfg["bound"]:
                self.Host = type("Host", (), {self.alias_name: self.descr})
            else:
                self.Host = type("Host", (), {})
                setattr(self.Host, self.alias_name, self.descr)   # __set_name__ does not run
        self.keep = []          # keeps every object ever seen alive (ids stay unique)
        self.known = set()      # ids of mutable objects that existed before the current read
        if self.fallback is not None:
            self.note(self.fallback)

    # -- construction
    def build(self, t, node_cls="node", root=False):
        k = t[0]
        if k == "n":
            return None
        if k == "i":
            return t[1]
        if k == "s":
            return f"s{t[1]}"
        if k == "D":
            return {KEYS[a]: self.build(v, node_cls) for a, v in t[1]}
        if k == "T":
            return tuple(self.build(v, node_cls) for v in t[1])
        if k == "F":
            return frozenset(self.build(v, node_cls) for v in t[1])
        if node_cls is None:       # fallback values are built before the classes exist
            o = _Bag()
        else:
            o = (self.Host if root else self.Node)()
        d = object.__getattribute__(o, "__dict__")
        for a, v in t[1]:
            d[override_name(-a - 1) if a < 0 else ATTR[a]] = self.build(v, node_cls)
        return o

    # -- observation
    def tree(self, o):
        if o is None:
            return ("n",)
        if isinstance(o, bool):
            return ("s", -98)
        if isinstance(o, int):
            return ("i", o)
        if isinstance(o, str):
            return ("s", int(o[1:])) if o[:1] == "s" and o[1:].lstrip("-").isdigit() else ("s", -97)
        if isinstance(o, dict):
            return ("D", [(KEY_ID.get(k, 99), self.tree(v)) for k, v in o.items()])
        if isinstance(o, tuple):
            return ("T", [self.tree(v) for v in o])
        if isinstance(o, frozenset):
            return frozen([self.tree(v) for v in o])
        if isinstance(o, (self.Host, self.Node, _Bag)):
            out = []
            for k, v in object.__getattribute__(o, "__dict__").items():
                if k in ATTR_ID:
                    out.append((ATTR_ID[k], self.tree(v)))
                elif k.startswith("__spec_classes_Alias_") and k.endswith("_override") and k[21:-9] in ATTR_ID:
                    out.append((-ATTR_ID[k[21:-9]] - 1, self.tree(v)))
                else:
                    out.append((98, ("s", -96)))
            return ("I", out)
        return ("s", -95)

    def mutable_ids(self, o, acc=None, objs=None):
        acc = set() if acc is None else acc
        if isinstance(o, dict):
            if id(o) not in acc:
                acc.add(id(o))
                if objs is not None:
                    objs.append(o)
                for v in o.values():
                    self.mutable_ids(v, acc, objs)
        elif isinstance(o, (self.Host, self.Node, _Bag)):
            if id(o) not in acc:
                acc.add(id(o))
                if objs is not None:
                    objs.append(o)
                for v in object.__getattribute__(o, "__dict__").values():
                    self.mutable_ids(v, acc, objs)
        elif isinstance(o, (tuple, frozenset)):
            # immutable containers: not objects of interest themselves, but what they hold is
            for v in o:
                self.mutable_ids(v, acc, objs)
        elif isinstance(o, (list, set)):
            if id(o) not in acc:
                acc.add(id(o))
                if objs is not None:
                    objs.append(o)
                for v in o:
                    self.mutable_ids(v, acc, objs)
        return acc

    def note(self, o):
        # every mutable object ever seen stays alive, so that an id is never reused
        self.known |= self.mutable_ids(o, None, self.keep)

    def classify(self, r):
        """outcome of a read: the descriptor, an existing object / immutable value, or a
        value holding mutable objects NONE of which (at any depth, also inside tuples and
        frozensets) existed before"""
        if r is self.descr:
            return ("ODescr",)
        ids = self.mutable_ids(r)
        kind = "OFresh" if ids and not (ids & self.known) else "OVal"
        t = self.tree(r)
        self.note(r)
        return (kind, t)

    def hfn(self, g):
        """the callable for transform_<a>(g); every argument it receives is kept alive"""
        def poke(v):
            if isinstance(v, dict):
                v[KEYS[1]] = 99
            elif isinstance(v, (self.Host, self.Node, _Bag)):
                object.__getattribute__(v, "__dict__")[ATTR[3]] = 99
            else:
                raise TypeError("nothing to write into")

        def f(v):
            self.keep.append(v)
            if g == "HId":
                return v
            if g == "HPush":
                poke(v)
                return v
            if g == "HPushOne":
                poke(v)
                return 1
            if g == "HWrap":
                return {KEYS[0]: v}
            if g == "HInc":
                return v + 1
            if g == "HSeven":
                return 7
            raise AssertionError(g)
        return f

    def walk(self, o, path):
        for s in path:
            o = getattr(o, ATTR[s[1]]) if s[0] == "A" else o[KEYS[s[1]]]
        return o

    def apply(self, roots, op):
        """execute one operation on the implementation; returns the outcome"""
        kind = op[0]
        path = self.cfg["path"]
        y = self.alias_name
        if kind == "On":
            o, sub = roots[op[1]], op[2]
            k = sub[0]
            if k == "RdAlias":
                return self.classify(getattr(o, y))
            if k == "WrAlias":
                v = self.build(sub[1]); self.note(v)
                setattr(o, y, v); return ("ONone",)
            if k in TOP_IN:
                v = self.build(sub[1]); self.note(v)
                r = o.update(_inplace=True, **{(y if k == "UpdAliasIn" else ATTR[path[0][1]]): v})
                return ("ONone",) if r is o else ("OVal", ("s", -87))
            if k == "DelAlias":
                delattr(o, y); return ("ONone",)
            if k == "RdClass":
                return self.classify(getattr(self.Host, y))
            if k == "RdTarget":
                r = self.walk(o, path)
                return ("OVal", self.tree(r))
            parent = self.walk(o, path[:-1])
            last = path[-1]
            if k == "WrTarget":
                v = self.build(sub[1]); self.note(v)
                if last[0] == "A":
                    setattr(parent, ATTR[last[1]], v)
                else:
                    parent[KEYS[last[1]]] = v
                return ("ONone",)
            if k == "DelTarget":
                if last[0] == "A":
                    delattr(parent, ATTR[last[1]])
                else:
                    del parent[KEYS[last[1]]]
                return ("ONone",)
        if kind in COPY_KINDS or kind in TOP_KINDS:
            prior = set()
            for r in roots:
                self.mutable_ids(r, prior)
            if kind == "DeepCopy":
                n = copy.deepcopy(roots[op[1]])
            elif kind in TOP_KINDS:
                v = self.build(op[2]); self.note(v)
                n = roots[op[1]].update(**{(y if kind == "TopUpdAlias" else ATTR[path[0][1]]): v})
                if n is roots[op[1]]:
                    return ("OVal", ("s", -88))
            else:
                from spec_classes import MISSING
                attr = y if kind.endswith("Alias") else ATTR[path[0][1]]
                verb = {"With": "with_", "Tran": "transform_", "Upda": "update_", "Rese": "reset_"}[kind[:4]]
                helper = getattr(roots[op[1]], verb + attr)
                if verb == "reset_":
                    n = helper()
                elif verb == "transform_":
                    n = helper(self.hfn(op[2]))
                elif op[2] is None:          # update_<a>(MISSING): keep the current value
                    n = helper(MISSING)
                else:
                    v = self.build(op[2]); self.note(v)
                    n = helper(v)
                if n is roots[op[1]]:
                    # a copy-on-write helper that hands back the instance it was called on
                    return ("OVal", ("s", -88))
            shared = self.mutable_ids(n) & prior
            roots.append(n); self.note(n)
            # a copy that shares a mutable object (e.g. the local override, or something inside
            # a tuple) with an earlier instance is reported as an outcome the machine never has
            return ("ONone",) if not shared else ("OVal", ("s", -90))
        raise AssertionError(op)


class _Bag:
    """instances inside fallback values"""


# ------------------------------------------------------------------ path strings (parser: validated, not proved)
def quote_key(k, style):
    if style % 2 == 0:
        return '["' + k.replace("\\", "\\\\").replace('"', '\\"') + '"]'
    return "['" + k.replace("\\", "\\\\").replace("'", "\\'") + "']"


def render_path(path, quotes=0):
    out = ""
    for i, s in enumerate(path):
        if s[0] == "A":
            out += ("." if i else "") + ATTR[s[1]]
        else:
            out += quote_key(KEYS[s[1]], quotes + i)
    return out


def expected_parse(path, quotes=0):
    return [ATTR[s[1]] if s[0] == "A" else quote_key(KEYS[s[1]], quotes + i) for i, s in enumerate(path)]


INVALID_PATHS = ["a.", ".b", "c[]", "c[[", "c.['d']", "a..b", "a b", "a['k'", "['k'].", "a.['k']", "a-b"]


def parser_check(paths):
    """compare the library's parse of every generated path string with our own split"""
    import ast
    from spec_classes import Alias
    bad, n = [], 0
    for path, q in paths:
        s = render_path(path, q)
        n += 1
        try:
            got = list(Alias(s)._attr_path)
        except Exception as e:
            got = repr(e)
        want = expected_parse(path, q)
        ok = got == want
        if ok:   # and the literal of every ["key"] element evaluates to the key
            for g, st in zip(got, path):
                if st[0] == "I" and ast.literal_eval(g[1:-1]) != KEYS[st[1]]:
                    ok = False
        if not ok:
            bad.append({"path": s, "steps": [list(x) for x in path], "quotes": q, "library": got, "expected": want})
    for s in INVALID_PATHS:
        n += 1
        try:
            Alias(s)
            bad.append({"path": s, "library": "accepted", "expected": "ValueError"})
        except ValueError:
            pass
        except Exception as e:
            bad.append({"path": s, "library": repr(e), "expected": "ValueError"})
    return n, bad


# ------------------------------------------------------------------ Coq terms
def c_step(s):
    return f"{'SAttr' if s[0] == 'A' else 'SItem'} {cz(s[1])}"


def c_cfg(cfg):
    return (f"(mkcfg {clist(cfg['path'], c_step)} {cbool(cfg['pt'])} {copt(cfg['tr'])} {copt(cfg['fb'], c_val)} "
            f"{cz(cfg['name'])} {cbool(cfg['bound'])} {cbool(cfg['dep'])})")


def c_op(o):
    if o[0] == "WrAlias" or o[0] == "WrTarget":
        return f"{o[0]} {c_val(o[1])}"
    if o[0] in TOP_IN:
        return f"{TOP_IN[o[0]]} {c_val(o[1])}"
    return o[0]


def c_xop(o):
    if o[0] == "On":
        return f"XOn {o[1]} ({c_op(o[2])})"
    if o[0] == "DeepCopy":
        return f"XDeepCopy {o[1]}"
    if o[0] in TOP_KINDS:
        return f"X{'WithAlias' if o[0] == 'TopUpdAlias' else 'WithTarget'} {o[1]} {c_val(o[2])}"
    if o[0].startswith("Reset"):
        return f"X{o[0]} {o[1]}"
    if o[0].startswith("Transform"):
        return f"X{o[0]} {o[1]} {o[2]}"
    if o[0].startswith("Update"):
        return f"X{o[0]} {o[1]} {copt(o[2], c_val)}"
    return f"X{o[0]} {o[1]} {c_val(o[2])}"


def c_out(out):
    if out[0] == "Err":
        return f"Err {out[1]}"
    if out[0] in ("ONone", "ODescr"):
        return f"Ok {out[0]}"
    return f"Ok ({out[0]} {c_val(out[1])})"


def c_case(host, cfg, init, ops, seen):
    obs = clist(seen, lambda o: f"({c_out(o[0])}, {cz(o[1])}, {clist(o[2], c_val)})")
    return (f"mkcase (mkhost {cbool(host['spec'])} {clist(host['int'], cz)}) {c_cfg(cfg)} {c_val(init)} "
            f"{clist(ops, c_xop)} {obs}")


# ------------------------------------------------------------------ generation
PATH_SHAPES = [
    [("A", 2)],                                   # plain:  x
    [("A", 0)],                                   # plain, untyped: a
    [("A", 0), ("A", 2)],                         # dotted: a.x
    [("A", 0), ("A", 1), ("A", 2)],               # dotted: a.b.x
    [("A", 0), ("I", 0)],                         # item:   a["k"]
    [("A", 1), ("I", 1), ("I", 0)],               # item:   b["l"]["k"]
    [("A", 0), ("I", 0), ("A", 2)],               # mixed:  a["k"].x
    [("A", 0), ("A", 1), ("I", 0)],               # mixed:  a.b["k"]
    [("I", 0)],                                   # ["k"] on the instance itself (not subscriptable)
    [("A", 0), ("A", 0), ("A", 0), ("I", 1), ("A", 1)],   # long: a.a.a["l"].b
]
EXTRA_KEYS = [2, 3, 4, 5, 6]


def random_path(rng, maxlen):
    n = rng.randint(1, maxlen)
    p = []
    for i in range(n):
        if rng.random() < 0.6:
            p.append(("A", rng.choice([0, 1, 2, 3])))
        else:
            p.append(("I", rng.choice([0, 1] if rng.random() < 0.7 else EXTRA_KEYS)))
    if p[0] == ("A", 5):
        p[0] = ("A", 0)
    return p


SCALARS = [("i", 1), ("i", 2), ("i", -3), ("s", 1), ("n",)]


def rand_scalar(rng):
    return rng.choice(SCALARS) if rng.random() < 0.8 else ("i", rng.randint(-50, 50))


def rand_val(rng, mutable_ok=True, depth=0):
    """a value to assign / to find at the target: scalars, dicts, instances, and tuples /
    frozensets (immutable containers that may hold mutable objects, at any depth)"""
    r = rng.random()
    if not mutable_ok:
        if r < 0.85 or depth:
            return rand_scalar(rng)
        return ("T", [rand_scalar(rng) for _ in range(rng.randint(0, 2))])
    if r < 0.45:
        return rand_scalar(rng)
    if r < 0.62:
        return ("D", [(rng.choice([0, 1]), rng.choice(SCALARS))] if rng.random() < 0.8 else [])
    if r < 0.75:
        return ("I", [(rng.choice([0, 1, 2]), rng.choice(SCALARS))])
    if r < 0.93 and depth < 2:
        return ("T", [rand_val(rng, True, depth + 1) for _ in range(rng.randint(1, 3))])
    # frozenset elements must be hashable: scalars and tuples of scalars
    n = rng.randint(0, 2)
    elems = {repr(e): e for e in (rand_val(rng, False) for _ in range(n))}
    return frozen(list(elems.values()))


# fallbacks: None = no fallback; immutable ones; mutable ones; immutable containers holding
# mutable objects (a tuple of only immutable values may legitimately come back as itself)
FALLBACKS = [None, None, None, ("i", 0), ("n",), ("D", [(0, ("i", 1))]), ("D", [(1, ("D", []))]),
             ("I", [(0, ("D", []))]),
             ("T", [("D", [(0, ("i", 1))])]),                       # ({"k": 1},)
             ("T", [("i", 1), ("T", [("I", [(0, ("i", 2))])])]),     # (1, (obj,))
             ("T", [("i", 1), ("s", 1)]),                            # (1, "s1"): nothing mutable inside
             ("T", []),
             ("F", [("I", [(0, ("i", 1))])]),                        # frozenset({obj})
             ("F", [("T", [("i", 1), ("I", [])]), ("i", 2)]),        # frozenset({2, (1, obj)})
             ("F", [("i", 1), ("i", 2)])]
FALLBACKS = [f if f is None or f[0] != "F" else frozen(f[1]) for f in FALLBACKS]


def happy_tree(rng, path, present=True, leaf=None):
    """a tree in which the path can be followed; other slots hold unrelated values"""
    leaf = leaf if leaf is not None else ("i", rng.randint(3, 40))

    def mk(i):
        s = path[i]
        last = i == len(path) - 1
        below = leaf if last else mk(i + 1)
        ents = []
        if not last or present:
            ents.append((s[1], below))
        # an unrelated neighbour
        if rng.random() < 0.6:
            other = [k for k in ([0, 1, 2, 3] if s[0] == "A" else [0, 1]) if k != s[1]]
            ents.insert(rng.randint(0, len(ents)), (rng.choice(other), rng.choice(SCALARS)))
        return ("I" if s[0] == "A" else "D", ents)
    t = mk(0)
    if t[0] != "I":     # the root is always an instance
        t = ("I", [(3, ("i", 9))])
    return t


def perturb(rng, tree, path):
    """break the path somewhere: drop an intermediate or replace it by the wrong kind"""
    if len(path) < 1:
        return tree
    cut = rng.randrange(len(path))
    repl = rng.choice([None, ("i", 5), ("n",), ("D", []), ("I", []), ("s", 2)])

    def go(t, i):
        if t[0] not in ("I", "D"):
            return t
        s = path[i]
        ents = []
        for k, v in t[1]:
            if k == s[1] and ((t[0] == "I") == (s[0] == "A")):
                if i == cut:
                    if repl is not None:
                        ents.append((k, repl))
                else:
                    ents.append((k, go(v, i + 1) if i + 1 < len(path) else v))
            else:
                ents.append((k, v))
        return (t[0], ents)
    return go(tree, 0)


def gen_config(rng, tier, i):
    spec = i % 2 == 1
    path = rng.choice(PATH_SHAPES) if rng.random() < 0.8 else random_path(rng, 4 if tier == "quick" else 6)
    name = rng.choice([5, 6])
    typed_alias = spec and rng.random() < 0.6
    host = {"spec": spec, "int": sorted(INT_ATTRS + ([name] if typed_alias else []))}
    sub_host(host, path, i // 2)        # no rng draw: the case stream of earlier rounds is unchanged
    fb = rng.choice(FALLBACKS)
    cfg = {"path": path, "pt": rng.random() < 0.5, "tr": rng.choice([None, None, "FInc", "FNeg", "FSeven"]),
           "fb": fb, "name": name, "bound": True, "dep": rng.random() < 0.4, "quotes": rng.randrange(2)}
    if not spec and rng.random() < 0.04:
        cfg["bound"] = False
    if rng.random() < 0.02:
        cfg["path"] = []
    if not cfg["dep"] and rng.random() < 0.1:
        cfg["proxy"] = True
    return host, cfg


def sub_host(host, path, j):
    """round G: every second spec host is a spec SUBCLASS that inherits the alias from a parent
    spec class (sub=1; every fourth: two levels, sub=2); host["own"] = attributes declared on the
    child instead of the parent (nothing / c / b and c / the first attribute of the path, i.e. the
    target is the child's own attribute and only the alias is inherited)."""
    if not host["spec"]:
        return host
    sub = {1: 1, 3: 2}.get(j % 4, 0)
    if sub:
        host["sub"] = sub
        first = [path[0][1]] if path and path[0][0] == "A" else []
        host["own"] = [[], [3], [1, 3], first][(j // 4) % 4]
    return host


def gen_init(rng, host, cfg):
    path = cfg["path"]
    if not path:
        return ("I", [(0, ("i", 1))])
    r = rng.random()
    leaf = None
    if rng.random() < 0.3:
        leaf = rand_val(rng)
    t = happy_tree(rng, path, present=r < 0.7, leaf=leaf)
    if rng.random() < 0.3:
        t = perturb(rng, t, path)
    if t[0] != "I":
        t = ("I", [])
    t = no_empty_dict_in_typed_slot(t, host, cfg)
    if not cfg["pt"] and rng.random() < 0.2:      # starts out shadowed
        t = ("I", t[1] + [(-cfg["name"] - 1, rng.choice(SCALARS))])
    return t


def no_empty_dict_in_typed_slot(t, host, cfg):
    """An `int`-annotated target that holds {} is the one start state from which a passthrough
    helper would assign an EMPTY dict to an `int` attribute of a spec class — which spec-classes
    reads as constructor arguments (int() == 0; C05 territory, see docs/C18.md).  Such a slot
    starts out holding 0 instead."""
    if not slot_typed(host, cfg):
        return t

    def go(n, i):
        if n[0] not in ("I", "D"):
            return n
        s = cfg["path"][i]
        ents = []
        for k, v in n[1]:
            if k == s[1] and ((n[0] == "I") == (s[0] == "A")):
                if i == len(cfg["path"]) - 1:
                    v = ("i", 0) if v == ("D", []) else v
                else:
                    v = go(v, i + 1)
            ents.append((k, v))
        return (n[0], ents)
    return go(t, 0)


def slot_typed(host, cfg):
    p = cfg["path"]
    return bool(host["spec"] and p and p[-1][0] == "A" and p[-1][1] in host["int"])


def gen_ops(rng, host, cfg, maxlen):
    n = rng.randint(1, maxlen)
    ops, nroots = [], 1
    alias_typed = host["spec"] and cfg["name"] in host["int"]
    tgt_typed = slot_typed(host, cfg)
    for _ in range(n):
        i = rng.randrange(nroots)
        kinds = ["RdAlias"] * 4 + ["WrAlias"] * 3 + ["DelAlias"] * 2 + ["RdClass"]
        if cfg["path"]:
            kinds += ["RdTarget"] * 2 + ["WrTarget"] * 2 + ["DelTarget"] * 2
        kinds += ["DeepCopy"]
        if host["spec"]:
            kinds += ["WithAlias"] * 2
            if cfg["path"]:
                # (an empty path makes the alias read the HOST itself, which is not a tree, and
                # the repr in the helper's TypeError message reads the alias once more)
                kinds += ["TransformAlias"] * 3 + ["UpdateAlias", "ResetAlias"]
            if len(cfg["path"]) == 1 and cfg["path"][0][0] == "A":
                kinds += ["WithTarget"] * 2 + ["TransformTarget"] * 2 + ["UpdateTarget", "ResetTarget"]
        k = rng.choice(kinds)
        if k.startswith("Update") and rng.random() < 0.5:
            ops.append((k, i, None))        # update_<a>(MISSING)
            nroots += 1
            continue
        # a dict handed to an `int` attribute of a spec class is read as constructor
        # arguments by spec-classes (int(**{}) == 0): not an assignment of that value
        if k in ("WrAlias", "WithAlias", "UpdateAlias"):
            v = rand_val(rng, mutable_ok=not (alias_typed or (cfg["pt"] and tgt_typed)))
            ops.append(("On", i, (k, v)) if k == "WrAlias" else (k, i, v))
        elif k in ("WrTarget", "WithTarget", "UpdateTarget"):
            v = rand_val(rng, mutable_ok=not tgt_typed)
            ops.append(("On", i, (k, v)) if k == "WrTarget" else (k, i, v))
        elif k in ("TransformAlias", "TransformTarget"):
            ops.append((k, i, rng.choice(HFNS)))
        elif k in ("DeepCopy", "ResetAlias", "ResetTarget"):
            ops.append((k, i))
        else:
            ops.append(("On", i, (k,)))
        if k in COPY_KINDS:
            nroots += 1     # may not materialise when the helper raises; indices are re-clamped at run time
    return ops


EXH_OPS = [("RdAlias",), ("WrAlias", ("i", 1)), ("DelAlias",), ("RdTarget",), ("WrTarget", ("i", 2)),
           ("DelTarget",), "COPY"]


def exhaustive_cases(rng, tier):
    """every sequence of length 3 (quick) / 4 (thorough) over
    {read/write/delete alias, read/write/delete target, copy} for a seeded choice of
    core configurations; an operation after a copy acts on the newest instance.
    (Judged after every operation, so all shorter sequences are covered as prefixes.)"""
    quick = tier == "quick"
    length = 3 if quick else 4
    shapes = [PATH_SHAPES[0], PATH_SHAPES[2], PATH_SHAPES[4], PATH_SHAPES[6], PATH_SHAPES[7]]
    core = []
    for spec in (False, True):
        for pt in (False, True):
            for tr in (None, "FInc"):
                for fb in (None, ("i", 0), ("D", [(0, ("i", 1))]), ("T", [("D", [(0, ("i", 1))])])):
                    for dep in (False, True):
                        for path in shapes:
                            core.append((spec, pt, tr, fb, dep, path))
    rng.shuffle(core)
    chosen = core[:20 if quick else 40]
    out = []
    for ci, (spec, pt, tr, fb, dep, path) in enumerate(chosen):
        host = {"spec": spec, "int": sorted(INT_ATTRS + ([5] if spec else []))}
        sub_host(host, path, ci)
        cfg = {"path": path, "pt": pt, "tr": tr, "fb": fb, "name": 5, "bound": True, "dep": dep, "quotes": 0}
        init = happy_tree(rng, path, present=rng.random() < 0.75)
        r = rng.random()
        copy_op = "DeepCopy" if not spec or r < 0.3 else "WithAlias" if r < 0.65 else "TransformAlias"
        copy_arg = {"DeepCopy": (), "WithAlias": (("i", 3),), "TransformAlias": (rng.choice(HFNS),)}[copy_op]
        for seq in itertools.product(EXH_OPS, repeat=length):
            ops, cur, n = [], 0, 1
            for o in seq:
                if o == "COPY":
                    ops.append((copy_op, cur) + copy_arg)
                    cur, n = n, n + 1        # run_impl redirects to instance 0 when the helper raised
                else:
                    ops.append(("On", cur, o))
            out.append((host, cfg, init, ops))
    return out, len(chosen), length


MUTABLE_LEAVES = [("D", [(0, ("i", 1))]), ("D", []), ("I", [(0, ("i", 2))]), ("I", []),
                  ("D", [(1, ("D", [(0, ("i", 4))]))]),                 # {"l": {"k": 4}}
                  ("T", [("D", [(0, ("i", 1))]), ("i", 2)]),            # ({"k": 1}, 2)
                  ("I", [(1, ("I", [(2, ("i", 5))]))])]                 # obj.b = obj(x=5)


def helper_cases(rng, tier):
    """Copy-on-write helpers of a spec class on the alias (and on the target attribute when the
    path is one attribute), aimed at what a helper READS before it writes: the current value —
    the live target seen through the alias, a local override, a fallback copy — is a mutable
    object in most cases, the callables of the pool write into / hand back / wrap what they are
    given, and the helper is followed by reads and writes on either instance.  Judged like every
    other case: the original must be what it was, the copy must be the machine's next state and
    share nothing with any earlier instance."""
    n = 2500 if tier == "quick" else 20000
    shapes = [PATH_SHAPES[1], PATH_SHAPES[1], PATH_SHAPES[0], PATH_SHAPES[2], PATH_SHAPES[4],
              PATH_SHAPES[6], PATH_SHAPES[7], [("A", 0), ("A", 1)], [("A", 1), ("I", 1), ("I", 0)]]
    out = []
    for ci in range(n):
        path = rng.choice(shapes)
        name = rng.choice([5, 6])
        typed_alias = rng.random() < 0.2
        host = {"spec": True, "int": sorted(INT_ATTRS + ([name] if typed_alias else []))}
        sub_host(host, path, ci)
        cfg = {"path": path, "pt": rng.random() < 0.4, "tr": rng.choice([None, None, None, "FInc", "FSeven"]),
               "fb": rng.choice([None, None, ("i", 0), ("D", [(0, ("i", 1))]), ("T", [("D", [(0, ("i", 1))])])]),
               "name": name, "bound": True, "dep": rng.random() < 0.3, "quotes": 0}
        tgt_typed = slot_typed(host, cfg)
        r = rng.random()
        leaf = rng.choice(MUTABLE_LEAVES) if r < 0.6 and not tgt_typed else rand_val(rng, mutable_ok=not tgt_typed)
        init = happy_tree(rng, path, present=rng.random() < 0.85, leaf=leaf)
        if rng.random() < 0.1:
            init = perturb(rng, init, path)
        if init[0] != "I":
            init = ("I", [])
        init = no_empty_dict_in_typed_slot(init, host, cfg)
        if not cfg["pt"] and rng.random() < 0.25:      # starts out shadowed, mostly by a mutable object
            ov = rng.choice(MUTABLE_LEAVES) if not typed_alias and rng.random() < 0.7 else rng.choice(SCALARS)
            init = ("I", init[1] + [(-name - 1, ov)])
        one_attr = len(path) == 1 and path[0][0] == "A"
        ops = []
        pre = rng.random()
        if pre < 0.15 and not (typed_alias or (cfg["pt"] and tgt_typed)):
            ops.append(("On", 0, ("WrAlias", rng.choice(MUTABLE_LEAVES))))
        elif pre < 0.25 and not tgt_typed:
            ops.append(("On", 0, ("WrTarget", rng.choice(MUTABLE_LEAVES))))
        elif pre < 0.3:
            ops.append(("On", 0, ("DelTarget",)))
        elif pre < 0.35:
            ops.append(("On", 0, ("RdAlias",)))
        nroots = 1
        for _ in range(1 if rng.random() < 0.7 else 2):
            on_target = one_attr and rng.random() < 0.3
            sfx = "Target" if on_target else "Alias"
            ok_mut = not (tgt_typed if on_target else (typed_alias or (cfg["pt"] and tgt_typed)))
            k = rng.random()
            i = rng.randrange(nroots)
            if k < 0.7:
                ops.append(("Transform" + sfx, i, rng.choice(HFNS[:4] * 2 + HFNS)))
            elif k < 0.8:
                ops.append(("Update" + sfx, i, None))
            elif k < 0.87:
                ops.append(("Update" + sfx, i, rand_val(rng, mutable_ok=ok_mut)))
            elif k < 0.94:
                ops.append(("Reset" + sfx, i))
            else:
                ops.append(("With" + sfx, i, rand_val(rng, mutable_ok=ok_mut)))
            nroots += 1
        post = rng.random()
        j = rng.randrange(nroots)
        if post < 0.2:
            ops.append(("On", j, ("RdAlias",)))
        elif post < 0.3:
            ops.append(("On", j, ("RdTarget",)))
        elif post < 0.4:
            ops.append(("On", j, ("DelAlias",)))
        elif post < 0.5 and not tgt_typed:
            ops.append(("On", j, ("WrTarget", rng.choice(MUTABLE_LEAVES + SCALARS))))
        out.append((host, cfg, init, ops))
    return out


# ------------------------------------------------------------------ round G: constructor keywords and top-level helpers
# IMPLEMENTATION-LEVEL PROBE (not a Coq evaluation).  Oracle = the reference semantics of the
# property, stated through the elementary operations that the Coq-judged blocks above tie to the
# two-variable reference machine:
#   Host(**kw)                      ==  a bare instance, then `o.<k> = v` for every keyword
#                                       (parent-owned attributes first, then declaration order)
#   o.update(**{n: v})              ==  copy.deepcopy(o), then `c.<n> = v`
#   o.transform(**{n: g})           ==  copy.deepcopy(o), then `c.<n> = g(c.<n>)`
#   o.reset()                       ==  copy.deepcopy(o), then `del c.<n>` for every managed attribute
#                                       (AttributeError of an attribute that is not there ignored)
#   ..._inplace=True                ==  the same on `o` itself, which is also what is returned
# Both sides run on the tree under test; after every operation the outcome, the `__dict__` tree of
# every live instance, and what the alias and the target read as on every live instance must agree,
# a copy variant must hand back a new instance that shares no mutable object with an earlier one,
# an in-place variant the instance itself.
TL_KINDS = ("Ctor", "Reset", "Update", "Transform")
HFNS_TYPED = ["HId", "HPush", "HPushOne", "HInc", "HSeven"]    # no dict for an `int` attribute (C05 territory)


def _canon(t):
    """__dict__ order of the ROOT is not compared (a constructor assigns in declaration order)"""
    return ("I", sorted(t[1], key=lambda p: p[0])) if t[0] == "I" else t


def ctor_order(Host, names):
    meta = Host.__spec_class__
    owners = [c for c in reversed(Host.mro())
              if getattr(c, "__spec_class__", None) is not None and c.__spec_class__.owner is c]
    pos = list(meta.attrs)
    return sorted(names, key=lambda n: (owners.index(meta.attrs[n].owner), pos.index(n)))


class Probe:
    def __init__(self, case):
        self.host, self.cfg, self.init, self.ops = case
        self.w = World(self.host, self.cfg)
        self.y = self.w.alias_name

    def name_of(self, which):
        return self.y if which == "alias" else ATTR[which]

    def view(self, o):
        """what the alias and the target read as (value tree or error class)"""
        out = []
        for rd in (lambda: getattr(o, self.y), lambda: self.w.walk(o, self.cfg["path"])):
            try:
                out.append(("v", self.w.tree(rd())))
            except Exception as e:
                out.append(("e", outcome_class(e)))
        return out

    def impl(self, roots, op):
        w, k = self.w, op[0]
        if k == "On":
            return w.apply(roots, op)
        prior = set()
        for r in roots:
            w.mutable_ids(r, prior)
        if k == "Ctor":
            kw = {}
            for which, t in op[1]:
                kw[self.name_of(which)] = w.build(t)
            n = w.Host(**kw)
            inplace, src = False, None
        else:
            src, inplace = roots[op[1]], op[2]
            if k == "Reset":
                n = src.reset(_inplace=inplace)
            elif k == "Update":
                n = src.update(_inplace=inplace, **{self.name_of(op[3]): w.build(op[4])})
            else:
                n = src.transform(_inplace=inplace, **{self.name_of(op[3]): w.hfn(op[4])})
        if inplace:
            return ("ONone",) if n is src else ("OVal", ("s", -87))       # must hand back the instance itself
        if n is src:
            return ("OVal", ("s", -88))                                     # a copy variant handing back `self`
        shared = w.mutable_ids(n) & prior
        roots.append(n)
        return ("ONone",) if not shared else ("OVal", ("s", -90))

    def ref(self, roots, op):
        w, k = self.w, op[0]
        if k == "On":
            return w.apply(roots, op)
        if k == "Ctor":
            c = w.build(("I", []), root=True)
            vals = {self.name_of(which): w.build(t) for which, t in op[1]}
            for nme in ctor_order(w.Host, list(vals)):
                setattr(c, nme, vals[nme])
            roots.append(c)
            return ("ONone",)
        src, inplace = roots[op[1]], op[2]
        c = src if inplace else copy.deepcopy(src)
        if k == "Reset":
            for nme in list(w.Host.__spec_class__.attrs):
                try:
                    delattr(c, nme)
                except AttributeError:
                    pass
        elif k == "Update":
            setattr(c, self.name_of(op[3]), w.build(op[4]))
        else:
            # the callable sees what `c.<n>` reads as on the instance being changed (the copy's own
            # live object: a callable that writes into its argument may change the COPY's target,
            # never an earlier instance); the caller made sure this read succeeds
            setattr(c, self.name_of(op[3]), w.hfn(op[4])(getattr(c, self.name_of(op[3]))))
        if not inplace:
            roots.append(c)
        return ("ONone",)

    def run(self):
        """-> (operations executed, first disagreement or None)"""
        w = self.w
        A, B = [w.build(self.init, root=True)], [w.build(self.init, root=True)]
        done = []
        for op in self.ops:
            if op[0] != "Ctor" and op[1] >= len(B):
                op = (op[0], 0) + tuple(op[2:])
            if op[0] == "Transform":
                try:     # the start value of a transform whose read fails is C05's business (MISSING -> type())
                    getattr(B[op[1]], self.name_of(op[3]))
                except Exception:
                    continue
            done.append(op)
            res = []
            for side, roots in ((self.impl, A), (self.ref, B)):
                n0 = len(roots)
                with warnings.catch_warnings():
                    warnings.simplefilter("ignore")
                    try:
                        out = side(roots, op)
                    except BaseException as e:
                        if isinstance(e, (KeyboardInterrupt, SystemExit, AssertionError)):
                            raise
                        out = ("Err", outcome_class(e))
                        del roots[n0:]
                    if out[0] == "OFresh":      # freshness of a read is judged by the Coq blocks, not here
                        out = ("OVal", out[1])
                    res.append((out, [_canon(w.tree(r)) for r in roots], [self.view(r) for r in roots]))
            if res[0] != res[1]:
                what = ("outcome" if res[0][0] != res[1][0] else "instance trees" if res[0][1] != res[1][1]
                        else "alias / target reads")
                return done, {"after_operation": len(done) - 1, "differs_in": what,
                              "implementation": res[0], "reference_semantics": res[1]}
        return done, None


def toplevel_cases(rng, tier):
    """cases for the probe: spec hosts (half of them subclasses inheriting the alias), a path the
    constructor / top-level helpers can reach, operations = constructor with alias / target /
    other keywords, top-level reset / update / transform (copy and in place) on alias and target,
    mixed with the elementary reads, writes and deletes."""
    n = 2000 if tier == "quick" else 20000
    shapes = [PATH_SHAPES[0]] * 3 + [PATH_SHAPES[1]] * 3 + [PATH_SHAPES[2], PATH_SHAPES[4], PATH_SHAPES[6],
                                                            [("A", 0), ("A", 1)]]
    out = []
    for ci in range(n):
        path = rng.choice(shapes)
        name = rng.choice([5, 6])
        typed_alias = rng.random() < 0.3
        host = {"spec": True, "int": sorted(INT_ATTRS + ([name] if typed_alias else []))}
        if ci % 3:
            host["sub"] = 1 if ci % 3 == 1 else 2
            host["own"] = rng.choice([[], [3], [1, 3], [path[0][1]]])
        cfg = {"path": path, "pt": rng.random() < 0.4, "tr": rng.choice([None, None, "FInc", "FNeg"]),
               "fb": rng.choice([None, None, ("i", 0), ("D", [(0, ("i", 1))])]),
               "name": name, "bound": True, "dep": rng.random() < 0.2, "quotes": 0}
        tgt_typed = slot_typed(host, cfg)
        root_typed = path[0][1] in host["int"]              # the host attribute the path starts at
        init = happy_tree(rng, path, present=rng.random() < 0.8,
                          leaf=rand_val(rng, mutable_ok=not tgt_typed) if rng.random() < 0.4 else None)
        init = no_empty_dict_in_typed_slot(init, host, cfg)
        if not cfg["pt"] and rng.random() < 0.3:
            init = ("I", init[1] + [(-name - 1, rng.choice(SCALARS if typed_alias else SCALARS + MUTABLE_LEAVES))])
        alias_mut = not (typed_alias or (cfg["pt"] and tgt_typed))

        def alias_val():
            return rand_val(rng, mutable_ok=alias_mut)

        def root_val():
            """a value for the host attribute the path starts at: something the rest of the path can be followed in"""
            if len(path) == 1:
                return rand_val(rng, mutable_ok=not root_typed)
            sub = happy_tree(rng, path[1:], present=rng.random() < 0.8)
            return sub if rng.random() < 0.85 else rand_val(rng, mutable_ok=not root_typed)

        def ctor():
            kw = []
            r = rng.random()
            if r < 0.75:
                kw.append((path[0][1], root_val()))
            if rng.random() < 0.8:
                kw.append(("alias", alias_val()))
            if rng.random() < 0.3:
                o = rng.choice([k for k in (0, 1, 3) if k != path[0][1]])
                kw.append((o, rng.choice(SCALARS)))
            rng.shuffle(kw)
            return ("Ctor", kw)

        ops, nroots = [], 1
        style = rng.random()
        if style < 0.4:                      # construction, then look / override / delete / helper
            ops.append(ctor()); nroots += 1
            cur = 1
        else:
            cur = 0
            if rng.random() < 0.6:
                ops.append(("On", 0, ("WrAlias", alias_val())))
        for _ in range(rng.randint(1, 3)):
            r = rng.random()
            inplace = rng.random() < 0.4
            which = "alias" if rng.random() < 0.7 else path[0][1]
            if r < 0.35:
                ops.append(("Reset", cur, inplace))
            elif r < 0.5:
                ops.append(("Update", cur, inplace, which, alias_val() if which == "alias" else root_val()))
            elif r < 0.65:
                typed = (typed_alias or (cfg["pt"] and tgt_typed)) if which == "alias" else root_typed
                ops.append(("Transform", cur, inplace, which, rng.choice(HFNS_TYPED if typed else HFNS)))
            elif r < 0.72:
                ops.append(ctor())
            else:
                sub = rng.choice([("RdAlias",), ("WrAlias", alias_val()), ("DelAlias",), ("DelTarget",),
                                  ("WrTarget", rand_val(rng, mutable_ok=not tgt_typed))])
                ops.append(("On", cur, sub))
                continue
            if ops[-1][0] == "Ctor" or not inplace:
                nroots += 1
                if rng.random() < 0.7:
                    cur = nroots - 1         # (re-clamped at run time when the helper raised)
        # afterwards: change the target and so the live view, or drop the override
        if rng.random() < 0.5:
            ops.append(("On", cur, rng.choice([("WrTarget", rand_val(rng, mutable_ok=not tgt_typed)), ("DelAlias",)])))
        out.append((host, cfg, init, ops))
    return out


def run_toplevel(cases):
    """-> (operations executed, histogram, [(case index, executed ops, disagreement)])"""
    nops, hist, bad = 0, {}, []
    for i, case in enumerate(cases):
        done, diff = Probe(case).run()
        nops += len(done)
        for o in done:
            k = (o[0] + ("_inplace" if o[0] in ("Reset", "Update", "Transform") and o[2] else "")) if o[0] != "On" else o[2][0]
            hist[k] = hist.get(k, 0) + 1
        if diff is not None:
            bad.append((i, done, diff))
    return nops, hist, bad


def shrink_toplevel(case, done):
    """drop operations while the probe still disagrees"""
    host, cfg, init, _ = case
    cur = list(done)
    changed = True
    while changed:
        changed = False
        for j in range(len(cur)):
            cand = cur[:j] + cur[j + 1:]
            if cand and Probe((host, cfg, init, cand)).run()[1] is not None:
                cur, changed = cand, True
                break
    d2, diff = Probe((host, cfg, init, cur)).run()
    return (host, cfg, init, d2), diff


def tl_from_json(r):
    cfg = dict(r["cfg"])
    cfg["path"] = [tuple(s) for s in cfg["path"]]
    cfg["fb"] = tree_from_json(cfg["fb"]) if cfg["fb"] is not None else None

    def op(o):
        if o[0] == "On":
            sub = o[2]
            return ("On", o[1], (sub[0], tree_from_json(sub[1])) if len(sub) > 1 else (sub[0],))
        if o[0] == "Ctor":
            return ("Ctor", [(k, tree_from_json(t)) for k, t in o[1]])
        if o[0] == "Update":
            return (o[0], o[1], o[2], o[3], tree_from_json(o[4]))
        return tuple(o)
    return (r["host"], cfg, tree_from_json(r["init"]), [op(o) for o in r["ops"]])


def topupdate_cases(rng, tier):
    """round G, Coq-judged: top-level update(**{alias: v}) / update(**{target: v}), copy and in place,
    on spec hosts (every second one a subclass inheriting the alias), surrounded by reads / writes /
    deletes; the oracle reads them as with_<n>(v) / `o.<n> = v`."""
    n = 1200 if tier == "quick" else 10000
    shapes = [PATH_SHAPES[0], PATH_SHAPES[1], PATH_SHAPES[1], PATH_SHAPES[2], PATH_SHAPES[4], PATH_SHAPES[6]]
    out = []
    for ci in range(n):
        path = rng.choice(shapes)
        name = rng.choice([5, 6])
        typed_alias = rng.random() < 0.3
        host = {"spec": True, "int": sorted(INT_ATTRS + ([name] if typed_alias else []))}
        sub_host(host, path, ci)
        cfg = {"path": path, "pt": rng.random() < 0.4, "tr": rng.choice([None, None, "FInc", "FNeg"]),
               "fb": rng.choice([None, None, ("i", 0), ("D", [(0, ("i", 1))])]),
               "name": name, "bound": True, "dep": rng.random() < 0.3, "quotes": 0}
        tgt_typed = slot_typed(host, cfg)
        init = happy_tree(rng, path, present=rng.random() < 0.8)
        if not cfg["pt"] and rng.random() < 0.25:
            init = ("I", init[1] + [(-name - 1, rng.choice(SCALARS))])
        one_attr = len(path) == 1
        alias_mut = not (typed_alias or (cfg["pt"] and tgt_typed))
        ops, nroots = [], 1
        for _ in range(rng.randint(1, 4)):
            i = rng.randrange(nroots)
            r = rng.random()
            on_target = one_attr and rng.random() < 0.3
            v = rand_val(rng, mutable_ok=(not tgt_typed) if on_target else alias_mut)
            if r < 0.3:
                ops.append(("TopUpdTarget" if on_target else "TopUpdAlias", i, v))
                nroots += 1
            elif r < 0.55:
                ops.append(("On", i, ("UpdTargetIn" if on_target else "UpdAliasIn", v)))
            else:
                ops.append(("On", i, rng.choice([("RdAlias",), ("RdTarget",), ("DelAlias",), ("DelTarget",),
                                                  ("WrTarget", rand_val(rng, mutable_ok=not tgt_typed))])))
        out.append((host, cfg, init, ops))
    return out


def generate(rng, tier):
    quick = tier == "quick"
    n = 10000 if quick else 100000
    maxlen = 4 if quick else 7
    cases = []
    for i in range(n):
        host, cfg = gen_config(rng, tier, i)
        init = gen_init(rng, host, cfg)
        ops = gen_ops(rng, host, cfg, maxlen)
        cases.append((host, cfg, init, ops))
    return cases


def run_impl(case):
    """run the implementation; operations that address an instance that does not exist
    (a helper raised, so no copy was made) are redirected to instance 0"""
    host, cfg, init, ops = case
    try:
        w = World(host, cfg)
    except ValueError as e:
        if "Invalid attribute path" in str(e):
            return None, None       # the parser rejected a well-formed path: reported by parser_check
        raise
    roots = [w.build(init, root=True)]
    w.note(roots[0])
    seen, done = [], []
    for op in ops:
        if op[1] >= len(roots):
            op = (op[0], 0) + tuple(op[2:])
        done.append(op)
        with warnings.catch_warnings(record=True) as rec:
            warnings.simplefilter("always")
            try:
                out = w.apply(roots, op)
            except BaseException as e:
                if isinstance(e, (KeyboardInterrupt, SystemExit, AssertionError)):
                    raise
                out = ("Err", outcome_class(e))
            nw = len([x for x in rec if issubclass(x.category, DeprecationWarning)])
        seen.append((out, nw, [w.tree(r) for r in roots]))
    return done, seen


class Stats:
    def __init__(self):
        self.ophist, self.errhist, self.lenhist, self.cfghist, self.shapes = {}, {}, {}, {}, {}
        self.distinct = set()
        self.unparsed = self.operations = self.warn_ops = 0

    def add(self, case, ops, seen):
        host, cfg, init, _ = case
        if ops is None:
            self.unparsed += 1
            return
        import hashlib
        self.distinct.add(hashlib.sha1(json.dumps([host, cfg, init, ops], sort_keys=True, default=str).encode()).digest()[:10])
        self.operations += len(ops)
        self.lenhist[len(ops)] = self.lenhist.get(len(ops), 0) + 1
        key = (f"{'spec' if host['spec'] else 'plain'}/pt={int(cfg['pt'])}/tr={cfg['tr']}/"
               f"fb={'none' if cfg['fb'] is None else cfg['fb'][0]}/dep={int(cfg['dep'])}")
        self.cfghist[key] = self.cfghist.get(key, 0) + 1
        sh = "".join(s[0] for s in cfg["path"]) or "empty"
        self.shapes[sh] = self.shapes.get(sh, 0) + 1
        for o, s in zip(ops, seen):
            k = op_kind(o)
            self.ophist[k] = self.ophist.get(k, 0) + 1
            e = s[0][1] if s[0][0] == "Err" else ("fresh" if s[0][0] == "OFresh" else "ok")
            self.errhist[e] = self.errhist.get(e, 0) + 1
            if s[1]:
                self.warn_ops += 1


def evaluate(cases, tag="c", stats=None, batch=20000):
    """run the implementation and judge every case in Coq; batches keep memory flat"""
    bad, logs = [], []
    for b0 in range(0, len(cases), batch):
        terms, index = [], []
        for i in range(b0, min(b0 + batch, len(cases))):
            case = cases[i]
            ops, seen = run_impl(case)
            if stats is not None:
                stats.add(case, ops, seen)
            if ops is None:
                continue
            index.append(i)
            terms.append(c_case(case[0], case[1], case[2], ops, seen))
        b, lg = coq_eval("C18", PRELUDE, "check_case", terms, shard=250, tag=f"{tag}{b0 // batch}", case_type="case")
        bad += [(index[j], code) for j, code in b]
        logs += lg
    return bad, logs


def shrink(case, code):
    host, cfg, init, ops = case
    cur = (host, cfg, init, list(ops))
    for _ in range(10):
        cands = []
        for j in range(len(cur[3])):
            rest = cur[3][:j] + cur[3][j + 1:]
            if rest:
                cands.append((host, cfg, init, rest))
        if cur[1]["tr"] is not None:
            cands.append((host, dict(cur[1], tr=None), init, cur[3]))
        if cur[1]["dep"]:
            cands.append((host, dict(cur[1], dep=False), init, cur[3]))
        if not cands:
            break
        bad, _ = evaluate(cands, tag="s")
        hit = [i for i, c in bad if c == code]
        if not hit:
            break
        cur = cands[min(hit)]
        host, cfg, init = cur[0], cur[1], cur[2]
    return cur


def to_json(case, code=None, runs=None):
    host, cfg, init, ops = case
    d = {"host": host, "cfg": cfg, "path_string": render_path(cfg["path"], cfg.get("quotes", 0)),
         "init": init, "ops": ops, "replay": "bin/check C18 --replay <this file>"}
    if code is not None:
        d["code"] = code
        d["meaning"] = {1: "model and implementation differ; the reference machine still accepts the run",
                        2: "the implementation's run is not a run of the two-variable reference machine "
                           "(or changed something other than the location it may change)"}.get(code, "?")
    if runs is not None:
        d["observed"] = runs
    return d


def from_json(r):
    cfg = dict(r["cfg"])
    cfg["path"] = [tuple(s) for s in cfg["path"]]
    cfg["fb"] = tree_from_json(cfg["fb"]) if cfg["fb"] is not None else None

    def op(o):
        if o[0] == "On":
            sub = o[2]
            return ("On", o[1], (sub[0], tree_from_json(sub[1])) if len(sub) > 1 else (sub[0],))
        if o[0] == "DeepCopy" or o[0].startswith("Reset"):
            return (o[0], o[1])
        if o[0].startswith("Transform") or o[2] is None:
            return (o[0], o[1], o[2])
        return (o[0], o[1], tree_from_json(o[2]))
    return (r["host"], cfg, tree_from_json(r["init"]), [op(o) for o in r["ops"]])


def op_kind(o):
    return o[2][0] if o[0] == "On" else o[0]


def main(tier, replay=None):
    chk = Check("C18", tier)
    if replay:
        r = json.load(open(replay))
        if r.get("kind") == "parser":
            if "steps" in r:
                n, bad = parser_check([([tuple(s) for s in r["steps"]], r.get("quotes", 0))])
            else:       # a malformed string that must be rejected
                n, bad = parser_check([])
                bad = [b for b in bad if b["path"] == r["path"]]
            print("replay (parser):", bad or "passes now")
            return 1 if bad else 0
        if r.get("kind") == "toplevel":
            done, diff = Probe(tl_from_json(r)).run()
            print("replay (constructor / top-level helper probe):", diff or "passes now")
            return 1 if diff else 0
        case = from_json(r)
        bad, logs = evaluate([case], tag="r")
        print("replay:", "still failing code=%s" % bad[0][1] if bad else "passes now", logs)
        print("observed now:", run_impl(case)[1])
        return 1 if bad or logs else 0
    chk.proofs()
    cases = generate(chk.rng, tier)
    exh, exh_cfgs, exh_len = exhaustive_cases(chk.rng, tier)
    helpers = helper_cases(chk.rng, tier)
    tl = toplevel_cases(chk.rng, tier)          # round G probe (run below)
    topupd = topupdate_cases(chk.rng, tier)     # round G, Coq-judged
    cases = exh + helpers + cases + topupd
    # corpus of minimised past failures first
    import os
    cdir = os.path.join(os.path.dirname(os.path.dirname(os.path.abspath(__file__))), "corpus", "C18")
    corpus = []
    if os.path.isdir(cdir):
        for f in sorted(os.listdir(cdir)):
            if f.endswith(".json"):
                corpus.append(from_json(json.load(open(os.path.join(cdir, f)))))
    cases = corpus + cases
    st = Stats()
    bad, logs = evaluate(cases, stats=st)
    # round G: constructor keywords and top-level helpers (implementation-level probe)
    tl_ops, tl_hist, tl_bad = run_toplevel(tl)
    tl_seen = set()
    for i, done, diff in tl_bad:
        k = done[diff["after_operation"]]
        tsig = (op_kind(k) if k[0] == "On" else k[0], tl[i][0].get("sub", 0) > 0, tl[i][1]["pt"])
        if tsig in tl_seen or len(tl_seen) >= 4:
            continue
        tl_seen.add(tsig)
        small, d2 = shrink_toplevel(tl[i], done)
        d2 = d2 or diff
        chk.violation(f"Alias on a spec class: {tsig[0]} does not act like the assignments / deletions it stands for "
                      f"({d2['differs_in']} differ): host={small[0]} cfg={small[1]} init={small[2]} ops={small[3]}",
                      {"kind": "toplevel", "host": small[0], "cfg": small[1], "init": small[2], "ops": small[3],
                       "path_string": render_path(small[1]["path"]), "observed": d2,
                       "replay": "bin/check C18 --replay <this file>"},
                      sig={"op": tsig[0], "passthrough": small[1]["pt"], "spec": True}, no_input=False)
    # parser: validated, not proved
    pn, pbad = parser_check(sorted({(tuple(c[1]["path"]), c[1].get("quotes", 0)) for c in cases}))
    for b in pbad[:3]:
        chk.violation(f"Alias path parser disagrees with the harness split: {b}",
                      dict(b, kind="parser"), sig={"op": "parser"}, no_input=False)
    for b in PROXY["bad"][:1]:
        chk.violation(f"AttrProxy({b!r}) is not an Alias that warns exactly once when constructed",
                      {"kind": "attr_proxy", "path_string": b}, sig={"op": "attr_proxy"}, no_input=False)
    # one representative (the shortest case) per (host kind, passthrough, deprecated, code)
    groups = {}
    for i, code in sorted(bad, key=lambda b: (-b[1], len(cases[b[0]][3]))):
        g = (cases[i][0]["spec"], cases[i][1]["pt"], cases[i][1]["dep"], code)
        groups.setdefault(g, (i, code))
    reported = set()
    for i, code in sorted(groups.values(), key=lambda b: (-b[1], len(cases[b[0]][3])))[:6]:
        small = shrink(cases[i], code)
        ops2, seen2 = run_impl(small)
        last = op_kind(ops2[-1])
        sig = (small[0]["spec"], small[1]["pt"], last, code)
        if sig in reported:
            continue
        reported.add(sig)
        what = (f"Alias {'violates the reference machine' if code == 2 else 'differs from the model'}: "
                f"host={'spec' if small[0]['spec'] else 'plain'} cfg={small[1]} init={small[2]} ops={ops2}")
        chk.violation(what, to_json((small[0], small[1], small[2], ops2), code, seen2),
                      sig={"op": last, "passthrough": small[1]["pt"], "spec": small[0]["spec"]},
                      no_input=(code != 2))
    for lg in logs:
        chk.violation("correspondence evaluation failed: " + lg[-500:], {"kind": "coq-eval", "log": lg}, no_input=True)

    # ---- evidence
    extra = {
        "correspondence": {
            "cases": len(cases), "operations": st.operations,
            "operations_with_warnings": st.warn_ops,
            "cases_skipped_because_the_parser_rejected_the_path": st.unparsed, "disagreements": len(bad),
            "op_histogram": st.ophist, "outcome_histogram": st.errhist, "length_histogram": st.lenhist,
            "path_shape_histogram": st.shapes, "configurations_seen": len(st.cfghist),
            "configuration_histogram_top": dict(sorted(st.cfghist.items(), key=lambda kv: -kv[1])[:12]),
            "hosts": ["plain class", "spec class (alias annotated: managed, type-checked)",
                      "spec subclass / sub-subclass inheriting the alias from a parent spec class"],
            "subclass_host_cases": len([c for c in cases if c[0].get("sub")]),
            "corpus_cases": len(corpus), "exhaustive_cases": len(exh), "helper_block_cases": len(helpers),
            "random_cases": len(cases) - len(exh) - len(helpers) - len(corpus) - len(topupd),
            "toplevel_update_block_cases": len(topupd),
        },
        "toplevel_probe": {"cases": len(tl), "operations": tl_ops, "op_histogram": tl_hist,
                           "disagreements": len(tl_bad),
                           "subclass_hosts": len([c for c in tl if c[0].get("sub")]),
                           "oracle": "implementation-level probe (not a Coq evaluation): Host(**kw), update(), transform(), "
                                     "reset() (copy and in place) must act like the assignments / deletions they stand for"},
        "attr_proxy": {"constructed": PROXY["built"], "not_alias_plus_one_warning": len(PROXY["bad"])},
        "parser_validated_not_proved": {"path_strings_compared": pn, "mismatches": len(pbad),
                                        "invalid_strings_rejected": len(INVALID_PATHS)},
        "evaluations": len(cases), "distinct_nontrivial": len(st.distinct),
        "rule": "case = (host kind, alias configuration incl. parsed path, initial instance tree, operation list); "
                "configurations sampled from passthrough x transform pool x fallback pool x DeprecatedAlias x path shape "
                "(10 fixed shapes + random paths) x plain/spec host x typed/untyped alias; sequences of 1..4 (quick) / 1..7 "
                "(thorough) operations over read/write/delete alias, class-level read, read/write/delete target, deepcopy, "
                "with_/update_/transform_/reset_<alias> and <target> (transform pool: identity, write-into-argument, wrap, +1, const); "
                "helper block: aimed cases around one or two helper calls with mutable current values; distinct = distinct (host, configuration, initial tree, operations); every case "
                "has >= 1 operation and is judged after every operation; round G: every second spec host is a spec subclass inheriting the alias; "
                "toplevel_probe: constructor keywords and top-level reset/update/transform compared with the elementary operations they stand for",
        "samples": [to_json(cases[j]) for j in (len(corpus), len(corpus) + len(exh) + 1,
                                                  len(corpus) + len(exh) + len(helpers) + 1, len(cases) - 1)],
        "exhaustive": False, "exhaustive_subscope": {"scope": f"all {len(EXH_OPS)}^{exh_len} sequences of length {exh_len} over read/write/delete alias, "
                                f"read/write/delete target, copy (deepcopy, with_<alias> or transform_<alias>), for {exh_cfgs} seeded core "
                                "configurations; everything else is sampled", "cases": len(exh)},
    }
    return chk.finish(
        trusted_base=["Coq 8.16.1 kernel and vm_compute",
                      "hand-written model coq/Desc/AliasModel.v (descriptor methods, Python attribute/item semantics on "
                      "tree-shaped objects, spec-class __getattr__/__setattr__ layer) tied to /repo by this run's correspondence",
                      "harness/c18.py: class construction, tree encoders, identity-based freshness classification",
                      "Alias.ATTR_PARSER is validated against the harness's own split, not modelled"],
        assumptions=["transforms are pure and never raise AttributeError (section hypothesis tr_total of the theorems)",
                     "objects reachable from the instance form a tree and assigned values are fresh (no sharing, no cycles)",
                     "self-referential aliases (path starting at the alias) and unbound descriptors are outside the theorems; "
                     "unbound descriptors and empty paths are tied to the model only",
                     "an item step on a non-dict raises TypeError (not a 'missing target')"],
        extra=extra)
