"""C09 — the generated constructor assigns exactly what the class hierarchy specifies.
Correspondence of coq/Init/Model.v (bootstrap + InitMethod.init + the generated wrapper) with
spec_classes, and the property oracle coq/Init/Spec.v evaluated on the implementation's runs."""
import json
import os
import time

from common import Check, VERIF, coq_eval, outcome_class
import c09_gen as G

PRELUDE = """From Coq Require Import List ZArith Bool Arith.
From SC Require Import Base.Res Init.Model Init.Spec Corr.Enc Corr.InitCorr.
Import ListNotations.
Open Scope Z_scope.
Set Printing Width 1000000.
"""

TY_OF_LABEL = None


# ------------------------------------------------------------------ implementation side
class Impl:
    """one hierarchy exec'd in a fresh namespace"""

    def __init__(self, hier):
        self.hier = hier
        self.src = G.hier_py(hier)
        self.ns = {"__name__": "c09_case"}
        exec(compile(self.src, "<c09>", "exec"), self.ns)
        self.cls = {k["id"]: self.ns[G.cls_name(k["id"])] for k in hier}
        self.cid = {v: k for k, v in self.cls.items()}

    def ty_label(self, t):
        import typing
        ns = self.ns
        table = [(typing.Any, "any"), (int, "int"), (str, "str"), (typing.Optional[int], "optint"),
                 (typing.List[int], "listint"), (ns["Leaf"], "leaf"), (typing.Dict[str, typing.Any], "dictany")]
        for o, l in table:
            if t is o or t == o:
                return l
        raise ValueError("type outside grammar: %r" % (t,))

    def table(self):
        """cls.__spec_class__ of every spec class: [cid, key, ovf, [attr...]]"""
        from spec_classes.types import MISSING
        out = []
        for k in self.hier:
            if k["deco"] is None:
                continue
            c = self.cls[k["id"]]
            m = c.__spec_class__
            assert m.owner is c
            attrs = []
            for name, a in m.attrs.items():
                assert a.name == name
                if a.default_factory is not MISSING:
                    d = ["fac", G.encode_obj(a.default_factory(), self.ns)]
                elif a.default is not MISSING:
                    d = ["val", G.encode_obj(a.default, self.ns)]
                else:
                    d = ["none"]
                prep = getattr(a.prepare, "c09_fn", None) if a.prepare else None
                if a.prepare and prep is None:
                    raise ValueError("unknown preparer")
                attrs.append({"name": G.IDS[name], "ty": self.ty_label(a.type), "dflt": d, "init": bool(a.init),
                              "owner": self.cid[a.owner], "dnc": bool(a.do_not_copy), "prep": prep})
            out.append({"cls": k["id"], "key": G.IDS[m.key] if m.key else None,
                        "ovf": G.IDS[m.init_overflow_attr] if m.init_overflow_attr else None, "attrs": attrs})
        return out

    def call(self, c, pos, kw):
        """construct class c; returns ["ok", dict, post, hand] or ["err", class]"""
        log = self.ns["LOG"]
        del log[:]
        args = [] if pos is None else [G.val_obj(pos, self.ns)]
        kwargs = {G.NAMES[a]: G.val_obj(v, self.ns) for a, v in kw}
        try:
            o = self.cls[c](*args, **kwargs)
        except BaseException as e:
            if isinstance(e, (KeyboardInterrupt, SystemExit, AssertionError, RecursionError, MemoryError)):
                raise
            return ["err", outcome_class(e), any(x[0] == "ph" for x in log)]
        d = object.__getattribute__(o, "__dict__")
        try:
            enc = [[G.IDS[n], G.encode_obj(v, self.ns)] for n, v in d.items()]
            posts = [[x[1], [G.IDS[n] for n in x[2]]] for x in log if x[0] == "post"]
        except (ValueError, KeyError):
            # the instance holds something outside the value grammar (e.g. the MISSING sentinel):
            # reported as an outcome no specification accepts
            return ["err", "UserErr", any(x[0] == "ph" for x in log)]
        return ["ok", enc, posts, [x[1] for x in log if x[0] == "hand"],
                any(x[0] == "ph" for x in log)]


# ------------------------------------------------------------------ Coq side
def rattr_coq(a):
    return ("(mkrattr " + G.nat(a["name"]) + " " + G.TY_COQ[a["ty"]] + " " + G.dflt_coq(a["dflt"]) + " "
            + ("true" if a["init"] else "false") + " " + G.nat(a["owner"]) + " " + ("true" if a["dnc"] else "false")
            + " " + G.copt(a["prep"], G.fn_coq) + ")")


def table_coq(t):
    return G.clist(t, lambda m: f"({G.nat(m['cls'])}, ({G.copt(m['key'], G.nat)}, {G.copt(m['ovf'], G.nat)}), "
                                + G.clist(m["attrs"], rattr_coq) + ")")


def kw_coq(kw):
    return G.clist(kw, lambda p: f"({G.nat(p[0])}, {G.val_coq(p[1])})")


def obs_coq(o):
    if o[0] == "err":
        return f"(OErr {o[1]})"
    posts = G.clist(o[2], lambda p: f"({G.nat(p[0])}, {G.clist(p[1], G.nat)})")
    return f"(OOk {kw_coq(o[1])} {posts} {G.clist(o[3], G.nat)})"


def call_coq(cl):
    pos, kw, obs = cl
    return f"(mkcall {G.copt(pos, G.val_coq)} {kw_coq(kw)} {obs_coq(obs)})"


def case_coq(case):
    return (f"mkcase {G.hier_coq(case['hier'])} {G.nat(case['cls'])} {table_coq(case['table'])} "
            + G.clist(case["calls"], call_coq))


# ------------------------------------------------------------------ cases
def table_in_grammar(table):
    """side condition on the RESOLVED classes: the key attribute is initialisable (a key declared
    init=False by another lineage can be inherited as key through a re-stating decorator)"""
    for t in table:
        if t["key"] is not None:
            spec = next((a for a in t["attrs"] if a["name"] == t["key"]), None)
            if spec is not None and not spec["init"]:
                return False
    return True


def observe(hier, c, calls):
    """run the implementation; returns a case dict or None when the classes cannot be defined"""
    if G.well_formed(hier) is not None:
        return None
    try:
        impl = Impl(hier)
        table = impl.table()
    except BaseException as e:
        if isinstance(e, (KeyboardInterrupt, SystemExit)):
            raise
        return None
    if not table_in_grammar(table):
        return None
    return {"hier": hier, "cls": c, "table": table,
            "calls": [[pos, kw, impl.call(c, pos, kw)] for pos, kw in calls]}


def make_calls(rng, case_table, hier, c, limit, ncand):
    """every subset (<= limit) of a candidate keyword list, plus positional variants"""
    # the metadata governing class c: nearest spec class along the bases (single chain of plain classes)
    by_id = {k["id"]: k for k in hier}
    m = c
    while by_id[m]["deco"] is None:
        m = by_id[m]["bases"][0]
    meta = next(t for t in case_table if t["cls"] == m)
    attrs = [(a["name"], a["ty"]) for a in meta["attrs"]]
    cands = G.candidate_keywords(rng, attrs, meta["ovf"], ncand)
    key = meta["key"]
    base = []
    if key is not None and rng.random() < 0.7:
        spec = next((a for a in meta["attrs"] if a["name"] == key), None)
        if spec is not None and spec["dflt"][0] == "none":
            # a required key: most hierarchies get it in every call (other subsets all fail alike)
            base = [[key, G.conforming(rng, spec["ty"])]]
            cands = [p for p in cands if p[0] != key]
    calls = [(None, base + sub) for sub in G.subsets(cands, limit - len(base))]
    if base:
        calls += [(None, sub) for sub in G.subsets(cands, 1)]
    extra = []
    if key is not None:
        kt = dict(attrs).get(key, "any")
        for pos_v in (G.conforming(rng, kt), G.some_value(rng, kt, 0.5)):
            for _, sub in rng.sample(calls, min(len(calls), 4)):
                extra.append((pos_v, [p for p in sub if p[0] != key]))
            extra.append((pos_v, [[key, G.conforming(rng, kt)]]))   # key twice
    else:
        extra.append((["i", 1], []))
    return calls + extra


def gen_cases(rng, tier, budget_s):
    quick = tier == "quick"
    depth = 2 if quick else 3
    limit = 4 if quick else 6
    ncand = 5 if quick else 7
    n_h = 900 if quick else 15000
    cases, labels = [], []
    t0 = time.time()
    undefined = 0
    for i in range(n_h):
        if time.time() - t0 > budget_s:
            break
        d = depth if i % 5 else max(1, depth - 1)
        single = False
        if not quick and i % 7 == 0:
            d = 4                       # deeper single-inheritance chains
        if quick and i % 4 == 3:
            d, single = 3, True         # quick: a quarter are chains of depth 3 (spec/plain mixed)
        hier, label = G.gen_hierarchy(rng, d, single_only=single)
        why = G.well_formed(hier)
        if why is not None:
            # a generator slip is not a finding about the library: count it and go on
            OUTSIDE.append(why)
            continue
        try:
            impl = Impl(hier)
            table = impl.table()
        except BaseException as e:
            if isinstance(e, (KeyboardInterrupt, SystemExit)):
                raise
            undefined += 1
            continue
        if not table_in_grammar(table):
            OUTSIDE.append("key attribute with init=False")
            continue
        # constructed classes: the last class always, another one sometimes
        targets = [hier[-1]["id"]]
        if len(hier) > 1 and rng.random() < 0.3:
            targets.append(rng.choice(hier[:-1])["id"])
        for c in targets:
            calls = make_calls(rng, table, hier, c, limit, ncand)
            if quick and len(calls) > 40:
                calls = calls[:8] + rng.sample(calls[8:], 32)
            elif len(calls) > 140:
                calls = calls[:12] + rng.sample(calls[12:], 128)
            cases.append({"hier": hier, "cls": c, "table": table,
                          "calls": [[pos, kw, impl.call(c, pos, kw)] for pos, kw in calls]})
            labels.append(label)
    return cases, labels, undefined


SCOPE = {}
OUTSIDE = []


def private_eval(prelude, check_fn, case_terms, tag, case_type, shard):
    """common.coq_eval in a directory private to this process (other checks running at the same
    time, or somebody tidying coq/Corr/gen, cannot take the case files away), with one retry of
    shards whose file vanished or whose coqc died."""
    import re
    import shutil
    from concurrent.futures import ThreadPoolExecutor
    from common import GEN, JOBS, _eval_shard
    d = os.path.join(GEN, f"C09_{os.getpid()}")
    texts = {}
    for k in range(0, len(case_terms), shard):
        path = os.path.join(d, f"C09_{tag}_{k // shard}.v")
        texts[path] = (k, prelude + "\n" + f"Definition cases : list ({case_type}) := [\n"
                       + ";\n".join(case_terms[k:k + shard]) + "\n].\n"
                       + f"Definition result := Eval vm_compute in (failing (map {check_fn} cases)).\nPrint result.\n")
    res, logs, todo = [], [], list(texts)
    for attempt in (1, 2):
        os.makedirs(d, exist_ok=True)
        for path in todo:
            with open(path, "w") as fh:
                fh.write(texts[path][1])
        again = []
        with ThreadPoolExecutor(max_workers=JOBS) as ex:
            for path, rc, out in ex.map(_eval_shard, [(p,) for p in todo]):
                m = re.search(r"result\s*=\s*(.*?)\s*:\s*list", out, re.S) if rc == 0 else None
                if not m:
                    if attempt == 1:
                        again.append(path)
                    else:
                        logs.append(f"{path}: rc={rc}\n{out[:600]} ... {out[-600:]}")
                    continue
                for a, b in re.findall(r"\(\s*(\d+)%?n?a?t?,\s*(\d+)%?n?a?t?\s*\)", m.group(1)):
                    res.append((texts[path][0] + int(a), int(b)))
        todo = again
        if not todo:
            break
    shutil.rmtree(d, ignore_errors=True)
    return res, logs


def evaluate(cases, tag="c", shard=60):
    """(failures [(index, code)], logs); SCOPE[tag] = calls per case inside the theorem's hypotheses"""
    res, logs = private_eval(PRELUDE, "check_case_sc", [case_coq(c) for c in cases], tag, "case", shard)
    SCOPE[tag] = {i: v % 1000 for i, v in res}
    return [(i, v // 1000) for i, v in res if v >= 1000], logs


def reobserve(case, calls=None):
    return observe(case["hier"], case["cls"], [(p, kw) for p, kw, _ in (calls if calls is not None else case["calls"])])


# ------------------------------------------------------------------ shrinking
def hier_variants(case):
    """smaller hierarchies (same constructed class)"""
    hier = case["hier"]
    out = []

    def clone():
        return json.loads(json.dumps(hier))
    ids = [k["id"] for k in hier]
    # drop a class nobody needs
    for k in hier:
        if k["id"] != case["cls"] and not any(k["id"] in o["bases"] for o in hier):
            out.append([json.loads(json.dumps(o)) for o in hier if o["id"] != k["id"]])
    # splice out a class with a single base that is not the constructed one
    for k in hier:
        if k["id"] != case["cls"] and len(k["bases"]) == 1:
            h2 = [o for o in clone() if o["id"] != k["id"]]
            for o in h2:
                o["bases"] = [k["bases"][0] if b == k["id"] else b for b in o["bases"]]
            out.append(h2)
    for i in range(len(hier)):
        k = hier[i]
        for f in ("entries", "annots", "preps"):
            for j in range(len(k[f])):
                h2 = clone()
                del h2[i][f][j]
                out.append(h2)
        if k["post"]:
            h2 = clone(); h2[i]["post"] = False; out.append(h2)
        if k["hinit"] is not None:
            h2 = clone(); h2[i]["hinit"] = None; out.append(h2)
            for j in range(len(k["hinit"]["tr"])):
                h2 = clone(); del h2[i]["hinit"]["tr"][j]; out.append(h2)
            for j in range(len(k["hinit"]["params"])):
                h2 = clone(); del h2[i]["hinit"]["params"][j]; out.append(h2)
        if k["deco"] is not None:
            d = k["deco"]
            if d["dnc"] is not False:
                h2 = clone(); h2[i]["deco"]["dnc"] = False; out.append(h2)
            if d["key"] != "unset":
                h2 = clone(); h2[i]["deco"]["key"] = "unset"; out.append(h2)
            if d["ovf"] != "unset":
                h2 = clone(); h2[i]["deco"]["ovf"] = "unset"; out.append(h2)
    # drop an attribute name everywhere
    names = {a for k in hier for a, _ in k["annots"]} | {a for k in hier for a, _ in k["entries"]}
    for a in names:
        h2 = clone()
        for o in h2:
            for f in ("entries", "annots", "preps"):
                o[f] = [p for p in o[f] if p[0] != a]
            if o["hinit"] is not None:
                o["hinit"]["params"] = [p for p in o["hinit"]["params"] if p[0] != a]
                o["hinit"]["tr"] = [p for p in o["hinit"]["tr"] if p[0] != a]
        out.append(h2)
    return out


def shrink(case, code, deadline=None):
    """minimise to one call and a small hierarchy with the same check code"""
    # 1. a single failing call
    singles = []
    for cl in case["calls"]:
        singles.append({"hier": case["hier"], "cls": case["cls"], "table": case["table"], "calls": [cl]})
    singles.append({"hier": case["hier"], "cls": case["cls"], "table": case["table"], "calls": []})
    bad, _ = evaluate(singles, tag="s")
    hit = [i for i, c in bad if c == code]
    cur = singles[min(hit)] if hit else case
    for _ in range(16):
        if deadline is not None and time.time() > deadline:
            break
        cands = []
        for h2 in hier_variants(cur):
            c2 = observe(h2, cur["cls"], [(p, kw) for p, kw, _ in cur["calls"]])
            if c2 is not None:
                cands.append(c2)
        for cl in cur["calls"][:1]:
            pos, kw, _ = cl
            for j in range(len(kw)):
                c2 = observe(cur["hier"], cur["cls"], [(pos, kw[:j] + kw[j + 1:])])
                if c2 is not None:
                    cands.append(c2)
            if pos is not None:
                c2 = observe(cur["hier"], cur["cls"], [(None, kw)])
                if c2 is not None:
                    cands.append(c2)
        if not cands:
            break
        bad, _ = evaluate(cands, tag="s")
        hit = [i for i, c in bad if c == code]
        if not hit:
            break
        cur = cands[min(hit)]
    return cur


# ------------------------------------------------------------------ signatures of failures
def has_diamond(hier):
    """some class has two bases with a common ancestor"""
    anc = {}
    for k in hier:
        anc[k["id"]] = {k["id"]}.union(*[anc[b] for b in k["bases"]]) if k["bases"] else {k["id"]}
    for k in hier:
        bs = k["bases"]
        if any(anc[bs[i]] & anc[bs[j]] for i in range(len(bs)) for j in range(i + 1, len(bs))):
            return True
    return False


def features(case):
    """coarse description of a minimised failing case (keys usable in KNOWN_FINDINGS signatures)"""
    hier = case["hier"]
    by_id = {k["id"]: k for k in hier}
    f = {
        "classes": len(hier),
        "multiple_inheritance": any(len(k["bases"]) > 1 for k in hier),
        "diamond": has_diamond(hier),
        "plain_class": any(k["deco"] is None for k in hier),
        "hand_written_init": any(k["hinit"] is not None for k in hier),
        "overflow": any(k["deco"] and k["deco"]["ovf"] not in ("unset", None) for k in hier),
        "key": any(k["deco"] and k["deco"]["key"] not in ("unset", None) for k in hier),
        "init_false": any(e[0] == "attr" and not e[2] for k in hier for _, e in k["entries"]),
        "preparer": any(k["preps"] for k in hier),
        "post_init": any(k["post"] for k in hier),
        "do_not_copy": any(k["deco"] and k["deco"]["dnc"] is not False for k in hier),
    }
    # a plain class gives a default to a key attribute that has none in the declaration held
    # by the spec class it derives from
    f["bare_key_defaulted_by_plain_class"] = False
    metas = {t["cls"]: t for t in case.get("table", [])}
    for k in hier:
        if k["deco"] is None:
            m = k["bases"][0]
            while by_id[m]["deco"] is None:
                m = by_id[m]["bases"][0]
            t = metas.get(m)
            if t and t["key"] is not None:
                spec = next((a for a in t["attrs"] if a["name"] == t["key"]), None)
                if spec and spec["dflt"][0] == "none" and any(a == t["key"] for a, _ in k["entries"]):
                    f["bare_key_defaulted_by_plain_class"] = True
    # the same defect seen from below: a spec class whose key attribute has no default in the declaration it
    # holds, while a plain class anywhere among its ancestors (e.g. K4(K2, K3) with K2 a plain class over the
    # declaring spec class) assigns one
    def ancestors(cid, acc):
        for b in by_id[cid]["bases"]:
            if b in by_id and b not in acc:
                acc.add(b)
                ancestors(b, acc)
        return acc
    for k in hier:
        if k["deco"] is None:
            continue
        t = metas.get(k["id"])
        if t and t["key"] is not None:
            spec = next((a for a in t["attrs"] if a["name"] == t["key"]), None)
            if spec and spec["dflt"][0] == "none":
                for anc in ancestors(k["id"], set()):
                    if by_id[anc]["deco"] is None and any(a == t["key"] for a, _ in by_id[anc]["entries"]):
                        f["bare_key_defaulted_by_plain_class"] = True
    if case["calls"]:
        pos, kw, obs = case["calls"][0]
        f["positional"] = pos is not None
        f["keywords"] = len(kw)
        f["outcome"] = obs[0] if obs[0] == "ok" else obs[1]
        # a hand-written parent constructor was handed the MISSING placeholder of the key
        f["placeholder_to_hand_written"] = bool(obs[-1])
        # ... although the constructed class holds a DEFAULT for that key and the key attribute is still owned by
        # the keyed class with the hand-written constructor: the library then passes the default, never the
        # placeholder (the recorded finding is about keys without value or owned by another class)
        f["placeholder_despite_owned_default"] = False
        if obs[-1]:
            t = metas.get(case["cls"])
            for k in hier:
                if k["hinit"] is not None and k["deco"] and k["deco"]["key"] not in ("unset", None) and t:
                    spec = next((a for a in t["attrs"] if a["name"] == k["deco"]["key"]), None)
                    if spec and spec["owner"] == k["id"] and spec["dflt"][0] != "none" and \
                            not any(a == k["deco"]["key"] for a, _ in kw):
                        f["placeholder_despite_owned_default"] = True
    return f


def describe(case, code):
    return {"hier": case["hier"], "cls": case["cls"], "calls": [[p, kw] for p, kw, _ in case["calls"]],
            "observed": [o for _, _, o in case["calls"]], "table": case["table"], "code": code,
            "python": G.hier_py(case["hier"]),
            "call_py": [f"K{case['cls']}(" + ", ".join(([G.val_py(p)] if p is not None else [])
                                                       + [f"{G.NAMES[a]}={G.val_py(v)}" for a, v in kw]) + ")"
                        for p, kw, _ in case["calls"]],
            "meaning": {1: "model (coq/Init/Model.v) and implementation differ; the specification accepts the run",
                        2: "the implementation's run violates coq/Init/Spec.v:expected_init"}.get(code, "?"),
            "features": features(case),
            "replay": "bin/check C09 --replay <this file>"}


def main(tier, replay=None):
    chk = Check("C09", tier)
    if replay:
        r = json.load(open(replay))
        case = observe(r["hier"], r["cls"], [(p, kw) for p, kw in r["calls"]])
        if case is None:
            print("replay: the classes can no longer be defined")
            return 1
        bad, logs = evaluate([case], tag="r")
        print("replay:", "still failing code=%s" % bad[0][1] if bad else "passes now", logs)
        print(G.hier_py(case["hier"]))
        for (p, kw, o), s in zip(case["calls"], describe(case, 0)["call_py"]):
            print(s, "->", o)
        return 1 if bad else 0
    chk.proofs(extra_targets=["Corr/InitCorr.vo"])
    t0 = time.time()
    # corpus of minimised failures from earlier runs first
    corpus = []
    cdir = os.path.join(VERIF, "corpus", "C09")
    if os.path.isdir(cdir):
        for f in sorted(os.listdir(cdir)):
            r = json.load(open(os.path.join(cdir, f)))
            c = observe(r["hier"], r["cls"], [(p, kw) for p, kw in r["calls"]])
            if c is not None:
                corpus.append(c)
    cases, labels, undefined = gen_cases(chk.rng, tier, 60 if tier == "quick" else 420)
    cases = corpus + cases
    labels = ["corpus"] * len(corpus) + labels
    t_gen = time.time() - t0
    bad, logs = evaluate(cases)
    t_eval = time.time() - t0 - t_gen
    # every failing case is split into single calls, and every failing call is classified:
    # "known-like" (diamond hierarchy / the MISSING placeholder reached a hand-written constructor /
    # a plain class defaults a bare key) or suspicious.  Suspicious calls come first.
    singles, origin = [], []
    for i, code in bad:
        c = cases[i]
        for cl in c["calls"]:
            singles.append({"hier": c["hier"], "cls": c["cls"], "table": c["table"], "calls": [cl]})
            origin.append(i)
        singles.append({"hier": c["hier"], "cls": c["cls"], "table": c["table"], "calls": []})
        origin.append(i)
    sbad, slogs = evaluate(singles, tag="k") if singles else ([], [])
    logs = logs + slogs
    covered = {origin[j] for j, _ in sbad}
    failing = [(singles[j], code) for j, code in sbad]
    failing += [(cases[i], code) for i, code in bad if i not in covered]     # (cannot happen)

    def known_like(case):
        f = features(case)
        return bool(f["diamond"] or f["bare_key_defaulted_by_plain_class"]
                    or (f.get("placeholder_to_hand_written") and not f.get("placeholder_despite_owned_default")))
    failing.sort(key=lambda fc: (known_like(fc[0]), -fc[1], len(json.dumps(fc[0]["hier"]))))
    n_suspicious = len([1 for fc in failing if not known_like(fc[0])])
    reported = {}
    deadline = time.time() + (110 if tier == "quick" else 900)
    seen_cat = set()
    for case1, code in failing:
        suspicious = not known_like(case1)
        if len(reported) >= 8:
            break
        if not suspicious:
            # one representative per known-looking category, briefly minimised
            f1 = features(case1)
            cat = ("diamond" if f1["diamond"] else
                   "placeholder" if f1.get("placeholder_to_hand_written") else "bare_key")
            if cat in seen_cat:
                continue
            seen_cat.add(cat)
            small = shrink(case1, code, min(deadline, time.time() + 30))
        else:
            small = shrink(case1, code, deadline) if time.time() < deadline else case1
        feat = features(small)
        sig = dict(feat, code=code)
        key = json.dumps({k: v for k, v in sig.items() if k not in ("keywords", "classes")}, sort_keys=True)
        if key in reported:
            continue
        reported[key] = small
        d = describe(small, code)
        what = (("constructor violates the hierarchy's specification: " if code == 2 else
                 "constructor model differs from implementation: ")
                + "; ".join(d["call_py"][:1]) + " -> " + json.dumps(d["observed"][:1]) + " features=" + json.dumps(feat))
        chk.violation(what, d, sig=sig, no_input=(code != 2))
    for lg in logs:
        chk.violation("correspondence evaluation failed: " + lg[-500:], {"kind": "coq-eval", "log": lg}, no_input=True)
    # statistics
    ncalls = sum(len(c["calls"]) for c in cases)
    shape_hist, err_hist, feat_hist, kw_hist = {}, {}, {}, {}
    distinct = set()
    for c, l in zip(cases, labels):
        shape_hist[l] = shape_hist.get(l, 0) + 1
        for k, v in features(dict(c, calls=[])).items():
            if v is True:
                feat_hist[k] = feat_hist.get(k, 0) + 1
        hs = json.dumps(c["hier"], sort_keys=True)
        for p, kw, o in c["calls"]:
            e = "ok" if o[0] == "ok" else o[1]
            err_hist[e] = err_hist.get(e, 0) + 1
            kw_hist[len(kw)] = kw_hist.get(len(kw), 0) + 1
            distinct.add(hash((hs, c["cls"], json.dumps([p, kw]))))
    forms = {}
    for c in cases:
        for k in c["hier"]:
            ann = {a for a, _ in k["annots"]}
            for a, e in k["entries"]:
                f = (("plain-override" if k["deco"] is None else ("redeclared/new" if a in ann else "re-default"))
                     + ":" + (e[0] if e[0] == "lit" else ("field" if e[3] else "attr") + "-" + e[1][0]
                              + ("" if e[2] else "-noinit")))
                forms[f] = forms.get(f, 0) + 1
    sample = [describe(c, 0) for c in (cases[len(corpus)] if len(cases) > len(corpus) else cases[0],
                                       cases[len(cases) // 2], cases[-1])]
    for s in sample:
        s["calls"], s["observed"], s["call_py"] = s["calls"][:3], s["observed"][:3], s["call_py"][:3]
        del s["table"]
    extra = {
        "correspondence": {"hierarchies": len(cases), "constructor_calls": ncalls, "disagreements": len(bad),
                           "failing_calls": len(failing), "failing_calls_not_resembling_a_known_finding": n_suspicious,
                           "undefinable_hierarchies_skipped": undefined,
                           "generated_outside_grammar_skipped": len(OUTSIDE),
                           "shape_histogram": shape_hist, "outcome_histogram": err_hist,
                           "feature_histogram": feat_hist, "keywords_per_call": kw_hist,
                           "declaration_forms": forms,
                           "generation_s": round(t_gen, 1), "coq_eval_s": round(t_eval, 1),
                           "calls_inside_theorem_hypotheses": sum(SCOPE.get("c", {}).values()),
                           "hierarchies_with_calls_inside_theorem": len([1 for v in SCOPE.get("c", {}).values() if v]),
                           "compared": "cls.__spec_class__ of every spec class (attribute order, type, default kind and value, "
                                       "init, owner, do_not_copy, preparer, key, overflow); per call the instance __dict__ in order, "
                                       "error class, __post_init__ records (defining class + attribute names the hook found set) "
                                       "and hand-written constructor call records"},
        "evaluations": ncalls, "distinct_nontrivial": len(distinct),
        "rule": "one evaluation = one constructor call on one class of one generated hierarchy (shapes of depth <= "
                + ("2 (+ single chains of depth 3)" if tier == "quick" else "3 (+ single chains of depth 4)")
                + "); per hierarchy every subset of <= " + ("4" if tier == "quick" else "6")
                + " keywords of a candidate list (managed names with conforming / non-conforming values, init=False names, "
                  "overflow name, unknown names) plus positional-key variants; distinct = distinct (hierarchy, class, call)",
        "samples": sample,
        "exhaustive": False,
    }
    return chk.finish(
        trusted_base=["Coq 8.16.1 kernel and vm_compute", "no axioms (Print Assumptions: closed under the global context)",
                      "hand-written model coq/Init/Model.v tied to /repo by this run's correspondence",
                      "shared primitives of model and specification: Python's MRO (mro_of), prepare_value (one assignment), the callback pool",
                      "harness/c09.py, harness/c09_gen.py: generator, renderer to Python source and Coq terms, observation of __dict__ / __spec_class__"],
        assumptions=["values are identity-free trees (sharing is C08's)",
                     "grammar side conditions wf_table (docs/C09.md): plain classes only override defaults, overflow names are never annotated, "
                     "a key is named by the decorator of a class that annotates it (or introduces it), the key is initialisable",
                     "hand-written constructors are user code of the documented shape; two spec parents: theorem partial (see docs/C09.md)"],
        extra=extra)
