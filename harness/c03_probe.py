"""C03, implementation-level probe: a spec subclass RE-ANNOTATES an inherited
attribute with another (narrower) type, classes bootstrap lazily or eagerly, and
generated helpers are looked up through the class objects in every order before
the subclass is first instantiated.  The shared history grammar cannot express
this (inst_common.World bootstraps every class before the first operation and a
history has no 'touch C.with_x' step), so the scenarios are built directly on
the library; the ORACLE is the same as for histories: `type_inv` of
Corr/InstCorr.v evaluated in Coq on the canonical graph of the resulting
instance against the SUBCLASS's own annotations."""
import itertools

import inst_common as ic
from common import coq_eval

PRELUDE = ic.PRELUDE + "Set Printing Width 1000000.\n" \
    "Definition probe_check (c : ctable * graph) : nat := if type_inv (fst c) (snd c) then 0 else 2.\n"

KINDS = {"list": 50, "dict": 51, "set": 52, "scalar": 1}
ELEMS = {"int": ("int",), "str": ("str",), "float": ("any",)}   # parent's float: irrelevant to the oracle
PAIRS = [("str", "int"), ("float", "int"), ("int", "str")]        # (parent element, child element)


def child_ty(kind, elem):
    e = ELEMS[elem]
    return {"list": ("list", e), "dict": ("dict", ("str",), e), "set": ("set", e), "scalar": e}[kind]


def helpers_of(kind, aid):
    attr, item = ic.pyname(aid), ic.item_name(aid)
    if kind == "scalar":
        return [f"with_{attr}", f"update_{attr}", f"transform_{attr}"]
    return [f"with_{item}", f"update_{item}", f"transform_{item}", f"without_{item}", f"with_{attr}"]


def build(sc):
    """classes P and C(P) of the scenario, on the library under test"""
    from typing import Dict, List, Set

    from spec_classes import spec_class
    py = {"int": int, "str": str, "float": float}
    wrap = {"list": lambda t: List[t], "dict": lambda t: Dict[str, t], "set": lambda t: Set[t], "scalar": lambda t: t}
    name = ic.pyname(KINDS[sc["kind"]])

    def mk(cname, bases, elem, eager):
        body = {"__annotations__": {name: wrap[sc["kind"]](py[elem])}, "__module__": "verif_probe", "__qualname__": cname}
        if sc["default"] and sc["kind"] != "scalar":
            body[name] = {"list": [], "dict": {}, "set": set()}[sc["kind"]]
        return spec_class(bootstrap=True)(type(cname, bases, body)) if eager else spec_class(type(cname, bases, body))
    P = mk("K2", (), sc["pair"][0], sc["p_eager"])
    C = mk("K1", (P,), sc["pair"][1], sc["c_eager"])
    return P, C, name


def values(sc):
    good = {"int": 1, "str": "a7"}[sc["pair"][1]]
    bad = {"int": 2, "str": "a8", "float": 1.5}[sc["pair"][0]]     # fits the parent's annotation only
    return good, bad


def run_scenario(sc):
    """returns None (refused with TypeError/ValueError) or (C, instance)"""
    P, C, name = build(sc)
    aid = KINDS[sc["kind"]]
    item = ic.item_name(aid)
    good, bad = values(sc)
    for step in sc["pre"]:
        if step == "P()":
            try:
                P()
            except Exception:
                pass
        elif step.startswith("touch:"):
            getattr(C, step[6:], None)
        elif step.startswith("ptouch:"):
            getattr(P, step[7:], None)
    coll = {"list": [good], "dict": {"a7": good}, "set": {good}, "scalar": good}[sc["kind"]]
    try:
        obj = C(**{name: coll})
        act = sc["action"]
        if act == "with_item":
            obj = getattr(obj, f"with_{item}")(*((["a8", bad]) if sc["kind"] == "dict" else [bad]), _inplace=sc["inplace"])
        elif act == "update_item":
            key = {"list": 0, "dict": "a7", "set": good}[sc["kind"]]
            obj = getattr(obj, f"update_{item}")(key, bad, _inplace=sc["inplace"])
        elif act == "transform_item":
            key = {"list": 0, "dict": "a7", "set": good}[sc["kind"]]
            obj = getattr(obj, f"transform_{item}")(key, lambda _: bad, _inplace=sc["inplace"])
        elif act == "with":
            whole = {"list": [bad], "dict": {"a7": bad}, "set": {bad}, "scalar": bad}[sc["kind"]]
            obj = getattr(obj, f"with_{name}")(whole, _inplace=sc["inplace"])
        elif act == "transform":
            whole = {"list": [bad], "dict": {"a7": bad}, "set": {bad}, "scalar": bad}[sc["kind"]]
            obj = getattr(obj, f"transform_{name}")(lambda _: whole, _inplace=sc["inplace"])
        elif act == "setattr":
            setattr(obj, name, {"list": [bad], "dict": {"a7": bad}, "set": {bad}, "scalar": bad}[sc["kind"]])
        elif act == "construct":
            obj = C(**{name: {"list": [bad], "dict": {"a7": bad}, "set": {bad}, "scalar": bad}[sc["kind"]]})
    except (TypeError, ValueError):
        return None
    return C, obj


def control_accepted(scs):
    """the same scenarios with a value that DOES conform to the subclass: how many go through"""
    n = 0
    for sc in scs:
        good = {"int": 3, "str": "a8"}[sc["pair"][1]]
        saved = values.__globals__["values"]
        try:
            values.__globals__["values"] = lambda _sc, g=good: ({"int": 1, "str": "a7"}[_sc["pair"][1]], g)
            n += run_scenario(sc) is not None
        except Exception:
            pass
        finally:
            values.__globals__["values"] = saved
    return n


def scenarios(rng, n):
    out = []
    for kind, pair in itertools.product(KINDS, PAIRS):
        aid = KINDS[kind]
        hs = helpers_of(kind, aid)
        acts = ["with", "transform", "setattr", "construct"] + ([] if kind == "scalar" else ["with_item", "update_item", "transform_item"])
        for act in acts:
            for _ in range(n):
                pre = []
                if rng.random() < 0.7:
                    pre.append("P()")
                for h in rng.sample(hs, rng.choice([0, 1, 1, 2, len(hs)])):
                    pre.append(rng.choice(["touch:", "touch:", "ptouch:"]) + h)
                rng.shuffle(pre)
                out.append({"kind": kind, "pair": pair, "action": act, "pre": pre, "inplace": rng.random() < 0.5,
                            "p_eager": rng.random() < 0.3, "c_eager": rng.random() < 0.3, "default": rng.random() < 0.6})
    return out


def evaluate(pid, scs, tag="p"):
    """[(index, scenario)] whose resulting instance violates the subclass's annotations"""
    terms, idx, refused = [], [], 0
    for i, sc in enumerate(scs):
        r = run_scenario(sc)
        if r is None:
            refused += 1
            continue
        C, obj = r
        w = object.__new__(ic.World)
        w.table, w.classes, w.cid_of, w.roots = [], {1: C}, {C: 1}, []
        table = [{"id": 1, "eager": False, "attrs": [{"aid": KINDS[sc["kind"]], "ty": child_ty(sc["kind"], sc["pair"][1])}]}]
        ct, _ = ic.c_table(table)
        terms.append(f"({ct}, {ic.c_graph(w.canon([obj]))})")
        idx.append(i)
    bad, logs = coq_eval(pid, PRELUDE, "probe_check", terms, shard=300, tag=tag, case_type="ctable * graph")
    return [(idx[i], scs[idx[i]]) for i, _ in bad], logs, refused


def run(chk, extra):
    n = 2 if chk.tier == "quick" else 12
    scs = scenarios(chk.rng, n)
    bad, logs, refused = evaluate(chk.pid, scs)
    seen = set()
    for i, sc in bad:
        sig = {"kind": "probe", "container": sc["kind"], "action": sc["action"]}
        key = (sc["kind"], sc["action"])
        if key in seen:
            continue
        seen.add(key)
        chk.violation("C03 violated by the implementation: subclass re-annotating %s attribute, %s stores a value outside the subclass's annotation"
                      % (sc["kind"], sc["action"]), {"kind": "probe", "scenario": sc}, sig=sig)
    for lg in logs[:2]:
        chk.violation("probe evaluation failed: " + lg[:300], {"kind": "coq-eval", "log": lg}, no_input=True)
    extra["correspondence"]["reannotation_probe"] = {
        "scenarios": len(scs), "refused_with_TypeError_or_ValueError": refused,
        "accepted_and_checked_in_coq": len(scs) - refused, "violating": len(bad),
        "control_same_scenarios_with_conforming_value_accepted": control_accepted(scs)}


def replay(sc):
    sc = dict(sc, pair=tuple(sc["pair"]))
    bad, logs, refused = evaluate("C03", [sc], tag="rp")
    print("replay (probe):", "still failing" if bad else ("refused" if refused else "passes now"), logs[:1])
    return 1 if bad or logs else 0


# ---------------------------------------------------------------------------
# validated types (bounded): outside the instance model (its conformance relation
# is C15's); probed on the library with a reference predicate written here.
def bounded_ok(v, lo, hi):
    (lk, lv), (hk, hv) = lo, hi
    if lk == "ge" and not v >= lv or lk == "gt" and not v > lv:
        return False
    if hk == "le" and not v <= hv or hk == "lt" and not v < hv:
        return False
    return True


def bounded_scenarios():
    los = [(None, None)] + [(k, b) for k in ("ge", "gt") for b in (0, 1, -1)]
    his = [(None, None)] + [(k, b) for k in ("le", "lt") for b in (0, 5)]
    for lo, hi in itertools.product(los, his):
        if lo[0] is None and hi[0] is None:
            continue
        for route in ("construct", "setattr", "with", "with_collection", "with_item", "update_item"):
            for v in (-2, -1, 0, 1, 5, 6):
                yield {"lo": lo, "hi": hi, "route": route, "value": v}


def run_bounded(sc):
    """the stored values after the operation, or None when refused"""
    from typing import List

    from spec_classes import spec_class
    from spec_classes.types import bounded
    kw = {k: b for k, b in (tuple(sc["lo"]), tuple(sc["hi"])) if k}
    B = bounded(int, **kw)
    K = spec_class(type("KB", (), {"__annotations__": {"a1": B, "c50s": List[B]}, "__module__": "verif_probe"}))
    v, r = sc["value"], sc["route"]
    try:
        if r == "construct":
            o = K(a1=v)
        elif r == "setattr":
            o = K()
            o.a1 = v
        elif r == "with":
            o = K().with_a1(v)
        elif r == "with_collection":
            o = K(c50s=[]).with_c50s([v])
        elif r == "with_item":
            o = K(c50s=[]).with_c50(v)
        else:
            good = next(g for g in (0, 1, -1, 5, 2, -2, 4) if bounded_ok(g, tuple(sc["lo"]), tuple(sc["hi"])))
            o = K(c50s=[good]).update_c50(0, v)
    except (TypeError, ValueError, StopIteration):
        return None
    d = object.__getattribute__(o, "__dict__")
    return ([d["a1"]] if "a1" in d else []) + list(d.get("c50s", []))


def run_bounded_probe(chk, extra):
    n = bad = refused = 0
    seen = set()
    for sc in bounded_scenarios():
        n += 1
        stored = run_bounded(sc)
        if stored is None:
            refused += 1
            continue
        if any(not bounded_ok(x, tuple(sc["lo"]), tuple(sc["hi"])) for x in stored):
            bad += 1
            key = (sc["route"], sc["lo"][0], sc["hi"][0])
            if key not in seen and len(seen) < 4:
                seen.add(key)
                chk.violation("C03 violated by the implementation: %s stores %r in an attribute annotated bounded(int, %s)"
                              % (sc["route"], sc["value"], {k: b for k, b in (sc["lo"], sc["hi"]) if k}),
                              {"kind": "probe-bounded", "scenario": sc},
                              sig={"kind": "probe-bounded", "route": sc["route"]})
    extra["correspondence"]["bounded_probe"] = {"scenarios": n, "refused": refused, "accepted": n - refused,
                                                 "accepted_out_of_bounds": bad}


def replay_bounded(sc):
    stored = run_bounded(sc)
    failing = stored is not None and any(not bounded_ok(x, tuple(sc["lo"]), tuple(sc["hi"])) for x in stored)
    print("replay (bounded probe):", "still failing: stored %r" % (stored,) if failing else "passes now")
    return 1 if failing else 0
