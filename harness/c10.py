"""C10 — equality, copying and repr: correspondence of EqRepr/Model.v with
spec_classes/methods/core.py (EqMethod.eq, DeepCopyMethod.deepcopy, InitMethod.init,
ReprMethod.repr) and property oracle (EqRepr/Spec.v) on the implementation's answers.

A case is a JSON-able description: a class family (rendered to Python source and exec'd
against $VERIF_REPO) plus value recipes; the same description is rendered to Coq terms."""
import copy
import inspect
import itertools
import json
import types

from common import Check, ERR_CODES, cbool, clist, cz

PRELUDE = """From Coq Require Import List ZArith Bool.
From SC Require Import Base.Res EqRepr.Model EqRepr.Spec Corr.Enc Corr.EqCorr.
Import ListNotations.
Open Scope Z_scope.
"""

KINDS = ["int", "str", "list", "dict", "spec", "meth", "clsfun", "func", "class", "module", "klist", "kset", "opt"]
ANN = {"int": "int", "str": "str", "list": "list", "dict": "dict", "spec": "Inner", "opt": "Optional[int]",
       "klist": "KeyedList[Keyed, str]", "kset": "KeyedSet[Keyed, str]"}      # every other kind: Any
CLS_ID = {"Inner": 0, "Base": 1, "Sub": 2, "Plain": 3, "Keyed": 4, "Frozen": 5, "Shared": 6,
          "Leaf": 7, "PlainSub": 8}      # Leaf: spec subclass of Sub; PlainSub: plain subclass of Sub (second level)
FAMILY_CLASSES = ("Base", "Sub", "Plain", "Leaf", "PlainSub")
LONG = "ab" * 60


# ------------------------------------------------------------------ class families
def attr_id(name):
    if name in ("p", "q"):
        return {"p": 0, "q": 1}[name]
    if name == "k":
        return 40
    if name == "f0":
        return 45
    base = {"a": 10, "b": 30, "c": 35}[name[0]]
    return base + int(name[1:])


def meth_id(fn_name):
    """identity of a function defined in a class body"""
    if fn_name.startswith("meth"):
        return 50 + int(fn_name[4:])
    return 60 + attr_id(fn_name)          # class-level function named like an attribute


def decl(a):
    """source line(s) declaring one attribute"""
    n, k = a["name"], a["kind"]
    if k == "clsfun":
        return [f"    {n}: Any", f"    def {n}(self): return {attr_id(n)}"]
    ann = ANN.get(k, "Any")
    args = []
    if a.get("default"):
        d = {"int": "default=1", "str": "default='a'", "list": "default_factory=list",
             "dict": "default_factory=dict", "spec": "default_factory=Inner",
             "klist": "default_factory=lambda: KeyedList[Keyed, str]()",
             "kset": "default_factory=lambda: KeyedSet[Keyed, str]()"}.get(k, "default=None")
        args.append(d)
    for flag in ("compare", "repr", "init"):
        if not a.get(flag, True):
            args.append(f"{flag}=False")
    if a.get("via") == "field":            # declared through dataclasses.field(...)
        return [f"    {n}: {ann} = dataclasses.field({', '.join(args)})"]
    if not args:
        return [f"    {n}: {ann}"]
    return [f"    {n}: {ann} = Attr({', '.join(args)})"]


REDEFAULT_VALUE = {"int": "7", "str": "'z'", "list": "[9]", "dict": "{'z': 9}", "spec": "Inner(p=9)"}
LEAF_REDEFAULT_VALUE = {"int": "8", "str": "'y'", "list": "[8]", "dict": "{'y': 8}", "spec": "Inner(p=8)"}


def attrs_of(fam, cname):
    """the attributes of Base / Sub / Plain / Leaf / PlainSub AS DECLARED in the hierarchy (name, kind,
    flags, default): a spec subclass that only re-assigns the default of an inherited attribute
    (`a0 = 7`) keeps the owner's flags; an annotated re-declaration (`a0: int = 7`) is a new
    declaration with default flags; `a0: int = Attr(...)` declares new flags.  Leaf (spec subclass of
    Sub) may again re-default / re-declare what it inherits from Base or Sub."""
    out = [dict(a) for a in fam["attrs"]]
    if cname not in ("Sub", "Leaf", "PlainSub"):
        return out

    def apply(rds):
        for rd in rds:
            for a in out:
                if a["name"] == rd["name"]:
                    a["default"] = True
                    if rd["form"] == "annot":
                        a.update(compare=True, repr=True, init=True)
                    elif rd["form"] == "attr":
                        a.update(compare=rd["compare"], repr=rd["repr"], init=rd["init"])

    apply(fam.get("sub_redefault", []))
    out += [dict(a) for a in fam.get("sub_attrs", [])]
    if cname != "Leaf":
        return out
    apply(fam.get("leaf_redefault", []))
    return out + [dict(a) for a in fam.get("leaf_attrs", [])]


def redefault_decl(fam, rd, leaf=False):
    a = next(x for x in fam["attrs"] + fam.get("sub_attrs", []) if x["name"] == rd["name"])
    k, n = a["kind"], rd["name"]
    v = LEAF_REDEFAULT_VALUE.get(k, "5") if leaf else REDEFAULT_VALUE.get(k, "0")
    ann = ANN.get(k, "Any")
    if rd["form"] == "plain":
        return f"    {n} = {v}"
    if rd["form"] == "annot":
        return f"    {n}: {ann} = {v}"
    d = f"default={v}" if k in ("int", "str") or k not in REDEFAULT_VALUE else f"default_factory=lambda: {v}"
    flags = "".join(f", {f}=False" for f in ("compare", "repr", "init") if not rd[f])
    ctor = "dataclasses.field" if rd.get("via") == "field" else "Attr"
    return f"    {n}: {ann} = {ctor}({d}{flags})"


def family_source(fam):
    src = ["import dataclasses", "from typing import Any, Optional", "from spec_classes import spec_class, Attr",
           "from spec_classes.types.missing import SENTINEL",
           "from spec_classes.types import KeyedList, KeyedSet",
           "import types as M0, json as M1",
           "def F0(): pass", "def F1(): pass", "class K0: pass", "class K1: pass",
           "@spec_class", "class Inner:", "    p: int = 0",
           "    q: Any = Attr(default=None, compare=False)",
           "@spec_class(key='k')", "class Keyed:", "    k: Any", "    b0: Any = None",
           "@spec_class", "class Base:"]
    dnc = [a["name"] for a in fam["attrs"] if a.get("dnc")]
    if dnc:       # (Attr(do_not_copy=True) on the attribute itself is overridden by the decorator argument)
        src[-2] = f"@spec_class(do_not_copy={dnc!r})"
    for a in fam["attrs"]:
        src += decl(a)
    src += ["    def meth0(self): return 0", "    def meth1(self): return 1"]
    src += ["@spec_class", "class Sub(Base):"]
    for rd in fam.get("sub_redefault", []):
        src.append(redefault_decl(fam, rd))
    for a in fam.get("sub_attrs", []):
        src += decl(a)
    if not fam.get("sub_attrs") and not fam.get("sub_redefault"):
        src += ["    pass"]
    src += ["class Plain(Base):", "    pass"]
    src += ["@spec_class", "class Leaf(Sub):"]
    for rd in fam.get("leaf_redefault", []):
        src.append(redefault_decl(fam, rd, leaf=True))
    for a in fam.get("leaf_attrs", []):
        src += decl(a)
    if not fam.get("leaf_attrs") and not fam.get("leaf_redefault"):
        src += ["    pass"]
    src += ["class PlainSub(Sub):", "    pass"]
    src += ["@spec_class(frozen=True)", "class Frozen:", "    f0: Any = None"]
    src += ["@spec_class(do_not_copy=True)", "class Shared:", "    f0: Any = None"]
    return "\n".join(src) + "\n"


class BuildError(Exception):
    """the library raised while an instance of a generated class was being built"""

    def __init__(self, state, step, exc):
        super().__init__(f"{step} raised {type(exc).__name__}: {exc}"[:300])
        self.state, self.step, self.exc = state, step, exc


class Family:
    def __init__(self, fam):
        self.desc = fam
        self.src = family_source(fam)
        self.ns = {}
        exec(compile(self.src, "<c10-family>", "exec"), self.ns)
        self.classes = {n: self.ns[n] for n in CLS_ID}
        self.by_cls = {v: k for k, v in self.classes.items()}
        self.atoms = {id(self.ns["F0"]): 100, id(self.ns["F1"]): 101, id(self.ns["K0"]): 200,
                      id(self.ns["K1"]): 201, id(self.ns["M0"]): 300, id(self.ns["M1"]): 301}
        for n, c in self.classes.items():      # spec class OBJECTS as values: identity-compared atoms
            self.atoms[id(c)] = 400 + CLS_ID[n]
        self.atoms[id(self.ns["SENTINEL"])] = 500  # the library's generic sentinel stored as a VALUE
        from spec_classes import MISSING
        self.MISSING = MISSING

    def attr_specs(self, cname):
        return self.classes[cname].__spec_class__.attrs

    # -- building values from recipes
    def build(self, r, holder=None):
        t = r[0]
        if t == "int":
            return r[1]
        if t == "str":
            return r[1]
        if t == "long":
            return LONG
        if t == "none":
            return None
        if t == "bool":
            return bool(r[1])
        if t == "list":
            return [self.build(x, holder) for x in r[1]]
        if t == "tuple":
            return tuple(self.build(x, holder) for x in r[1])
        if t == "dict":
            return {self.build(k): self.build(v, holder) for k, v in r[1]}
        if t == "func":
            return self.ns[f"F{r[1]}"]
        if t == "class":
            return self.ns[f"K{r[1]}"]
        if t == "module":
            return self.ns[f"M{r[1]}"]
        if t == "sentinel":
            return self.ns["SENTINEL"]
        if t == "speccls":                       # the class object itself, not an instance
            return self.classes[r[1]]
        if t == "meth":
            return getattr(holder, f"meth{r[1]}")
        if t == "inner":
            return self.instance({"cls": "Inner", "attrs": r[1]})
        if t == "keyed":                         # a keyed spec instance; "k": ["unset"] = key deleted
            d = r[1]
            k = d.get("k", ["str", "a"])
            x = self.classes["Keyed"](k=0 if k[0] == "unset" else self.build(k))
            if "b0" in d:
                x.b0 = self.build(d["b0"])
            if k[0] == "unset":
                del x.k
            return x
        if t in ("klist", "kset"):               # KeyedList / KeyedSet of keyed items
            items = [self.build(["keyed", {kk: vv for kk, vv in d.items() if kk != "drop_k"}]) for d in r[1]]
            c = self.ns["KeyedList" if t == "klist" else "KeyedSet"][self.classes["Keyed"], str](items)
            for it, d in zip(items, r[1]):
                if d.get("drop_k"):              # key deleted after the item was stored
                    del it.k
            return c
        raise AssertionError(r)

    def instance(self, st):
        """build the instance a state recipe describes.  An exception raised by the LIBRARY on the way
        (constructor, attribute assignment / deletion) is an outcome of the case, not of the harness:
        it is re-raised as BuildError naming the step."""
        step = f"{st['cls']}()"
        try:
            if st["cls"] in ("Frozen", "Shared"):           # frozen: state only through the constructor
                kw = {n: self.build(r) for n, r in st["attrs"].items()}
                step = f"{st['cls']}(**{sorted(kw)})"
                return self.classes[st["cls"]](**kw)
            x = self.classes[st["cls"]]()
            for name, r in st["attrs"].items():
                if r[0] in ("default", "missing"):
                    continue
                if r[0] == "deleted":
                    step = f"x.{name} = <{r[1][0]}>; del x.{name}"
                    setattr(x, name, self.build(r[1], x))
                    delattr(x, name)
                    continue
                step = f"x.{name} = <{r[0]}>"
                setattr(x, name, self.build(r, x))
            return x
        except AssertionError:
            raise
        except Exception as e:
            raise BuildError(st, step, e) from e

    # -- encoding to Coq terms (trees)
    def is_spec(self, v):
        return type(v) in self.by_cls

    def val(self, v, holder=None):
        if v is self.MISSING:
            return "VMissing"
        if v is None:
            return "VNone"
        if isinstance(v, bool):
            return f"(VBool {cbool(v)})"
        if isinstance(v, int):
            return f"(VInt {cz(v)})"
        if isinstance(v, str):
            return f"(VStr {str_id(v)})"
        if isinstance(v, self.ns["KeyedList"]):    # for ==: the list of its items
            return "(VList " + clist(list(v._list), lambda x: self.val(x, None)) + ")"
        if isinstance(v, self.ns["KeyedSet"]):     # for ==: the mapping key -> item
            return "(VDict " + clist(v._dict.items(), lambda kv: f"({self.val(kv[0])}, {self.val(kv[1], None)})") + ")"
        if isinstance(v, list):
            return "(VList " + clist(v, lambda x: self.val(x, None)) + ")"
        if isinstance(v, tuple):
            return "(VTuple " + clist(v, lambda x: self.val(x, None)) + ")"
        if isinstance(v, dict):
            return "(VDict " + clist(v.items(), lambda kv: f"({self.val(kv[0])}, {self.val(kv[1], None)})") + ")"
        if inspect.ismethod(v):
            return f"(VMeth {meth_id(v.__func__.__name__)} {cbool(holder is not None and v.__self__ is holder)})"
        if id(v) in self.atoms:
            return f"(VAtom {self.atoms[id(v)]})"
        if inspect.isfunction(v):
            return f"(VAtom {meth_id(v.__name__)})"
        if self.is_spec(v):
            cname = self.by_cls[type(v)]
            names = self.attr_specs(cname)
            d = object.__getattribute__(v, "__dict__")
            items = [(n, w) for n, w in d.items() if n in names]
            return f"(VInst {CLS_ID[cname]}%nat " + clist(items, lambda nw: f"({attr_id(nw[0])}%nat, {self.val(nw[1], v)})") + ")"
        raise AssertionError(f"cannot encode {v!r}")

    def cls_term(self, cname):
        cls = self.classes[cname]
        anc = [CLS_ID[self.by_cls[b]] for b in cls.__mro__[1:] if b in self.by_cls]
        # compare / repr / init are what the hierarchy DECLARES (the oracle must not trust
        # the metadata the library built); defaults and do_not_copy are read back
        declared = {a["name"]: a for a in attrs_of(self.desc, cname)} if cname in FAMILY_CLASSES else {}
        attrs = []
        for n, sp in self.attr_specs(cname).items():
            dv = sp.lookup_default_value(cls)
            dflt = "None" if dv is self.MISSING else f"(Some {self.val(dv)})"
            cv = inspect.getattr_static(cls, n, self.MISSING)
            if cv is self.MISSING:
                cl = "None"
            elif inspect.isfunction(cv):
                cl = f"(Some (CFun {meth_id(cv.__name__)}))"
            else:
                try:
                    cl = f"(Some (CVal {self.val(cv)}))"
                except AssertionError:
                    cl = "None"
            dec = declared.get(n)
            if dec is None or dec["kind"] == "clsfun":
                fl = (sp.compare, sp.repr, sp.init) if dec is None else (True, True, True)
            else:
                fl = (dec.get("compare", True), dec.get("repr", True), dec.get("init", True))
            attrs.append(f"mkattr {attr_id(n)}%nat {cbool(fl[0])} {cbool(fl[1])} {cbool(fl[2])} "
                         f"{cbool(bool(sp.do_not_copy))} {dflt} {cl}")
        meta = cls.__spec_class__
        key = "None" if not meta.key else f"(Some {attr_id(meta.key)}%nat)"
        return (f"(mkcls {clist(anc, lambda c: f'{c}%nat')} {clist(attrs)} {cbool(bool(meta.frozen))} "
                f"{cbool(bool(meta.do_not_copy is True))} {key})")

    def ct_term(self):
        order = sorted(CLS_ID, key=CLS_ID.get)
        return clist([self.cls_term(c) for c in order])

    def check_table(self):
        """the metadata the implementation resolved must be what the hierarchy declares"""
        for cname in FAMILY_CLASSES:
            dec = attrs_of(self.desc, cname)
            got = self.attr_specs(cname)
            if list(got) != [a["name"] for a in dec]:
                return f"{cname}: attribute order {list(got)}"
            for a in dec:
                if a["kind"] == "clsfun":
                    continue
                for flag in ("compare", "repr", "init"):
                    if bool(getattr(got[a["name"]], flag)) != bool(a.get(flag, True)):
                        return f"{cname}.{a['name']}.{flag} is {getattr(got[a['name']], flag)}, declared {a.get(flag, True)}"
        return None


_STR = {}


def str_id(s):
    return _STR.setdefault(s, len(_STR) + 1)


# ------------------------------------------------------------------ observation helpers
def tri(f):
    try:
        r = f()
        return 1 if r is True else 0 if r is False else -99
    except RecursionError:
        return ERR_CODES["Fuel"]
    except BaseException as e:
        if isinstance(e, (KeyboardInterrupt, SystemExit)):
            raise
        return -98


def obs_pair(a, b):
    return [tri(lambda: a == b), tri(lambda: b == a), tri(lambda: a != b), tri(lambda: b != a),
            tri(lambda: a.__eq__(b)), tri(lambda: b.__eq__(a))]


# ------------------------------------------------------------------ repr: graph recipes, heap encoding, parser
def build_graph(F, g):
    nodes = g["nodes"]
    objs = [None] * len(nodes)
    for i, nd in enumerate(nodes):
        if nd[0] == "inst":
            try:
                objs[i] = F.classes[nd[1]]() if nd[1] != "Keyed" else F.classes["Keyed"](k=0)
            except Exception as e:
                raise BuildError({"cls": nd[1], "attrs": {}}, f"{nd[1]}()", e) from e
        elif nd[0] == "list":
            objs[i] = []
        elif nd[0] == "dict":
            objs[i] = {}
    # keyed containers as graph nodes (so that they can be part of a cycle): their items are Keyed
    # instance nodes, which need their (scalar) key before the container is created
    for i, nd in enumerate(nodes):
        if nd[0] == "inst" and nd[1] == "Keyed" and nd[2].get("k", ["unset"])[0] not in ("unset", "n", "methof"):
            object.__getattribute__(objs[i], "__dict__")["k"] = F.build(nd[2]["k"])
    for i, nd in enumerate(nodes):
        if nd[0] in ("klist", "kset"):
            cls = F.ns["KeyedList" if nd[0] == "klist" else "KeyedSet"][F.classes["Keyed"], str]
            objs[i] = cls([objs[r[1]] for r in nd[1]])

    def ref(r):
        if r[0] == "n":
            if objs[r[1]] is None:
                nd = nodes[r[1]]
                assert nd[0] == "tuple"
                objs[r[1]] = tuple(ref(x) for x in nd[1])
            return objs[r[1]]
        if r[0] == "methof":
            return getattr(ref(["n", r[1]]), f"meth{r[2]}")
        return F.build(r)

    for i, nd in enumerate(nodes):
        if nd[0] == "tuple":
            ref(["n", i])
    for i, nd in enumerate(nodes):
        if nd[0] == "list":
            objs[i].extend(ref(x) for x in nd[1])
        elif nd[0] == "dict":
            for k, v in nd[1]:
                objs[i][F.build(k)] = ref(v)
        elif nd[0] == "inst":
            for name, r in nd[2].items():
                if r[0] == "missing":
                    continue
                if r[0] == "unset":                  # really absent (also the constructor's value)
                    object.__getattribute__(objs[i], "__dict__").pop(name, None)
                    continue
                object.__getattribute__(objs[i], "__dict__")[name] = ref(r)
    return objs[g["root"]]


def heap_terms(F, root):
    """DFS numbering of lists, tuples, dicts and spec instances reachable from root"""
    locs, order = {}, []

    def visit(o):
        if id(o) in locs:
            return
        locs[id(o)] = len(order)
        order.append(o)
        for c in children(o):
            if isinstance(c, (list, tuple, dict)) or F.is_spec(c):
                visit(c)
            elif inspect.ismethod(c) and F.is_spec(c.__self__):
                visit(c.__self__)

    def children(o):
        if isinstance(o, (list, tuple)):
            return list(o)
        if isinstance(o, dict):
            return list(o.values())
        names = F.attr_specs(F.by_cls[type(o)])
        return [w for n, w in object.__getattribute__(o, "__dict__").items() if n in names]

    def hv(v):
        if v is F.MISSING:
            return "HMissing"
        if isinstance(v, (list, tuple, dict)) or F.is_spec(v):
            return f"(HRef {locs[id(v)]}%nat)"
        if inspect.ismethod(v):
            r = f"(Some {locs[id(v.__self__)]}%nat)" if id(v.__self__) in locs else "None"
            return f"(HMeth {meth_id(v.__func__.__name__)} {r})"
        return "HLeaf"

    visit(root)
    out = []
    for o in order:
        if isinstance(o, list):
            out.append("OList " + clist(o, hv))
        elif isinstance(o, tuple):
            out.append("OTuple " + clist(o, hv))
        elif isinstance(o, dict):
            out.append("ODict " + clist(o.items(), lambda kv: f"({hv(kv[0])}, {hv(kv[1])})"))
        else:
            cname = F.by_cls[type(o)]
            names = F.attr_specs(cname)
            items = [(n, w) for n, w in object.__getattribute__(o, "__dict__").items() if n in names]
            out.append(f"OInst {CLS_ID[cname]}%nat " + clist(items, lambda nw: f"({attr_id(nw[0])}%nat, {hv(nw[1])})"))
    return clist(out), len(order)


class ReprParser:
    """repr string -> tree of (kind, items, fields); kinds as in Corr/EqCorr.v:kind_of"""

    def __init__(self, text):
        self.t, self.i = text, 0

    def ws(self):
        while self.i < len(self.t) and self.t[self.i] in " \n\t":
            self.i += 1

    def at(self, s):
        return self.t.startswith(s, self.i)

    def expect(self, s):
        self.ws()
        if not self.at(s):
            raise ValueError(f"expected {s!r} at {self.i}: {self.t[self.i:self.i + 30]!r}")
        self.i += len(s)

    def value(self):
        self.ws()
        t = self.t
        if self.at("<self>"):
            self.i += 6
            return {"kind": 1}
        if self.at("<bound method "):
            j = t.index(" of ", self.i)
            self.i = j + 4
            if self.at("self>"):
                self.i += 5
                return {"kind": 3}
            inner = self.value()
            self.expect(">")
            return {"kind": 4, "inner": inner}
        if self.at("<"):
            depth = 0
            while True:
                c = t[self.i]
                if c in "'\"":
                    self.string()
                    continue
                if c == "<":
                    depth += 1
                elif c == ">":
                    depth -= 1
                    if depth == 0:
                        self.i += 1
                        return {"kind": 0}
                self.i += 1
        for m in ("[...]", "{...}", "(...)"):
            if self.at(m):
                self.i += 5
                return {"kind": 8}
        if self.at("[") or self.at("("):
            close = "]" if t[self.i] == "[" else ")"
            self.i += 1
            items = []
            while True:
                self.ws()
                if self.at(close):
                    self.i += 1
                    return {"kind": 6, "items": items}
                items.append(self.value())
                self.ws()
                if self.at(","):
                    self.i += 1
        if self.at("{"):
            self.i += 1
            items = []
            while True:
                self.ws()
                if self.at("}"):
                    self.i += 1
                    return {"kind": 7, "items": items}
                first = self.value()
                self.ws()
                if self.at(":"):
                    self.i += 1
                    items.append(self.value())
                else:                                # set form: {item, item}
                    items.append(first)
                self.ws()
                if self.at(","):
                    self.i += 1
        if t[self.i] in "'\"":
            self.string()
            return {"kind": 0}
        j = self.i
        while j < len(t) and (t[j].isalnum() or t[j] in "_.-"):
            j += 1
        word = t[self.i:j]
        if not word:
            raise ValueError(f"cannot parse at {self.i}: {t[self.i:self.i + 30]!r}")
        self.i = j
        if word in ("KeyedList", "KeyedSet"):       # type_label(...)(<list or set form>)
            if self.at("["):
                depth = 0
                while True:
                    c = t[self.i]
                    depth += (c == "[") - (c == "]")
                    self.i += 1
                    if depth == 0:
                        break
            self.expect("(")
            inner = self.value()
            self.expect(")")
            return inner
        if self.at("("):
            self.i += 1
            indented = self.at("\n")
            fields = []
            while True:
                self.ws()
                if self.at("..."):
                    self.i += 3
                    self.expect(")")
                    return {"kind": 5, "cls": word, "key": fields[0][1] if fields else None}
                if self.at(")"):
                    self.i += 1
                    return {"kind": 9, "cls": word, "fields": fields, "indented": indented}
                k = self.i
                while t[k] != "=":
                    k += 1
                name = t[self.i:k].strip()
                self.i = k + 1
                fields.append((name, self.value()))
                self.ws()
                if self.at(","):
                    self.i += 1
        return {"kind": 2 if word == "MISSING" else 0}

    def string(self):
        q = self.t[self.i]
        self.i += 1
        while self.t[self.i] != q:
            if self.t[self.i] == "\\":
                self.i += 1
            self.i += 1
        self.i += 1


def enc_tree(nd):
    """flat encoding of a parsed rendering; mirrors Corr/EqCorr.v:enc_tree"""
    k = nd["kind"]
    if k == 4:
        return [4] + enc_tree(nd["inner"])
    if k == 5:
        return [5, 0] if nd.get("key") is None else [5, 1] + enc_tree(nd["key"])
    if k in (6, 7):
        out = [k, len(nd["items"])]
        for x in nd["items"]:
            out += enc_tree(x)
        return out
    if k == 9:
        out = [9, CLS_ID.get(nd["cls"], 99), int(nd["indented"]), len(nd["fields"])]
        for n, v in nd["fields"]:
            out += [attr_id(n)] + enc_tree(v)
        return out
    return [k]


def nested_indented(nd, top=True):
    """is some instance below the top rendered in its indented form?  (then the model's
    length oracle for nested instances is unknown and only two levels are compared)"""
    k = nd["kind"]
    if k == 9:
        if not top and nd["indented"]:
            return True
        return any(nested_indented(v, False) for _, v in nd["fields"])
    if k == 4:
        return nested_indented(nd["inner"], False)
    if k == 5:
        return nd.get("key") is not None and nested_indented(nd["key"], False)
    if k in (6, 7):
        return any(nested_indented(x, False) for x in nd["items"])
    return False


def obs_repr(call):
    """-> (status, indented, names, kinds) of one __repr__ call"""
    try:
        s = call()
    except RecursionError:
        return (ERR_CODES["Fuel"], False, [], [], "RecursionError", [])
    except BaseException as e:
        if isinstance(e, (KeyboardInterrupt, SystemExit)):
            raise
        return (-98, False, [], [], f"{type(e).__name__}: {e}"[:200], [])
    try:
        p = ReprParser(s)
        node = p.value()
        p.ws()
        if p.i != len(s) or node["kind"] != 9:
            raise ValueError("not a full instance representation")
        names, kinds = [], []
        for n, v in node["fields"]:
            names.append(attr_id(n))
            kinds.append([v["kind"]] + [x["kind"] for x in v.get("items", [])])
        tree = [] if nested_indented(node) else enc_tree(node)
        return (1, node["indented"], names, kinds, s, tree)
    except (ValueError, IndexError, KeyError) as e:
        return (-97, False, [], [], f"unparsable repr ({e}): {s[:200]}", [])


def robs_term(o):
    return (f"(mk_robs {cz(o[0])} {cbool(o[1])} {clist(o[2], lambda n: f'{n}%nat')} "
            f"{clist(o[3], lambda ks: clist(ks, cz))} {clist(o[5], cz)})")


# ------------------------------------------------------------------ running one case
BUILD_KEY = "instance cannot be built"
FAMILY_KEY = "class family cannot be defined"


def is_build_failure(obs):
    return isinstance(obs, dict) and (BUILD_KEY in obs or FAMILY_KEY in obs)


def run_case(F, case):
    """-> (check function, Coq term, observation for the report).  An exception of the library while
    an instance of the case is BUILT is the case's outcome (python-side verdict 2: every coherence law
    of the property presupposes that instances of a generated class can be constructed, and
    re-construction from own attribute values must succeed); any other unexpected exception is
    reported for this case (verdict 1, no failing input claimed) -- the run goes on."""
    try:
        return run_case0(F, case)
    except BuildError as e:
        return "py", 2, {BUILD_KEY: str(e), "state": json.dumps(e.state)[:300]}
    except RecursionError as e:
        return "py", 1, {"harness": f"RecursionError while running the case: {e}"[:300]}
    except Exception as e:
        return "py", 1, {"harness": f"{type(e).__name__} while running / encoding the case: {e}"[:300]}


def run_case0(F, case):
    k = case["kind"]
    ct = f"ct_{case['fam']}"
    if k == "eq":
        a, b = F.instance(case["a"]), F.instance(case["b"])
        obs = obs_pair(a, b)
        return "check_eq", f"mk_eq {ct} {F.val(a)} {F.val(b)} {clist(obs, cz)}", obs
    if k == "tri":
        a, b, c = (F.instance(case[x]) for x in "abc")
        obs = [tri(lambda: a == b), tri(lambda: b == c), tri(lambda: a == c)]
        return "check_tri", f"mk_tri {ct} {F.val(a)} {F.val(b)} {F.val(c)} {clist(obs, cz)}", obs
    if k in ("dc", "rb"):
        x = F.instance(case["a"])
        try:
            if k == "dc":
                y = copy.deepcopy(x)
            else:
                cn = case["a"]["cls"]
                if cn in FAMILY_CLASSES:
                    inits = [a["name"] for a in attrs_of(F.desc, cn) if a.get("init", True)]
                else:
                    inits = [n for n, sp in F.attr_specs(cn).items() if sp.init]
                kw = {n: getattr(x, n) for n in inits if hasattr(x, n)}
                y = type(x)(**kw)
            o = tri(lambda: y == x)
            yt = F.val(y)
        except BaseException as e:
            if isinstance(e, (KeyboardInterrupt, SystemExit)):
                raise
            o, yt = -98, "VMissing"
        return "check_dc", f"mk_dc {ct} {0 if k == 'dc' else 1}%nat {F.val(x)} {yt} {cz(o)}", o
    if k == "repr":
        x = build_graph(F, case["graph"])
        o_f = obs_repr(lambda: x.__repr__(indent=False))
        o_t = obs_repr(lambda: x.__repr__(indent=True))
        o_n = obs_repr(lambda: repr(x))
        if reaches_keyed_container(F, x):
            # KeyedList / KeyedSet are outside the Coq heap model: the property oracle (no exception,
            # exactly the declared repr-enabled attributes in order) is evaluated here
            cn = F.by_cls[type(x)]
            want = [attr_id(a["name"]) for a in attrs_of(F.desc, cn) if a["kind"] == "clsfun" or a.get("repr", True)]
            ok = all(o[0] == 1 and o[2] == want for o in (o_f, o_t, o_n))
            STATS["repr:python-side-oracle(keyed containers)"] = STATS.get("repr:python-side-oracle(keyed containers)", 0) + 1
            return "py", 0 if ok else 2, {"indent=False": o_f[4], "indent=True": o_t[4], "indent=None": o_n[4]}
        heap, _ = heap_terms(F, x)
        STATS["repr:modes-compared-as-full-tree"] = STATS.get("repr:modes-compared-as-full-tree", 0) + sum(1 for o in (o_f, o_t, o_n) if o[5])
        STATS["repr:modes-compared-two-levels-only"] = STATS.get("repr:modes-compared-two-levels-only", 0) + sum(1 for o in (o_f, o_t, o_n) if not o[5])
        term = f"mk_repr {ct} {heap} 0%nat {robs_term(o_f)} {robs_term(o_t)} {robs_term(o_n)}"
        return "check_repr", term, {"indent=False": o_f[4], "indent=True": o_t[4], "indent=None": o_n[4]}
    raise AssertionError(k)


def reaches_keyed_container(F, root):
    seen, todo = set(), [root]
    while todo:
        o = todo.pop()
        if id(o) in seen:
            continue
        seen.add(id(o))
        if isinstance(o, (F.ns["KeyedList"], F.ns["KeyedSet"])):
            return True
        if isinstance(o, (list, tuple)):
            todo += list(o)
        elif isinstance(o, dict):
            todo += list(o.values())
        elif F.is_spec(o):
            todo += list(object.__getattribute__(o, "__dict__").values())
        elif inspect.ismethod(o):
            todo.append(o.__self__)
    return False


STATS = {}
CASE_TYPE = {"check_eq": "eq_case", "check_tri": "tri_case", "check_dc": "dc_case", "check_repr": "repr_case"}


def coq_eval_grouped(shards, tag):
    """shards: [(prelude, check function, case type, [terms])] -> ([(shard, index, code)], logs).
    Same protocol as common.coq_eval, with a prelude per shard (class tables of that shard only)."""
    import os
    import re
    from concurrent.futures import ThreadPoolExecutor
    import shutil
    from common import GEN, JOBS, _eval_shard
    # one directory per process: concurrent runs of this check (another agent's scratch tree, a
    # seed sweep) must not overwrite or delete each other's case files
    gen = os.path.join(GEN, f"C10_{os.getpid()}")
    os.makedirs(gen, exist_ok=True)
    for f in os.listdir(gen):
        if f.startswith(f"C10_{tag}_"):
            os.remove(os.path.join(gen, f))
    paths = []
    for k, (prelude, fn, ty, terms) in enumerate(shards):
        path = os.path.join(gen, f"C10_{tag}_{k}.v")
        with open(path, "w") as fh:
            fh.write(prelude + "\n")
            fh.write(f"Definition cases : list ({ty}) := [\n" + ";\n".join(terms) + "\n].\n")
            fh.write(f"Definition result := Eval vm_compute in (failing (map {fn} cases)).\n")
            fh.write("Set Printing Width 1000000.\nPrint result.\n")
        paths.append(path)
    bad, logs = [], []
    with ThreadPoolExecutor(max_workers=JOBS) as ex:
        for k, (path, rc, out) in enumerate(ex.map(_eval_shard, [(p,) for p in paths])):
            if rc != 0:
                logs.append(f"{path}: rc={rc}\n{out[:800]} ... {out[-600:]}")
                continue
            m = re.search(r"result\s*=\s*(.*?)\s*:\s*list", out, re.S)
            if not m:
                logs.append(f"{path}: cannot parse\n{out[-2000:]}")
                continue
            for a, b in re.findall(r"\(\s*(\d+)%?n?a?t?,\s*(\d+)%?n?a?t?\s*\)", m.group(1)):
                bad.append((k, int(a), int(b)))
    if not logs:
        shutil.rmtree(gen, ignore_errors=True)
    return bad, logs


def evaluate(fams, cases, tag="c", shard=250):
    """fams: {fam id: description}; returns ([(case index, code, observation)], logs)"""
    built, ctdef = {}, {}
    logs = []
    broken = {}
    for fid in sorted({c["fam"] for c in cases}):
        try:
            F = Family(fams[fid])
        except Exception as e:            # the library rejects a class family of the grammar
            broken[fid] = (2, {FAMILY_KEY: f"{type(e).__name__}: {e}"[:300]})
            continue
        try:
            ctdef[fid] = f"Definition ct_{fid} : list cls := {F.ct_term()}."
            bad = F.check_table()
        except Exception as e:
            broken[fid] = (1, {"harness": f"{type(e).__name__} while encoding the class table: {e}"[:300]})
            continue
        built[fid] = F
        if bad:
            logs.append(f"class table of family {fid} differs from its description: {bad}")
    groups = {}
    pyside = []
    for i, c in enumerate(cases):
        if c["fam"] in broken:
            pyside.append((i,) + broken[c["fam"]])
            continue
        fn, term, obs = run_case(built[c["fam"]], c)
        if fn == "py":
            if term:
                pyside.append((i, term, obs))
        else:
            groups.setdefault(fn, []).append((c["fam"], i, term, obs))
        key = c["kind"] + ":" + (json.dumps(obs) if c["kind"] != "repr" or fn == "py" and term else
                                 "/".join("indented" if v.startswith(("Base(\n", "Sub(\n", "Plain(\n", "Leaf(\n", "PlainSub(\n")) else "one-line"
                                          for v in obs.values()))
        if fn == "py" and term:
            key = c["kind"] + ":" + ("instance cannot be built" if is_build_failure(obs) else "not evaluated")
        STATS[key] = STATS.get(key, 0) + 1
    shards, index = [], []
    for fn, items in groups.items():
        items.sort(key=lambda t: t[0])
        for k in range(0, len(items), shard):
            part = items[k:k + shard]
            prelude = "\n".join([PRELUDE] + [ctdef[f] for f in sorted({t[0] for t in part})])
            shards.append((prelude, fn, CASE_TYPE[fn], [t[2] for t in part]))
            index.append(part)
    b, lg = coq_eval_grouped(shards, tag)
    out = [(index[k][j][1], code, index[k][j][3]) for k, j, code in b] + pyside
    return out, logs + lg


# ------------------------------------------------------------------ generation
def values_for(kind, rng):
    """alternative values of one kind; the first two are different under =="""
    if kind == "int":
        return [["int", 1], ["int", 2], ["bool", True], ["int", 0]]
    if kind == "str":
        return [["str", "a"], ["str", "b"], ["str", "ab"]]
    if kind == "list":
        return [["list", [["int", 1]]], ["list", []], ["list", [["int", 1], ["list", [["str", "a"]]]]],
                ["list", [["inner", {"p": ["int", 1]}]]], ["list", [["inner", {"p": ["int", 1], "q": ["int", 9]}]]],
                ["list", [["bool", True]]], ["list", [["tuple", [["int", 1], ["none"]]]]],
                ["list", [["speccls", "Base"], ["speccls", "Keyed"]]], ["list", [["speccls", "Inner"], ["class", 0]]],
                ["list", [["keyed", {"k": ["unset"]}]]], ["list", [["keyed", {"k": ["str", "a"]}], ["keyed", {"k": ["unset"], "b0": ["int", 1]}]]],
                ["list", [["keyed", {"k": ["str", "a"], "b0": ["int", 1]}]]]]
    if kind == "dict":
        return [["dict", [[["str", "a"], ["int", 1]]]], ["dict", []],
                ["dict", [[["str", "a"], ["int", 1]], [["str", "b"], ["int", 2]]]],
                ["dict", [[["str", "b"], ["int", 2]], [["str", "a"], ["int", 1]]]],
                ["dict", [[["int", 1], ["list", [["int", 1]]]]]], ["dict", [[["bool", True], ["list", [["int", 1]]]]]],
                ["dict", [[["str", "a"], ["speccls", "Base"]]]], ["dict", [[["str", "a"], ["speccls", "Keyed"]]]],
                ["dict", [[["str", "a"], ["keyed", {"k": ["unset"]}]]]], ["dict", [[["str", "a"], ["keyed", {"k": ["str", "a"]}]]]]]
    if kind in ("klist", "kset"):
        A1, B2 = {"k": ["str", "a"], "b0": ["int", 1]}, {"k": ["str", "b"], "b0": ["int", 2]}
        vs = [[A1, B2],                                            # the first two differ in a NON-KEY attribute of one item
              [A1, {"k": ["str", "b"], "b0": ["int", 3]}],
              [A1, {"k": ["str", "c"], "b0": ["int", 2]}],          # one item's key differs
              [B2, A1],                                            # order (list: unequal, set: equal)
              [A1], [],
              [A1, {"k": ["str", "b"], "b0": ["list", [["int", 2]]]}],
              [A1, {"k": ["str", "b"], "b0": ["int", 2], "drop_k": True}],   # key deleted after insertion
              [{"k": ["str", "a"]}, B2]]                           # b0 left at its default
        return [[kind, v] for v in vs]
    if kind == "opt":                     # Optional[int]: None is an ordinary value
        return [["int", 1], ["int", 2], ["none"], ["int", 0], ["bool", False]]
    if kind == "spec":
        return [["inner", {"p": ["int", 1]}], ["inner", {"p": ["int", 2]}], ["inner", {"p": ["int", 1], "q": ["str", "a"]}],
                ["inner", {}]]
    if kind == "meth":
        return [["meth", 0], ["meth", 1], ["func", 0], ["none"], ["speccls", "Base"]]
    if kind == "clsfun":
        return [["default"], ["meth", 0], ["func", 0], ["meth", 1]]
    if kind == "func":
        return [["func", 0], ["func", 1], ["none"], ["speccls", "Inner"], ["keyed", {"k": ["unset"]}],
                ["keyed", {"k": ["str", "a"]}]]
    if kind == "class":
        return [["speccls", "Base"], ["speccls", "Keyed"], ["class", 0], ["speccls", "Inner"], ["class", 1],
                ["speccls", "Sub"], ["speccls", "Plain"]]
    if kind == "module":
        # a module AFTER a spec instance inside one container: the instance's own copy is a nested guarded copy that
        # ends before the module is reached (seed C10-G1: the nested exit must not withdraw the outer guard)
        return [["module", 0], ["module", 1], ["none"], ["speccls", "Keyed"], ["keyed", {"k": ["unset"], "b0": ["int", 1]}],
                ["keyed", {"k": ["int", 1], "b0": ["int", 1]}],
                ["list", [["keyed", {"k": ["str", "a"], "b0": ["int", 1]}], ["module", 0]]],
                ["list", [["module", 1], ["keyed", {"k": ["str", "a"]}], ["module", 0]]],
                ["dict", [[["str", "a"], ["keyed", {"k": ["str", "a"]}]], [["str", "b"], ["module", 1]]]],
                ["tuple", [["keyed", {"k": ["int", 1]}], ["module", 0]]]]
    raise AssertionError(kind)


ANY_BLANKS = [["none"], ["int", 0], ["bool", False], ["str", ""], ["list", []], ["dict", []], ["tuple", []], ["sentinel"]]


def blanks_for(kind):
    """the values of one kind that a lookup with the WRONG fallback would take for "not assigned":
    None, the falsy values the annotation admits, and (for Any) the library's generic sentinel stored
    as a value.  An attribute holding one of these is NOT missing."""
    if kind == "int":
        return [["int", 0], ["bool", False]]
    if kind == "str":
        return [["str", ""]]
    if kind == "list":
        return [["list", []]]
    if kind == "dict":
        return [["dict", []]]
    if kind == "spec":
        return [["inner", {}]]
    if kind in ("klist", "kset"):
        return [[kind, []]]
    if kind == "opt":
        return [["none"], ["int", 0], ["bool", False]]
    if kind == "clsfun":
        return []
    return ANY_BLANKS                     # meth / func / class / module are annotated Any


def gen_family(rng, kinds=None, flags=None):
    n = len(kinds) if kinds else rng.randint(3, 5)
    attrs = []
    for i in range(n):
        k = kinds[i] if kinds else rng.choice(KINDS)
        a = {"name": f"a{i}", "kind": k}
        if k != "clsfun":
            a["compare"] = rng.random() < 0.7 if flags is None else flags[i][0]
            a["repr"] = rng.random() < 0.7 if flags is None else flags[i][1]
            a["default"] = rng.random() < 0.5
            # init=False only with a scalar default (DESIGN 5 #15: subclass constructors reject others)
            a["init"] = not (k in ("int", "str") and a["default"] and rng.random() < 0.15)
            a["dnc"] = k in ("list", "dict", "spec", "meth") and rng.random() < 0.2
            if rng.random() < 0.35:
                a["via"] = "field"
        attrs.append(a)
    sub = []
    if rng.random() < 0.8:
        k = rng.choice(["int", "str", "list", "meth"])
        sub = [{"name": "b0", "kind": k, "compare": rng.random() < 0.7, "repr": rng.random() < 0.7,
                "default": True, "init": True}]
        if rng.random() < 0.5:
            sub[0]["via"] = "field"
        if rng.random() < 0.4:             # Sub's own attribute may be unassigned too (Optional / Any / typed)
            sub[0]["default"] = False
            sub[0]["kind"] = rng.choice(["opt", "func", "int", "str", "list"])
    rds = []
    cand = [a for a in attrs if a["kind"] not in ("clsfun", "klist", "kset")]
    if kinds is None and cand and rng.random() < 0.7:
        for a in rng.sample(cand, min(len(cand), rng.choice((1, 1, 2)))):
            form = rng.choice(("plain", "plain", "plain", "annot", "attr"))
            rd = {"name": a["name"], "form": form}
            if form == "attr":
                rd.update(compare=rng.random() < 0.5, repr=rng.random() < 0.5, init=True)
                if rng.random() < 0.5:
                    rd["via"] = "field"
            rds.append(rd)
    return {"attrs": attrs, "sub_attrs": sub, "sub_redefault": rds}


def spec_sub_ok(fam):
    return True       # (DESIGN 5 #15 is repaired: Sub() works with defaulted init=False attributes)


def gen_state(rng, fam, cname):
    st = {}
    alist = attrs_of(fam, cname)
    for a in alist:
        vals = values_for(a["kind"], rng)
        r = rng.random()
        if a["kind"] == "clsfun":
            st[a["name"]] = rng.choice(vals)
        elif not a.get("default") and r < 0.2:
            st[a["name"]] = ["missing"] if rng.random() < 0.5 else ["deleted", vals[0]]
        elif a.get("default") and r < 0.2:
            st[a["name"]] = ["default"]
        elif r > 0.9 and blanks_for(a["kind"]):
            st[a["name"]] = rng.choice([b for b in blanks_for(a["kind"]) if b[0] != "sentinel"])
        else:
            st[a["name"]] = rng.choice(vals[:3]) if rng.random() < 0.7 else rng.choice(vals)
    return {"cls": cname, "attrs": st}


def one_diff_pairs(fam, cname="Base", blank_alts=True, full=True, max_blanks=None):
    """for each attribute position: the base state and a state that differs only there (another
    value; not assigned), and -- "missing equals only missing" -- a state where the attribute is not
    assigned (never set / set and deleted) against one where it holds None / a falsy value / a
    sentinel (`blanks_for`).  blank_alts: also base value vs blank value and pairs of blanks;
    full=False: the set-and-deleted variant only for the first blank; max_blanks: only the first n."""
    alist = attrs_of(fam, cname)
    base = {}
    for a in alist:
        base[a["name"]] = values_for(a["kind"], None)[0]
    out = []
    for a in alist:
        vals = values_for(a["kind"], None)
        alts = [vals[1]]
        if not a.get("default") and a["kind"] != "clsfun":
            alts.append(["missing"])
        for alt in alts:
            st = dict(base)
            st[a["name"]] = alt
            out.append(({"cls": cname, "attrs": dict(base)}, {"cls": cname, "attrs": st}, a["name"]))
        for bi, blank in enumerate(blanks_for(a["kind"])[:max_blanks]):
            sb = dict(base)
            sb[a["name"]] = blank
            if not a.get("default"):
                for gone in (["missing"], ["deleted", blank]) if full or bi == 0 else (["missing"],):
                    sm = dict(base)
                    sm[a["name"]] = gone
                    out.append(({"cls": cname, "attrs": sm}, {"cls": cname, "attrs": sb}, a["name"]))
            if blank_alts and blank != base[a["name"]]:
                out.append(({"cls": cname, "attrs": dict(base)}, {"cls": cname, "attrs": sb}, a["name"]))
            if blank_alts and bi:             # two different blanks (None vs 0, 0 vs False [equal], '' vs [], [] vs {}, ...)
                sp = dict(base)
                sp[a["name"]] = blanks_for(a["kind"])[bi - 1]
                out.append(({"cls": cname, "attrs": sp}, {"cls": cname, "attrs": sb}, a["name"]))
    return out


def position_states(fam, cname, only=None):
    """the state holding the first value of every attribute and, for every attribute position (own,
    inherited, re-declared), the state holding the second value there; init=False attributes stay at
    their default (so that every state can be re-constructed from its own values)"""
    alist = attrs_of(fam, cname)
    base = {a["name"]: values_for(a["kind"], None)[0] if a.get("init", True) else ["default"] for a in alist}
    out = [{"cls": cname, "attrs": dict(base)}]
    for a in alist:
        if not a.get("init", True) or (only is not None and a["name"] not in only):
            continue
        st = dict(base)
        st[a["name"]] = values_for(a["kind"], None)[1]
        out.append({"cls": cname, "attrs": st})
    return out


def gen_hier_family(rng, i):
    """a two-level hierarchy: Base <- Sub <- Leaf (spec classes), PlainSub(Sub), Plain(Base); Sub and
    Leaf re-default / re-declare attributes they inherit (from the root and from the class in the
    middle), so that the owner of an attribute is the root, the middle or the leaf class."""
    fam = gen_family(rng)
    if not fam["sub_attrs"]:
        fam["sub_attrs"] = [{"name": "b0", "kind": rng.choice(["int", "str", "list"]), "compare": True, "repr": True,
                             "default": rng.random() < 0.7, "init": True}]
    cand = [a for a in fam["attrs"] if a["kind"] not in ("clsfun", "klist", "kset")]
    form = ("annot", "attr", None)[i % 3]
    if form and cand:                     # Sub certainly RE-DECLARES (owns) one inherited attribute
        a = cand[i % len(cand)]
        fam["sub_redefault"] = [r for r in fam["sub_redefault"] if r["name"] != a["name"]]
        rd = {"name": a["name"], "form": form}
        if form == "attr":
            rd.update(compare=True, repr=True, init=True)
        fam["sub_redefault"].append(rd)
    k = rng.choice(["int", "str", "list", "opt", "dict"])
    fam["leaf_attrs"] = [{"name": "c0", "kind": k, "compare": rng.random() < 0.8, "repr": rng.random() < 0.8,
                          "default": rng.random() < 0.6, "init": True}]
    lcand = [a for a in fam["attrs"] + fam["sub_attrs"] if a["kind"] not in ("clsfun", "klist", "kset")]
    rds = []
    if i % 4 != 3:                        # every fourth Leaf only adds its own attribute
        for a in rng.sample(lcand, min(len(lcand), rng.choice((1, 2)))):
            lform = rng.choice(("plain", "annot", "annot", "attr"))
            rd = {"name": a["name"], "form": lform}
            if lform == "attr":
                rd.update(compare=rng.random() < 0.7, repr=rng.random() < 0.7, init=True)
                if rng.random() < 0.5:
                    rd["via"] = "field"
            rds.append(rd)
    fam["leaf_redefault"] = rds
    return fam


def rebuildable(fam, st):
    alist = attrs_of(fam, st["cls"])
    for a in alist:
        r = st["attrs"].get(a["name"], ["default"])
        if not a.get("init", True) and r[0] != "default":
            return False
    return True


def repr_graphs(rng, fam):
    """object graphs (cyclic and not) rooted at a Base/Sub instance; node 0 is the root"""
    names = [a["name"] for a in fam["attrs"] if a["kind"] != "clsfun"]
    if not names:
        return []
    # the interesting values go to repr-enabled attributes first
    shown = {a["name"]: a.get("repr", True) for a in fam["attrs"]}
    names.sort(key=lambda n: not shown[n])
    out = []
    SUB = "Sub" if spec_sub_ok(fam) else "Plain"     # DESIGN 5 #15: such a Sub() cannot be constructed

    def g(assign, extra_nodes=(), cls="Base"):
        attrs = {}
        for n, r in zip(names, assign):
            attrs[n] = r
        return {"nodes": [["inst", cls, attrs]] + list(extra_nodes), "root": 0}

    L = ["long"]
    scal = [["int", 1], ["str", "a"], ["none"], ["func", 0], ["class", 0], ["module", 0],
            ["speccls", "Base"], ["speccls", "Keyed"]]
    pad = lambda xs: xs + [rng.choice(scal + [["missing"]]) for _ in range(len(names) - len(xs))]
    for longv in (False, True):
        tail = [L] if longv else []
        # attribute values that are spec CLASS OBJECTS: the instance's own class, another
        # spec class, a keyed spec class; directly, in a list, in a dict, in a tuple
        for own in ("Base", "Inner", "Keyed", SUB):
            out.append(dict(g([["speccls", own]] + tail + [["int", 1]] * (len(names) - 1 - len(tail))), must=True))
        out.append(dict(g(pad([["n", 1]] + tail), [["list", [["speccls", "Base"], ["speccls", "Keyed"], ["speccls", "Inner"]] + tail]]), must=True))
        out.append(dict(g(pad([["n", 1]] + tail), [["dict", [[["str", "o"], ["speccls", "Base"]], [["str", "k"], ["speccls", "Keyed"]]] + ([[["str", "l"], L]] if longv else [])]]), must=True))
        out.append(dict(g(pad([["n", 1]] + tail), [["tuple", [["speccls", "Base"], ["n", 2]]], ["list", [["speccls", SUB], ["n", 0]]]]), must=True))
        # nested KEYED children whose key (or other attribute) is missing: directly, in a list, in a
        # dict, in a tuple, next to a child that has its key, and referring back to the root
        MK = ["inst", "Keyed", {"k": ["unset"]}]
        out.append(dict(g(pad([["n", 1]] + tail), [MK]), must=True))
        out.append(dict(g(pad([["n", 1]] + tail), [["list", [["n", 2], ["n", 3]]], MK, ["inst", "Keyed", {"k": ["str", "a"], "b0": ["unset"]}]]), must=True))
        out.append(dict(g(pad([["n", 1]] + tail), [["dict", [[["str", "m"], ["n", 2]]]], ["inst", "Keyed", {"k": ["unset"], "b0": ["n", 0]}]]), must=True))
        out.append(dict(g(pad([["n", 1]] + tail), [["tuple", [["n", 2]]], MK]), must=True))
        out.append(dict(g(pad([["n", 1]] + tail), [["inst", "Inner", {"p": ["unset"], "q": ["n", 2]}], MK]), must=True))
        # the same inside KeyedList / KeyedSet attribute values (python-side oracle)
        for kc in ("klist", "kset"):
            out.append(dict(g(pad([[kc, [{"k": ["str", "a"], "drop_k": True}, {"k": ["str", "b"], "b0": ["int", 2]}]]] + tail)), must=True))
            out.append(dict(g(pad([["list", [[kc, [{"k": ["str", "a"], "drop_k": True}]]]]] + tail)), must=True))
        # self-referential keyed containers (python-side oracle): an item whose attribute holds the
        # KeyedSet / KeyedList that contains it; a holder whose keyed container holds an item that
        # points back to the holder; a keyed container reached again through a plain list
        for kc in ("kset", "klist"):
            out.append(dict(g(pad([["n", 1]] + tail), [[kc, [["n", 2]]], ["inst", "Keyed", {"k": ["str", "c"], "b0": ["n", 1]}]]), must=True))
            out.append(dict(g(pad([["n", 1]] + tail), [[kc, [["n", 2], ["n", 3]]], ["inst", "Keyed", {"k": ["str", "c"], "b0": ["n", 0]}],
                                                       ["inst", "Keyed", {"k": ["str", "d"]}]]), must=True))
            out.append(dict(g(pad([["n", 1]] + tail), [["list", [["n", 2], ["int", 1]]], [kc, [["n", 3]]],
                                                       ["inst", "Keyed", {"k": ["str", "c"], "b0": ["n", 1]}]]), must=True))
        # x.a = x
        out.append(g(pad([["n", 0]] + tail)))
        # x.a = [x]; x.a = (x,) ; x.a = {"k": x}
        out.append(g(pad([["n", 1]] + tail), [["list", [["n", 0], ["int", 1]]]]))
        out.append(g(pad([["n", 1]] + tail), [["tuple", [["n", 0]]]]))
        out.append(g(pad([["n", 1]] + tail), [["dict", [[["str", "k"], ["n", 0]]]]]))
        # l = [l]; d = {"s": d}; l = [[l], {"k": l}]
        out.append(g(pad([["n", 1]] + tail), [["list", [["n", 1]] + tail]]))
        out.append(g(pad([["n", 1]] + tail), [["dict", [[["str", "s"], ["n", 1]], [["int", 1], ["int", 2]]]]]))
        out.append(g(pad([["n", 1]] + tail), [["list", [["n", 2], ["n", 3]]], ["list", [["n", 1]]],
                                              ["dict", [[["str", "k"], ["n", 1]]]]]))
        # tuple in a cycle through a list
        out.append(g(pad([["n", 1]] + tail), [["list", [["n", 2]]], ["tuple", [["n", 1], ["int", 1]]]]))
        # two instances referring to each other, directly and through lists
        out.append(g(pad([["n", 1]] + tail), [["inst", "Base", {names[0]: ["n", 0]}]]))
        out.append(g(pad([["n", 1]] + tail), [["list", [["n", 2]]], ["inst", SUB, {names[0]: ["n", 3]}],
                                              ["list", [["n", 0]]]]))
        # bound methods: of self, of another instance, inside a list, of an instance in a cycle
        out.append(g(pad([["methof", 0, 0]] + tail)))
        out.append(g(pad([["methof", 1, 1]] + tail), [["inst", "Plain", {}]]))
        out.append(g(pad([["n", 1]] + tail), [["list", [["methof", 0, 0], ["methof", 2, 0]]],
                                              ["inst", "Base", {names[0]: ["n", 1]}]]))
        # keyed child (compact form shows the key), nested Inner, missing values
        out.append(g(pad([["n", 1]] + tail), [["inst", "Keyed", {"k": ["str", "a"], "b0": ["n", 0]}]]))
        out.append(g(pad([["n", 1]] + tail), [["list", [["n", 2], ["n", 2]]], ["inst", "Inner", {"q": ["n", 1]}]]))
        out.append(g(pad([["missing"]] + tail)))
        out.append(g(pad(tail), cls=SUB))
    if len(names) >= 2:
        out.append(g(pad([["n", 1], ["n", 1]]), [["list", [["n", 0], ["n", 1]]]]))
        out.append(g(pad([["n", 1], ["n", 2]]), [["list", [["n", 2]]], ["dict", [[["str", "a"], ["n", 1]], [["str", "l"], L]]]]))
    return out


def generate(rng, tier):
    quick = tier == "quick"
    fams, cases = {}, []

    def add_family(fam):
        fid = len(fams)
        fams[fid] = fam
        return fid

    n_fam = 40 if quick else 120
    for _ in range(n_fam):
        fam = gen_family(rng)
        fid = add_family(fam)
        classes = ["Base", "Plain"] + (["Sub"] if spec_sub_ok(fam) else [])
        pool = []
        for cname in classes:
            for _ in range(5 if quick else 8):
                pool.append(gen_state(rng, fam, cname))
        # copies of some states (fresh, equal objects) so that equal pairs are frequent
        pool += [json.loads(json.dumps(s)) for s in rng.sample(pool, 3)]
        pairs = [(a, b) for a in pool for b in pool]
        if quick:
            pairs = rng.sample(pairs, 80)
        for a, b in pairs:
            cases.append({"kind": "eq", "fam": fid, "a": a, "b": b, "gen": "pool-pair"})
        triples = [(a, b, c) for a in pool for b in pool for c in pool]
        for a, b, c in rng.sample(triples, 30 if quick else 180):
            cases.append({"kind": "tri", "fam": fid, "a": a, "b": b, "c": c, "gen": "pool-triple"})
        if fam.get("sub_redefault"):
            for a, b, which in one_diff_pairs(fam, "Sub", blank_alts=False, full=not quick):
                cases.append({"kind": "eq", "fam": fid, "a": a, "b": b, "gen": "redefault-one-diff", "diff": which})
        # triples with equal members (a state, a fresh copy, a variant in a compare=False attribute)
        for st in rng.sample(pool, 4 if quick else 8):
            clone = json.loads(json.dumps(st))
            var = json.loads(json.dumps(st))
            for a in attrs_of(fam, st["cls"]):
                if a["kind"] != "clsfun" and not a.get("compare", True) and a.get("init", True):
                    var["attrs"][a["name"]] = rng.choice(values_for(a["kind"], rng))
            cases.append({"kind": "tri", "fam": fid, "a": st, "b": clone, "c": var, "gen": "equal-triple"})
            cases.append({"kind": "tri", "fam": fid, "a": var, "b": st, "c": rng.choice(pool), "gen": "equal-triple"})
        # an attribute NOT ASSIGNED on one instance and None / falsy / a sentinel on the other, everything
        # else equal (own and inherited attributes, Base / Sub / Plain): pairs, triples, copy, rebuild
        for cname in classes:
            cand = [a for a in attrs_of(fam, cname) if not a.get("default") and blanks_for(a["kind"])]
            for a in (rng.sample(cand, min(len(cand), 2)) if quick else cand):
                st = json.loads(json.dumps(rng.choice([p for p in pool if p["cls"] == cname])))
                for bi, blank in enumerate(rng.sample(blanks_for(a["kind"]), min(2, len(blanks_for(a["kind"])))) if quick else blanks_for(a["kind"])):
                    sb, sm = json.loads(json.dumps(st)), json.loads(json.dumps(st))
                    sb["attrs"][a["name"]] = blank
                    sm["attrs"][a["name"]] = rng.choice((["missing"], ["deleted", blank]))
                    cases.append({"kind": "eq", "fam": fid, "a": sm, "b": sb, "gen": "missing-vs-blank", "diff": a["name"]})
                    if quick and bi:
                        continue
                    cases.append({"kind": "tri", "fam": fid, "a": sm, "b": sb, "c": json.loads(json.dumps(sm)), "gen": "missing-vs-blank"})
                    cases.append({"kind": "tri", "fam": fid, "a": sb, "b": json.loads(json.dumps(sb)), "c": sm, "gen": "missing-vs-blank"})
                    cases.append({"kind": "dc", "fam": fid, "a": sb, "gen": "missing-vs-blank"})
                    if rebuildable(fam, sb):
                        cases.append({"kind": "rb", "fam": fid, "a": sb, "gen": "missing-vs-blank"})
        for st in pool if not quick else rng.sample(pool, 8):
            cases.append({"kind": "dc", "fam": fid, "a": st, "gen": "deepcopy"})
            if rebuildable(fam, st):
                cases.append({"kind": "rb", "fam": fid, "a": st, "gen": "rebuild"})
        if fid % 4 == 0:
            for r in (["list", [["int", 1]]], ["inner", {"p": ["int", 2]}], ["none"]):
                for cname in ("Frozen", "Shared"):
                    st = {"cls": cname, "attrs": {"f0": r}}
                    cases.append({"kind": "dc", "fam": fid, "a": st, "gen": "deepcopy"})
                    cases.append({"kind": "eq", "fam": fid, "a": st, "b": json.loads(json.dumps(st)), "gen": "pool-pair"})
        graphs = repr_graphs(rng, fam)
        must = [gr for gr in graphs if gr.get("must")]
        rest = [gr for gr in graphs if not gr.get("must")]
        for gr in (must + rng.sample(rest, min(len(rest), 10)) if quick else graphs):
            cases.append({"kind": "repr", "fam": fid, "graph": gr, "gen": "repr-graph"})
        for st in rng.sample(pool, 4 if quick else 10):
            cases.append({"kind": "repr", "fam": fid, "gen": "repr-state",
                          "graph": {"nodes": [["inst", st["cls"], {k: v for k, v in st["attrs"].items()
                                                                  if v[0] not in ("default", "deleted", "meth", "inner")}]], "root": 0}})
    # attribute values that are KeyedList / KeyedSet of keyed spec items: all pairs over values that
    # differ in a non-key attribute of one item, in one item's key, in order, in length
    for kc in ("klist", "kset"):
        for cmpf in (True, False):
            fam = {"attrs": [{"name": "a0", "kind": "int", "compare": True, "repr": True, "init": True, "default": True},
                             {"name": "a1", "kind": kc, "compare": cmpf, "repr": True, "init": True, "default": cmpf},
                             {"name": "a2", "kind": "str", "compare": True, "repr": True, "init": True, "default": True}],
                   "sub_attrs": [{"name": "b0", "kind": "kset" if kc == "klist" else "klist", "compare": True, "repr": True,
                                  "default": True, "init": True}],
                   "sub_redefault": [{"name": "a2", "form": "plain"}]}
            fid = add_family(fam)
            vals = values_for(kc, rng)
            for cname in ("Base", "Sub"):
                prs = [(u, v) for u in vals for v in vals]
                if quick and cname == "Sub":
                    prs = rng.sample(prs, 20)
                for u, v in prs:
                    sa = {"cls": cname, "attrs": {"a0": ["int", 1], "a1": u, "a2": ["str", "a"]}}
                    sb = {"cls": cname, "attrs": {"a0": ["int", 1], "a1": v, "a2": ["str", "a"]}}
                    cases.append({"kind": "eq", "fam": fid, "a": sa, "b": sb, "gen": "keyed-container-pair"})
            for a, b, which in one_diff_pairs(fam, "Sub", full=not quick):
                cases.append({"kind": "eq", "fam": fid, "a": a, "b": b, "gen": "keyed-container-pair", "diff": which})
            for v in vals:
                st = {"cls": "Base", "attrs": {"a0": ["int", 2], "a1": v, "a2": ["str", "b"]}}
                if "drop_k" not in json.dumps(v):
                    cases.append({"kind": "dc", "fam": fid, "a": st, "gen": "deepcopy"})
                    cases.append({"kind": "rb", "fam": fid, "a": st, "gen": "rebuild"})
                cases.append({"kind": "tri", "fam": fid, "a": st, "b": json.loads(json.dumps(st)),
                              "c": {"cls": "Base", "attrs": {"a0": ["int", 2], "a1": vals[0], "a2": ["str", "b"]}}, "gen": "equal-triple"})
                cases.append({"kind": "repr", "fam": fid, "gen": "repr-state",
                              "graph": {"nodes": [["inst", "Base", {"a1": v, "a2": ["long"]}]], "root": 0}})
                cases.append({"kind": "repr", "fam": fid, "gen": "repr-state",
                              "graph": {"nodes": [["inst", "Base", {"a1": v}]], "root": 0}})
    # spec subclasses that re-default an inherited attribute of every flag combination: pairs of
    # Sub (and Base) instances that differ in exactly one attribute, deepcopy, rebuild, repr
    rkinds = ["int", "str", "list", "func", "dict", "spec"]
    combos3 = list(itertools.product((True, False), repeat=3))
    k = 0
    for via in ("attr", "field"):     # Attr(...) and dataclasses.field(...) declarations
        for form in ("plain", "annot", "attr"):
            for cmpf, reprf, initf in combos3:
                for dnc in ((False, True) if not quick or (cmpf, reprf) == (False, True) else (False,)):
                    kind = rkinds[k % len(rkinds)] if not dnc else ("list", "dict", "spec")[k % 3]
                    k += 1
                    if not initf and kind not in ("int", "str"):
                        kind = ("int", "str")[k % 2]
                    target = {"name": "a1", "kind": kind, "compare": cmpf, "repr": reprf, "init": initf,
                              "default": True, "dnc": dnc, "via": via}
                    fam = {"attrs": [{"name": "a0", "kind": "int", "compare": True, "repr": True, "init": True, "default": True},
                                     target,
                                     {"name": "a2", "kind": rng.choice(["str", "meth", "list"]), "compare": False, "repr": True,
                                      "init": True, "default": True},
                                     {"name": "a3", "kind": "str", "compare": True, "repr": True, "init": True, "default": False}],
                           "sub_attrs": [{"name": "b0", "kind": "int", "compare": (k % 2 == 0), "repr": (k % 2 == 1) if via == "field" else True,
                                          "default": True, "init": True, "via": via}],
                           "sub_redefault": [dict({"name": "a1", "form": form},
                                                  **({"compare": not cmpf, "repr": reprf, "init": True, "via": via} if form == "attr" else {}))]}
                    if rng.random() < 0.5:
                        fam["sub_redefault"].append({"name": "a2", "form": "plain"})
                    fid = add_family(fam)
                    for cname in ("Sub", "Base", "Plain"):
                        for a, b, which in one_diff_pairs(fam, cname, blank_alts=False, full=not quick):
                            cases.append({"kind": "eq", "fam": fid, "a": a, "b": b, "gen": "redefault-one-diff", "diff": which})
                    sts = [gen_state(rng, fam, "Sub") for _ in range(3)]
                    for st in sts:
                        cases.append({"kind": "dc", "fam": fid, "a": st, "gen": "deepcopy"})
                        if rebuildable(fam, st):
                            cases.append({"kind": "rb", "fam": fid, "a": st, "gen": "rebuild"})
                        cases.append({"kind": "repr", "fam": fid, "gen": "repr-state",
                                      "graph": {"nodes": [["inst", "Sub", {n: v for n, v in st["attrs"].items()
                                                                         if v[0] not in ("default", "deleted", "meth", "inner")}]], "root": 0}})
                    for cname in ("Base", "Plain"):
                        st = gen_state(rng, fam, cname)
                        cases.append({"kind": "repr", "fam": fid, "gen": "repr-state",
                                      "graph": {"nodes": [["inst", cname, {n: v for n, v in st["attrs"].items()
                                                                          if v[0] not in ("default", "deleted", "meth", "inner")}]], "root": 0}})
                    a, b = sts[0], sts[1]
                    cases.append({"kind": "tri", "fam": fid, "a": a, "b": json.loads(json.dumps(a)), "c": b, "gen": "equal-triple"})
                    # re-construction / copy with the SECOND value at each position: the re-declared attribute,
                    # the inherited ones, the own one -- for Sub, for the spec class below it (the attribute is
                    # owned by the class in the middle) and for the plain class below it
                    for cname, only in (("Sub", None), ("Leaf", ("a1", "b0")), ("PlainSub", ("a1", "b0"))):
                        for st in position_states(fam, cname, only):
                            cases.append({"kind": "rb", "fam": fid, "a": st, "gen": "position-rebuild"})
                        cases.append({"kind": "dc", "fam": fid, "a": st, "gen": "position-deepcopy"})
    # pairs that differ in exactly one attribute: every position, every combination of
    # kinds before it (all kind tuples of length <= 3 in thorough; sampled in quick)
    combos = [list(t) for n in (1, 2, 3) for t in itertools.product(KINDS, repeat=n)]
    if quick:
        combos = [[k] for k in KINDS] + rng.sample(combos, 34)
    else:
        combos += [[rng.choice(KINDS) for _ in range(rng.choice((4, 5)))] for _ in range(150)]
    for ci, kinds in enumerate(combos):
        for cmp_last in (True, False):
            flags = [(True, True)] * (len(kinds) - 1) + [(cmp_last, True)]
            fam = gen_family(rng, kinds=kinds, flags=flags)
            for a in fam["attrs"]:
                a["init"] = True
            fam["sub_attrs"] = []
            # every single kind, and every fourth tuple: a spec subclass with an own attribute that has
            # no default (Optional / Any / typed) -- pairs of Sub and Plain instances differing in
            # exactly one INHERITED or OWN attribute (other value; unassigned; unassigned vs None/falsy)
            with_sub = len(kinds) == 1 or ci % 4 == 0
            if with_sub:
                fam["sub_attrs"] = [{"name": "b0", "kind": ("opt", "func", "str", "list")[(ci + cmp_last) % 4], "compare": True,
                                     "repr": True, "init": True, "default": False}]
            fid = add_family(fam)
            # (thorough: the long kind tuples get the short form -- never set vs the first two blanks)
            rich = not quick and len(kinds) <= 2
            lean = dict(blank_alts=False, full=False, max_blanks=2) if not quick and len(kinds) > 2 else {}
            for a, b, which in one_diff_pairs(fam, **(lean or dict(full=rich))):
                cases.append({"kind": "eq", "fam": fid, "a": a, "b": b, "gen": "one-diff", "diff": which})
            if with_sub:
                for cname in ("Sub", "Plain"):
                    for a, b, which in one_diff_pairs(fam, cname, **(lean or dict(blank_alts=rich, full=rich))):
                        cases.append({"kind": "eq", "fam": fid, "a": a, "b": b, "gen": "one-diff-sub", "diff": which})
    # two levels of spec and plain subclassing (Leaf(Sub(Base)), PlainSub(Sub(Base))), attributes owned
    # by the root / the middle / the leaf class: pairs and triples across the hierarchy, one-difference
    # pairs, copy and re-construction for every attribute position
    for i in range(16 if quick else 80):
        fam = gen_hier_family(rng, i)
        fid = add_family(fam)
        pool = []
        for cname, n in (("Sub", 3), ("Leaf", 3), ("PlainSub", 3), ("Plain", 1), ("Base", 1)):
            pool += [gen_state(rng, fam, cname) for _ in range(n if quick else n + 2)]
        pool += [json.loads(json.dumps(s)) for s in rng.sample(pool, 3)]
        pairs = [(a, b) for a in pool for b in pool]
        for a, b in rng.sample(pairs, 40 if quick else 150):
            cases.append({"kind": "eq", "fam": fid, "a": a, "b": b, "gen": "hier-pair"})
        triples = [(a, b, c) for a in pool for b in pool for c in pool]
        for a, b, c in rng.sample(triples, 10 if quick else 60):
            cases.append({"kind": "tri", "fam": fid, "a": a, "b": b, "c": c, "gen": "hier-triple"})
        for cname in ("Leaf", "PlainSub"):
            for a, b, which in one_diff_pairs(fam, cname, blank_alts=False, full=False, max_blanks=1):
                cases.append({"kind": "eq", "fam": fid, "a": a, "b": b, "gen": "hier-one-diff", "diff": which})
        # the same attribute values held by instances of DIFFERENT classes of the hierarchy (a class and
        # the plain / spec class below it): never equal, in either order; with a same-class twin: a triple
        sub_names = {a["name"] for a in attrs_of(fam, "Sub")}
        base_names = {a["name"] for a in fam["attrs"]}
        for st in [s for s in pool if s["cls"] == "Sub"][:3]:
            for other in ("PlainSub", "Leaf", "Base", "Plain"):
                keep = sub_names if other in ("PlainSub", "Leaf") else base_names
                tw = {"cls": other, "attrs": {n: json.loads(json.dumps(v)) for n, v in st["attrs"].items() if n in keep}}
                cases.append({"kind": "eq", "fam": fid, "a": st, "b": tw, "gen": "hier-cross-class"})
                if other in ("PlainSub", "Leaf"):
                    cases.append({"kind": "tri", "fam": fid, "a": tw, "b": st, "c": json.loads(json.dumps(tw)), "gen": "hier-cross-class"})
        for st in [s for s in pool if s["cls"] == "PlainSub"][:2]:
            tw = {"cls": "Leaf", "attrs": json.loads(json.dumps(st["attrs"]))}
            cases.append({"kind": "eq", "fam": fid, "a": st, "b": tw, "gen": "hier-cross-class"})
        for cname in ("Sub", "Leaf", "PlainSub", "Plain"):
            for st in position_states(fam, cname):
                cases.append({"kind": "rb", "fam": fid, "a": st, "gen": "hier-rebuild"})
                if cname != "Sub" or not quick:
                    cases.append({"kind": "dc", "fam": fid, "a": st, "gen": "hier-deepcopy"})
        for st in [s for s in pool if s["cls"] in ("Leaf", "PlainSub")][:4 if quick else 8]:
            cases.append({"kind": "dc", "fam": fid, "a": st, "gen": "hier-deepcopy"})
            if rebuildable(fam, st):
                cases.append({"kind": "rb", "fam": fid, "a": st, "gen": "hier-rebuild"})
            cases.append({"kind": "repr", "fam": fid, "gen": "hier-repr-state",
                          "graph": {"nodes": [["inst", st["cls"], {n: v for n, v in st["attrs"].items()
                                                                  if v[0] not in ("default", "deleted", "meth", "inner")}]], "root": 0}})
    return fams, cases


# ------------------------------------------------------------------ shrinking, reporting
def drop_attr(fam, case, name):
    fam2 = json.loads(json.dumps(fam))
    fam2["attrs"] = [a for a in fam2["attrs"] if a["name"] != name]
    fam2["sub_attrs"] = [a for a in fam2.get("sub_attrs", []) if a["name"] != name]
    fam2["sub_redefault"] = [r for r in fam2.get("sub_redefault", []) if r["name"] != name]
    for key in ("leaf_attrs", "leaf_redefault"):
        if key in fam2:
            fam2[key] = [r for r in fam2[key] if r["name"] != name]
    c2 = json.loads(json.dumps(case))
    for key in "abc":
        if key in c2:
            c2[key]["attrs"].pop(name, None)
    if "graph" in c2:
        for nd in c2["graph"]["nodes"]:
            if nd[0] == "inst" and nd[1] in FAMILY_CLASSES:
                nd[2].pop(name, None)
    return fam2, c2


def shrink(fam, case, code, build_failure=False):
    if not fam["attrs"]:
        return fam, case
    for _ in range(8):
        names = [a["name"] for a in fam["attrs"] + fam.get("sub_attrs", []) + fam.get("leaf_attrs", [])]
        if len(fam["attrs"]) <= 1:
            break
        cands = [drop_attr(fam, case, n) for n in names]
        cands = [(f, c) for f, c in cands if f["attrs"]]
        hit = None
        for f, c in cands:
            c = dict(c, fam=0)
            try:
                bad, logs = evaluate({0: f}, [c], tag="s")
            except BaseException as e:
                if isinstance(e, (KeyboardInterrupt, SystemExit)):
                    raise
                continue
            if (bad and bad[0][1] == code and is_build_failure(bad[0][2]) == build_failure
                    and not [l for l in logs if not l.startswith("class table")]):
                hit = (f, c)
                break
        if hit is None:
            break
        fam, case = hit
    return fam, case


MEANING = {1: "model and implementation differ; the specification still accepts the implementation's answers",
           2: "the implementation's answers violate the specification"}
WHAT = {"eq": "==/!= of two instances", "tri": "transitivity of == over three instances",
        "dc": "copy.deepcopy(x) == x", "rb": "re-construction from own attribute values == x",
        "repr": "repr(x) (no exception; exactly the repr-enabled attributes in declaration order)"}


def witness(fam, case):
    """plain-Python rendering of what a dc / rb / eq case did (for the reader of a replay)"""
    try:
        F = Family(fam)
        k = case["kind"]
        if k in ("dc", "rb"):
            x = F.instance(case["a"])
            if k == "dc":
                y, how = copy.deepcopy(x), "y = copy.deepcopy(x)"
            else:
                inits = [a["name"] for a in attrs_of(fam, case["a"]["cls"]) if a.get("init", True)]
                kw = {n: getattr(x, n) for n in inits if hasattr(x, n)}
                how = f"y = {type(x).__name__}(**{kw!r})"
                y = type(x)(**kw)
            return f"x = {x!r}; {how} = {y!r}; type(y) = {type(y).__name__}; y == x: {y == x}"[:1500]
        if k == "eq":
            a, b = F.instance(case["a"]), F.instance(case["b"])
            return f"a = {a!r}; b = {b!r}; a == b: {a == b}; b == a: {b == a}"[:1500]
    except Exception as e:
        return f"{type(e).__name__}: {e}"[:500]
    return None


def describe(fam, case, code, obs):
    return {"family": fam, "witness": witness(fam, case), "source": family_source(fam), "case": case, "code": code, "observed": obs,
            "meaning": MEANING.get(code, "?"), "replay": "bin/check C10 --replay <this file>"}


class LineCoverage:
    """which lines of the anchored functions the compared cases executed (sys.monitoring, 3.12)"""
    FUNCS = ("eq", "repr", "object_repr", "deepcopy", "init")

    def __init__(self):
        import spec_classes.methods.core as core
        self.file = core.__file__
        self.hit = set()
        self.codes = {}
        src, _ = inspect.getsourcelines(core)
        for name, obj in (("EqMethod.eq", core.EqMethod.eq), ("ReprMethod.repr", core.ReprMethod.repr),
                          ("DeepCopyMethod.deepcopy", core.DeepCopyMethod.deepcopy), ("InitMethod.init", core.InitMethod.init)):
            self.codes[name] = obj.__code__

    def __enter__(self):
        import sys
        mon = sys.monitoring
        self.tool = mon.COVERAGE_ID
        try:
            mon.use_tool_id(self.tool, "c10")
        except ValueError:
            self.tool = None
            return self

        def on_line(code, line):
            if code.co_filename == self.file:
                self.hit.add(line)
                return None
            return mon.DISABLE
        mon.register_callback(self.tool, mon.events.LINE, on_line)
        mon.set_events(self.tool, mon.events.LINE)
        return self

    def __exit__(self, *a):
        import sys
        if self.tool is not None:
            sys.monitoring.set_events(self.tool, 0)
            sys.monitoring.free_tool_id(self.tool)

    def report(self):
        import dis
        out = {}
        for name, code in self.codes.items():
            lines = set()

            def walk(c):
                for _, _, ln in c.co_lines():
                    if ln is not None and ln != c.co_firstlineno:
                        lines.add(ln)
                for k in c.co_consts:
                    if hasattr(k, "co_lines"):
                        walk(k)
            walk(code)
            missed = sorted(lines - self.hit)
            out[name] = {"lines": len(lines), "executed": len(lines & self.hit), "not_executed": missed}
        return out


def main(tier, replay=None):
    chk = Check("C10", tier)
    if replay:
        r = json.load(open(replay))
        if r.get("kind") in ("proof", "coq-eval"):
            print("replay: this record names a proof obligation / evaluation failure, nothing to execute:", r.get("what", "")[:300])
            ok = chk.proofs()
            return 0 if ok else 1
        case = dict(r["case"], fam=0)
        bad, logs = evaluate({0: r["family"]}, [case], tag="r")
        F = Family(r["family"])
        print("replay:", ("still failing code=%s" % bad[0][1]) if bad else "passes now", logs)
        print("observed now:", run_case(F, case)[2])
        return 1 if bad or logs else 0
    chk.proofs()
    fams, cases = generate(chk.rng, tier)
    STATS.clear()
    cov = LineCoverage()
    with cov:
        bad, logs = evaluate(fams, cases)
    stats = dict(STATS)
    reported = set()
    # law violations first (concrete verdicts of the oracle), then instances / families that could not
    # be built, then model drift; one report per (kind, verdict, generator, flavour)
    for i, code, obs in sorted(bad, key=lambda b: (-b[1], is_build_failure(b[2]), len(json.dumps(cases[b[0]])))):
        c = cases[i]
        bf = is_build_failure(obs)
        sig0 = (c["kind"], code, c.get("gen"), bf)
        if sig0 in reported:
            continue
        if len(reported) >= 6:
            break
        reported.add(sig0)
        fam, small = shrink(fams[c["fam"]], c, code, bf)
        small = dict(small, fam=0)
        try:
            obs2 = run_case(Family(fam), small)[2]
        except Exception:
            obs2 = obs
        if bf:
            head = ("an instance of a generated class cannot be constructed (the library raised while the state was "
                    f"built; needed for: {WHAT[c['kind']]})")
        elif isinstance(obs2, dict) and "harness" in obs2:
            head = f"{WHAT[c['kind']]}: the case could not be evaluated"
        else:
            head = f"{WHAT[c['kind']]}: {MEANING[code] if code in MEANING else code}"
        what = (f"{head}; case={json.dumps({k: v for k, v in small.items() if k not in ('fam',)})[:400]} "
                f"observed={json.dumps(obs2)[:300]}")
        chk.violation(what, describe(fam, small, code, obs2), sig={"kind": "build" if bf else c["kind"], "code": code},
                      no_input=(code != 2))
    for lg in logs[:6]:
        head = ("the metadata the library built differs from the declared hierarchy: " if lg.startswith("class table")
                else "correspondence evaluation failed: ")
        chk.violation(head + lg[-500:], {"kind": "coq-eval", "log": lg}, no_input=True)
    by_kind, by_gen, kinds_hist, sizes = {}, {}, {}, {}
    for c in cases:
        by_kind[c["kind"]] = by_kind.get(c["kind"], 0) + 1
        by_gen[c["gen"]] = by_gen.get(c["gen"], 0) + 1
    for f in fams.values():
        sizes[len(f["attrs"])] = sizes.get(len(f["attrs"]), 0) + 1
        for a in f["attrs"]:
            kinds_hist[a["kind"]] = kinds_hist.get(a["kind"], 0) + 1
    distinct = {json.dumps({k: v for k, v in c.items() if k != "gen"}, sort_keys=True)
                + json.dumps(fams[c["fam"]], sort_keys=True) for c in cases}
    sample_idx = [0, len(cases) // 3, 2 * len(cases) // 3, len(cases) - 1]
    extra = {
        "correspondence": {"cases": len(cases), "families": len(fams), "disagreements": len(bad),
                           "by_kind": by_kind, "by_generator": by_gen,
                           "observation_histogram": stats,
                           "anchored_line_coverage": cov.report(),
                           "attribute_kind_histogram": kinds_hist, "attributes_per_class": sizes,
                           "error_kinds": "RecursionError -> Fuel, any other exception -> -98, unparsable repr -> -97"},
        "evaluations": len(cases), "distinct_nontrivial": len(distinct),
        "rule": "a case = (class family, kind, value recipes); kinds: eq (a==b, b==a, a!=b, b!=a, a.__eq__(b), b.__eq__(a)), tri (three ==), dc (deepcopy), rb (re-construction), repr (three indent modes); distinct = distinct (family, case) descriptions; every case compares at least one answer of the implementation with model and specification",
        "samples": [{"family": fams[cases[i]["fam"]], "case": cases[i]} for i in sample_idx],
        "exhaustive": False,
    }
    return chk.finish(
        trusted_base=["Coq 8.16.1 kernel and vm_compute", "no axioms (Print Assumptions: closed under the global context)",
                      "hand-written model coq/EqRepr/Model.v (EqMethod.eq, DeepCopyMethod.deepcopy, InitMethod.init flat, ReprMethod.repr; CPython ==, reflected operand rule, getattr fallback, repr recursion guard) tied to /repo by this run's correspondence",
                      "harness/c10.py: class-family renderer, value/heap encoders, repr parser"],
        assumptions=["== on cyclic operands is outside the theorems (CPython raises RecursionError)",
                     "compatible classes = the same class (EqMethod.eq + CPython operand order make any other pair unequal)",
                     "bound methods occur directly as attribute values; dict keys and key attributes are hashable scalars",
                     "plain class-level attribute values are scalars; preparers/type checks are not part of re-construction",
                     "repr: strings are not modelled, the length test is an arbitrary oracle"],
        extra=extra)
