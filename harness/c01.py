"""C01 — copy-on-write helpers never change the receiver or the arguments."""
import inst_check

ASSUMPTIONS = [
    "class grammar: K1 leaf (optionally keyed/frozen), K2 node with int/str/Optional, nested spec, List/Dict/Set of scalars, List/Dict of (keyed) spec classes, K3 spec subclass; KeyedList/KeyedSet attributes and do_not_copy=True classes are outside the model",
    "crash points: user callbacks raising at their 1st..3rd invocation (model + implementation, any invocation in the theorem); exceptions injected at executed lines of library code (implementation only, oracle = pre-existing graph unchanged)",
    "user callbacks are pure (only allocate)",
]
GENS = [
    (5, dict(bad_rate=0.25, inplace_rate=0.0, fail_rate=0.2)),
    (2, dict(bad_rate=0.1, inplace_rate=0.0, fail_rate=0.0, n_ops=8)),
    (1, dict(bad_rate=0.3, inplace_rate=0.3, fail_rate=0.3, flavour="frozen")),
    # a plain (undecorated) subclass overriding defaults by class attributes
    (1, dict(bad_rate=0.2, inplace_rate=0.0, fail_rate=0.2, flavour="plain")),
    # Union[int, str] and Optional[spec] attributes
    (1, dict(bad_rate=0.25, inplace_rate=0.0, fail_rate=0.2, flavour="wide")),
    # existing instances handed over together with nested keywords / attribute transforms
    (2, dict(bad_rate=0.1, inplace_rate=0.0, fail_rate=0.1, prefer_nested=True,
             weights={"construct": 1, "scalar": 5, "item": 6, "top": 1})),
]


def main(tier, replay=None):
    if replay:
        return inst_check.replay("C01", replay, 2)
    return inst_check.run("C01", tier, 2, GENS, 400, 6000, ASSUMPTIONS)


# ---------------------------------------------------------------------------
# Line-level crash points (implementation only; no model): the call is cut short
# by an exception raised at the i-th executed line of library code.  Oracle: the
# canonical graph of everything that existed before the call is unchanged.
import sys

import inst_common as ic
import inst_gen as ig


class Injected(Exception):
    pass


def _run_with_injection(world, op, at):
    count = [0]

    def tracer(frame, event, arg):
        if "spec_classes/" not in frame.f_code.co_filename:
            return None

        def local(frame, event, arg):
            if event == "line":
                count[0] += 1
                if count[0] == at:
                    raise Injected(f"injected at executed line {at}: {frame.f_code.co_filename}:{frame.f_lineno}")
            return local
        return local
    ic.CB.reset(None)
    sys.settrace(tracer)
    try:
        world.apply(op)
        outcome = "returned"
    except Injected as e:
        outcome = str(e)
    except BaseException as e:   # the operation's own error (e.g. ill-typed argument)
        outcome = "raised " + type(e).__name__
    finally:
        sys.settrace(None)
    return outcome, count[0]


def line_injection(chk, cases, bad, extra):
    quick = chk.tier == "quick"
    budget = 1500 if quick else 40000
    stride = 5 if quick else 1
    done = calls = 0
    for case in cases:
        if done >= budget:
            break
        ops = case["ops"]
        targets = [j for j, (op, _) in enumerate(ops)
                   if op[0] == "helper" and not op[3].get("inplace") or op[0] == "deepcopy"]
        if not targets:
            continue
        j = targets[-1]
        try:
            w = ic.World(case["table"])
            w.run(ops[:j])
        except BaseException:
            continue
        before = w.canon()
        nroots = len(w.roots)
        _, total = _run_with_injection(w, ops[j][0], 0)     # dry run: count executed lines
        calls += 1
        start = 1 + chk.rng.randrange(stride)
        for at in range(start, total + 1, stride):
            if done >= budget:
                break
            w = ic.World(case["table"])
            w.run(ops[:j])
            outcome, _ = _run_with_injection(w, ops[j][0], at)
            done += 1
            after = w.canon(w.roots[:nroots])
            if after != before:
                chk.violation(
                    "copy-on-write call cut short by an exception changed a pre-existing object: "
                    + outcome, {"table": case["table"], "ops": ops[:j + 1], "nd": case["nd"],
                                "inject_at_executed_line": at, "outcome": outcome,
                                "graph_before": before, "graph_after": after},
                    sig={"kind": "line-injection"})
                return
    extra["line_injection"] = {"calls": calls, "injections": done, "stride": stride,
                               "rule": "last copy-on-write call of a generated history, exception raised at every "
                                       f"{stride}-th executed line of spec_classes code; implementation only"}


def main(tier, replay=None):  # noqa: F811  (supersedes the definition above)
    if replay:
        return inst_check.replay("C01", replay, 2)
    return inst_check.run("C01", tier, 2, GENS, 400, 6000, ASSUMPTIONS, post=line_injection)


# ---------------------------------------------------------------------------
# KeyedList / KeyedSet-typed attributes (outside the instance model; containers
# proved in C13/C14): implementation-only exploration of copy-on-write element
# and scalar helpers — the receiver's keyed containers (list view, key index,
# item identities and contents) and the argument objects are unchanged
# whether the call returns or raises.
def keyed_attributes(chk, cases, bad, extra):
    from typing import Optional

    from spec_classes import Attr, spec_class
    from spec_classes.types import KeyedList, KeyedSet

    @spec_class(key="k")
    class Item:
        k: str
        v: int = 0

    @spec_class
    class Holder:
        items: KeyedList[Item, str] = Attr(default_factory=KeyedList)
        tags: KeyedSet[Item, str] = Attr(default_factory=KeyedSet)
        n: Optional[int] = None

    def snap_items(c):
        if c is None:
            return None
        return (id(c), [(id(x), x.k, x.v) for x in getattr(c, "_list", [])],
                sorted((k, id(v), v.k, v.v) for k, v in c._dict.items()))

    def snap(h):
        return [snap_items(h.__dict__.get("items")), snap_items(h.__dict__.get("tags")), h.__dict__.get("n")]

    def boom(_):
        raise RuntimeError("callback raises")
    rng = chk.rng
    keys = ["a", "b", "c", "d"]
    n = 400 if chk.tier == "quick" else 6000
    tried = raised = 0
    for _ in range(n):
        ks = rng.sample(keys, rng.choice([1, 2, 3]))
        h = Holder(items=[Item(k, v=i) for i, k in enumerate(ks)], tags=[Item(k, v=i) for i, k in enumerate(ks)])
        idx = rng.choice([0, 1, -1, 2, 5])
        arg = Item(rng.choice(keys), v=7)
        arg_list = KeyedList[Item, str]([Item(k, v=5) for k in rng.sample(keys, 2)])
        op = rng.choice([
            ("with_item(arg)", lambda: h.with_item(arg)),
            ("with_item(arg, _index)", lambda: h.with_item(arg, _index=idx)),
            ("with_item(arg, _index, _insert)", lambda: h.with_item(arg, _index=idx, _insert=True)),
            ("with_item(key)", lambda: h.with_item(rng.choice(keys))),
            ("with_item(key, v=)", lambda: h.with_item(rng.choice(keys), v=3)),
            ("update_item(key, v=)", lambda: h.update_item(rng.choice(keys), v=rng.choice([4, "x"]))),
            ("update_item(idx, arg)", lambda: h.update_item(idx, arg, _by_index=True)),
            ("transform_item(key, v=fn)", lambda: h.transform_item(rng.choice(keys), v=rng.choice([boom, lambda v: v + 1]))),
            ("without_item(key)", lambda: h.without_item(rng.choice(keys))),
            ("with_items(list)", lambda: h.with_items(arg_list)),
            ("transform_items(fn)", lambda: h.transform_items(lambda l: l + [arg])),
            ("with_tag(arg)", lambda: h.with_tag(arg)),
            ("update_tag(key, v=)", lambda: h.update_tag(rng.choice(keys), v=rng.choice([4, "x"]))),
            ("transform_tag(key, v=fn)", lambda: h.transform_tag(rng.choice(keys), v=rng.choice([boom, lambda v: v + 1]))),
            ("without_tag(key)", lambda: h.without_tag(rng.choice(keys))),
            ("reset_items", lambda: h.reset_items()),
            ("update(n=, items=)", lambda: h.update(n=1, items=arg_list)),
        ])
        before = (snap(h), (arg.k, arg.v), snap_items(arg_list))
        tried += 1
        outcome = "returned"
        try:
            op[1]()
        except BaseException as e:
            if isinstance(e, (KeyboardInterrupt, SystemExit)):
                raise
            raised += 1
            outcome = "raised " + type(e).__name__
        after = (snap(h), (arg.k, arg.v), snap_items(arg_list))
        if after != before:
            chk.violation(f"copy-on-write helper {op[0]} ({outcome}) changed the receiver's keyed container or an argument",
                          {"holder_items": ks, "op": op[0], "index": idx, "before": before, "after": after},
                          sig={"kind": "keyed-attribute", "op": op[0]})
            break
    extra["keyed_attributes"] = {"operations": tried, "raised": raised,
                                 "rule": "implementation only: KeyedList/KeyedSet attributes of keyed spec items; copy-on-write scalar and element helpers; oracle: receiver and arguments unchanged whether the call returns or raises"}


# ---------------------------------------------------------------------------
# do_not_copy=True classes are in place by documented design and outside the model; a class
# that merely DERIVES from one (spec or plain subclass, not declared do_not_copy=True itself)
# is an ordinary copy-on-write class.  Implementation-only probe.
def dnc_parent_probe(chk, cases, bad, extra):
    import copy
    from typing import Dict, List

    from spec_classes import spec_class

    @spec_class(do_not_copy=True)
    class Registry:
        label: str = "registry"
        entries: List[int] = []

    @spec_class
    class Inner:
        a: int = 0

    @spec_class
    class Child(Registry):
        count: int = 0
        values: List[int] = []
        table: Dict[str, int] = {}
        inner: Inner = Inner()

    @spec_class(bootstrap=True)
    class GrandChild(Child):
        extra: str = "x"

    class PlainGrandChild(Child):
        pass

    def snap(o):
        st = vars(o)
        return (list(st), {k: id(v) for k, v in st.items()}, copy.deepcopy(dict(st)))
    calls = [
        ("with_count(3)", lambda o: o.with_count(3)),
        ("with_label('z')", lambda o: o.with_label("z")),
        ("update_count(4)", lambda o: o.update_count(4)),
        ("transform_count(+1)", lambda o: o.transform_count(lambda v: v + 1)),
        ("reset_count()", lambda o: o.reset_count()),
        ("with_value(5)", lambda o: o.with_value(5)),
        ("with_value(5, _index=0, _insert=True)", lambda o: o.with_value(5, _index=0, _insert=True)),
        ("without_value(1)", lambda o: o.without_value(1)),
        ("transform_value(0, +1)", lambda o: o.transform_value(0, lambda v: v + 1, _by_index=True)),
        ("with_entry(9)", lambda o: o.with_entry(9)),
        ("with_table_item('k', 1)", lambda o: o.with_table_item("k", 1)),
        ("update_inner(a=2)", lambda o: o.update_inner(a=2)),
        ("transform_inner(a=+1)", lambda o: o.transform_inner(a=lambda v: v + 1)),
        ("update(count=7)", lambda o: o.update(count=7)),
        ("transform(count=+1)", lambda o: o.transform(count=lambda v: v + 1)),
        ("reset()", lambda o: o.reset()),
        ("with_count('bad')", lambda o: o.with_count("bad")),
        ("with_value('bad')", lambda o: o.with_value("bad")),
    ]
    tried = 0
    for cls in (Child, GrandChild, PlainGrandChild):
        for name, call in calls:
            o = cls(count=1, values=[1, 2], table={"a": 1}, inner=Inner(a=1), entries=[7])
            before = snap(o)
            tried += 1
            outcome, res = "returned", None
            try:
                res = call(o)
            except Exception as e:
                outcome = "raised " + type(e).__name__
            after = snap(o)
            if after != before or res is o:
                chk.violation(f"copy-on-write helper {name} on {cls.__name__} (derived from a do_not_copy=True class, "
                              f"not declared so itself; {outcome}) changed or returned the receiver",
                              {"class": cls.__name__, "call": name, "before": str(before[2]), "after": str(after[2]),
                               "result_is_receiver": res is o},
                              sig={"kind": "dnc-parent", "call": name})
                break
    extra["dnc_parent_probe"] = {"calls": tried, "rule": "implementation only: spec / eager spec / plain subclasses of a "
                                 "@spec_class(do_not_copy=True) class are copy-on-write: receiver unchanged, result distinct"}


def _post(chk, cases, bad, extra):
    line_injection(chk, cases, bad, extra)
    keyed_attributes(chk, cases, bad, extra)
    import keyed_explore
    keyed_explore.explore(chk, extra, "C01")
    dnc_parent_probe(chk, cases, bad, extra)
    import wide_explore
    wide_explore.explore(chk, extra, "C01")
    import c04_validated                       # validated(...)/bounded(...) element and attribute types
    c04_validated.explore(chk, extra, "C01", n_quick=1200, n_thorough=15000)


def main(tier, replay=None):  # noqa: F811
    if replay and '"validated-zoo"' in open(replay).read():
        import c04_validated
        return c04_validated.replay("C01", replay)
    if replay:
        return inst_check.replay("C01", replay, 2)
    return inst_check.run("C01", tier, 2, GENS, 400, 6000, ASSUMPTIONS, post=_post,
                          aimed=lambda rng, t: ig.element_cases(rng, 300 if t == "quick" else 5000, inplace_values=(False,)))
