"""C01 — copy-on-write helpers never change the receiver or the arguments."""
import inst_check

ASSUMPTIONS = [
    "class grammar: K1 leaf (optionally keyed/frozen), K2 node with int/str/Optional, nested spec, List/Dict/Set of scalars, List/Dict of (keyed) spec classes, K3 spec subclass; KeyedList/KeyedSet attributes and do_not_copy=True classes are outside the model",
    "crash points: user callbacks raising at their 1st..3rd invocation (model + implementation, any invocation in the theorem); exceptions injected at executed lines of library code (implementation only, oracle = pre-existing graph unchanged)",
    "user callbacks are pure (only allocate)",
]
GENS = [
    (5, dict(bad_rate=0.25, inplace_rate=0.0, fail_rate=0.2)),
    (2, dict(bad_rate=0.1, inplace_rate=0.0, fail_rate=0.0, n_ops=8)),
    (1, dict(bad_rate=0.3, inplace_rate=0.3, fail_rate=0.3, flavour="frozen")),
]


def main(tier, replay=None):
    if replay:
        return inst_check.replay("C01", replay, 2)
    return inst_check.run("C01", tier, 2, GENS, 400, 6000, ASSUMPTIONS)


# ---------------------------------------------------------------------------
# Line-level crash points (implementation only; no model): the call is cut short
# by an exception raised at the i-th executed line of library code.  Oracle: the
# canonical graph of everything that existed before the call is unchanged.
import sys

import inst_common as ic
import inst_gen as ig


class Injected(Exception):
    pass


def _run_with_injection(world, op, at):
    count = [0]

    def tracer(frame, event, arg):
        if "spec_classes/" not in frame.f_code.co_filename:
            return None

        def local(frame, event, arg):
            if event == "line":
                count[0] += 1
                if count[0] == at:
                    raise Injected(f"injected at executed line {at}: {frame.f_code.co_filename}:{frame.f_lineno}")
            return local
        return local
    ic.CB.reset(None)
    sys.settrace(tracer)
    try:
        world.apply(op)
        outcome = "returned"
    except Injected as e:
        outcome = str(e)
    except BaseException as e:   # the operation's own error (e.g. ill-typed argument)
        outcome = "raised " + type(e).__name__
    finally:
        sys.settrace(None)
    return outcome, count[0]


def line_injection(chk, cases, bad, extra):
    quick = chk.tier == "quick"
    budget = 1500 if quick else 40000
    stride = 5 if quick else 1
    done = calls = 0
    for case in cases:
        if done >= budget:
            break
        ops = case["ops"]
        targets = [j for j, (op, _) in enumerate(ops)
                   if op[0] == "helper" and not op[3].get("inplace") or op[0] == "deepcopy"]
        if not targets:
            continue
        j = targets[-1]
        try:
            w = ic.World(case["table"])
            w.run(ops[:j])
        except BaseException:
            continue
        before = w.canon()
        nroots = len(w.roots)
        _, total = _run_with_injection(w, ops[j][0], 0)     # dry run: count executed lines
        calls += 1
        start = 1 + chk.rng.randrange(stride)
        for at in range(start, total + 1, stride):
            if done >= budget:
                break
            w = ic.World(case["table"])
            w.run(ops[:j])
            outcome, _ = _run_with_injection(w, ops[j][0], at)
            done += 1
            after = w.canon(w.roots[:nroots])
            if after != before:
                chk.violation(
                    "copy-on-write call cut short by an exception changed a pre-existing object: "
                    + outcome, {"table": case["table"], "ops": ops[:j + 1], "nd": case["nd"],
                                "inject_at_executed_line": at, "outcome": outcome,
                                "graph_before": before, "graph_after": after},
                    sig={"kind": "line-injection"})
                return
    extra["line_injection"] = {"calls": calls, "injections": done, "stride": stride,
                               "rule": "last copy-on-write call of a generated history, exception raised at every "
                                       f"{stride}-th executed line of spec_classes code; implementation only"}


def main(tier, replay=None):  # noqa: F811  (supersedes the definition above)
    if replay:
        return inst_check.replay("C01", replay, 2)
    return inst_check.run("C01", tier, 2, GENS, 400, 6000, ASSUMPTIONS, post=line_injection)
