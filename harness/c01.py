"""C01 — copy-on-write helpers never change the receiver or the arguments."""
import inst_check

ASSUMPTIONS = [
    "class grammar: K1 leaf (optionally keyed/frozen), K2 node with int/str/Optional, nested spec, List/Dict/Set of scalars, List/Dict of (keyed) spec classes, K3 spec subclass; KeyedList/KeyedSet attributes and do_not_copy=True classes are outside the model",
    "crash points: every user callback the call invokes raising at its 1st..3rd invocation (fail_at); line-level injection inside library code is not exercised by this check",
    "user callbacks are pure (only allocate)",
]
GENS = [
    (5, dict(bad_rate=0.25, inplace_rate=0.0, fail_rate=0.2)),
    (2, dict(bad_rate=0.1, inplace_rate=0.0, fail_rate=0.0, n_ops=8)),
    (1, dict(bad_rate=0.3, inplace_rate=0.3, fail_rate=0.3, flavour="frozen")),
]


def main(tier, replay=None):
    if replay:
        return inst_check.replay("C01", replay, 2)
    return inst_check.run("C01", tier, 2, GENS, 400, 6000, ASSUMPTIONS)
