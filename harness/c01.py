"""C01 — copy-on-write helpers never change the receiver or the arguments."""
import inst_check

ASSUMPTIONS = [
    "class grammar: K1 leaf (optionally keyed/frozen), K2 node with int/str/Optional, nested spec, List/Dict/Set of scalars, List/Dict of (keyed) spec classes, K3 spec subclass; KeyedList/KeyedSet attributes and do_not_copy=True classes are outside the model",
    "crash points: user callbacks raising at their 1st..3rd invocation (model + implementation, any invocation in the theorem); exceptions injected at executed lines of library code (implementation only, oracle = pre-existing graph unchanged)",
    "user callbacks are pure (only allocate)",
]
GENS = [
    (5, dict(bad_rate=0.25, inplace_rate=0.0, fail_rate=0.2)),
    (2, dict(bad_rate=0.1, inplace_rate=0.0, fail_rate=0.0, n_ops=8)),
    (1, dict(bad_rate=0.3, inplace_rate=0.3, fail_rate=0.3, flavour="frozen")),
    # a plain (undecorated) subclass overriding defaults by class attributes
    (1, dict(bad_rate=0.2, inplace_rate=0.0, fail_rate=0.2, flavour="plain")),
    # Union[int, str] and Optional[spec] attributes
    (1, dict(bad_rate=0.25, inplace_rate=0.0, fail_rate=0.2, flavour="wide")),
    # existing instances handed over together with nested keywords / attribute transforms
    (2, dict(bad_rate=0.1, inplace_rate=0.0, fail_rate=0.1, prefer_nested=True,
             weights={"construct": 1, "scalar": 5, "item": 6, "top": 1})),
]


def main(tier, replay=None):
    if replay and '"existing-probe"' in open(replay).read():
        import c04_existing
        return c04_existing.replay("C01", replay)
    if replay:
        return inst_check.replay("C01", replay, 2)
    return inst_check.run("C01", tier, 2, GENS, 400, 6000, ASSUMPTIONS)


# ---------------------------------------------------------------------------
# Line-level crash points (implementation only; no model): the call is cut short
# by an exception raised at the i-th executed line of library code.  Oracle: the
# canonical graph of everything that existed before the call is unchanged.
import sys

import inst_common as ic
import inst_gen as ig


class Injected(Exception):
    pass


def _run_with_injection(world, op, at):
    count = [0]

    def tracer(frame, event, arg):
        if "spec_classes/" not in frame.f_code.co_filename:
            return None

        def local(frame, event, arg):
            if event == "line":
                count[0] += 1
                if count[0] == at:
                    raise Injected(f"injected at executed line {at}: {frame.f_code.co_filename}:{frame.f_lineno}")
            return local
        return local
    ic.CB.reset(None)
    sys.settrace(tracer)
    try:
        world.apply(op)
        outcome = "returned"
    except Injected as e:
        outcome = str(e)
    except BaseException as e:   # the operation's own error (e.g. ill-typed argument)
        outcome = "raised " + type(e).__name__
    finally:
        sys.settrace(None)
    return outcome, count[0]


def line_injection(chk, cases, bad, extra):
    quick = chk.tier == "quick"
    budget = 1500 if quick else 40000
    stride = 5 if quick else 1
    done = calls = 0
    for case in cases:
        if done >= budget:
            break
        ops = case["ops"]
        targets = [j for j, (op, _) in enumerate(ops)
                   if op[0] == "helper" and not op[3].get("inplace") or op[0] == "deepcopy"]
        if not targets:
            continue
        j = targets[-1]
        try:
            w = ic.World(case["table"])
            w.run(ops[:j])
        except BaseException:
            continue
        before = w.canon()
        nroots = len(w.roots)
        _, total = _run_with_injection(w, ops[j][0], 0)     # dry run: count executed lines
        calls += 1
        start = 1 + chk.rng.randrange(stride)
        for at in range(start, total + 1, stride):
            if done >= budget:
                break
            w = ic.World(case["table"])
            w.run(ops[:j])
            outcome, _ = _run_with_injection(w, ops[j][0], at)
            done += 1
            after = w.canon(w.roots[:nroots])
            if after != before:
                chk.violation(
                    "copy-on-write call cut short by an exception changed a pre-existing object: "
                    + outcome, {"table": case["table"], "ops": ops[:j + 1], "nd": case["nd"],
                                "inject_at_executed_line": at, "outcome": outcome,
                                "graph_before": before, "graph_after": after},
                    sig={"kind": "line-injection"})
                return
    extra["line_injection"] = {"calls": calls, "injections": done, "stride": stride,
                               "rule": "last copy-on-write call of a generated history, exception raised at every "
                                       f"{stride}-th executed line of spec_classes code; implementation only"}


def main(tier, replay=None):  # noqa: F811  (supersedes the definition above)
    if replay and '"existing-probe"' in open(replay).read():
        import c04_existing
        return c04_existing.replay("C01", replay)
    if replay:
        return inst_check.replay("C01", replay, 2)
    return inst_check.run("C01", tier, 2, GENS, 400, 6000, ASSUMPTIONS, post=line_injection)


# ---------------------------------------------------------------------------
# KeyedList / KeyedSet-typed attributes (outside the instance model; containers
# proved in C13/C14): implementation-only exploration of copy-on-write element
# and scalar helpers — the receiver's keyed containers (list view, key index,
# item identities and contents) and the argument objects are unchanged
# whether the call returns or raises.
def keyed_attributes(chk, cases, bad, extra):
    from typing import Optional

    from spec_classes import Attr, spec_class
    from spec_classes.types import KeyedList, KeyedSet

    @spec_class(key="k")
    class Item:
        k: str
        v: int = 0

    @spec_class
    class Holder:
        items: KeyedList[Item, str] = Attr(default_factory=KeyedList)
        tags: KeyedSet[Item, str] = Attr(default_factory=KeyedSet)
        n: Optional[int] = None

    def snap_items(c):
        if c is None:
            return None
        return (id(c), [(id(x), x.k, x.v) for x in getattr(c, "_list", [])],
                sorted((k, id(v), v.k, v.v) for k, v in c._dict.items()))

    def snap(h):
        return [snap_items(h.__dict__.get("items")), snap_items(h.__dict__.get("tags")), h.__dict__.get("n")]

    def boom(_):
        raise RuntimeError("callback raises")
    rng = chk.rng
    keys = ["a", "b", "c", "d"]
    n = 400 if chk.tier == "quick" else 6000
    tried = raised = 0
    for _ in range(n):
        ks = rng.sample(keys, rng.choice([1, 2, 3]))
        h = Holder(items=[Item(k, v=i) for i, k in enumerate(ks)], tags=[Item(k, v=i) for i, k in enumerate(ks)])
        idx = rng.choice([0, 1, -1, 2, 5])
        arg = Item(rng.choice(keys), v=7)
        arg_list = KeyedList[Item, str]([Item(k, v=5) for k in rng.sample(keys, 2)])
        op = rng.choice([
            ("with_item(arg)", lambda: h.with_item(arg)),
            ("with_item(arg, _index)", lambda: h.with_item(arg, _index=idx)),
            ("with_item(arg, _index, _insert)", lambda: h.with_item(arg, _index=idx, _insert=True)),
            ("with_item(key)", lambda: h.with_item(rng.choice(keys))),
            ("with_item(key, v=)", lambda: h.with_item(rng.choice(keys), v=3)),
            ("update_item(key, v=)", lambda: h.update_item(rng.choice(keys), v=rng.choice([4, "x"]))),
            ("update_item(idx, arg)", lambda: h.update_item(idx, arg, _by_index=True)),
            ("transform_item(key, v=fn)", lambda: h.transform_item(rng.choice(keys), v=rng.choice([boom, lambda v: v + 1]))),
            ("without_item(key)", lambda: h.without_item(rng.choice(keys))),
            ("with_items(list)", lambda: h.with_items(arg_list)),
            ("transform_items(fn)", lambda: h.transform_items(lambda l: l + [arg])),
            ("with_tag(arg)", lambda: h.with_tag(arg)),
            ("update_tag(key, v=)", lambda: h.update_tag(rng.choice(keys), v=rng.choice([4, "x"]))),
            ("transform_tag(key, v=fn)", lambda: h.transform_tag(rng.choice(keys), v=rng.choice([boom, lambda v: v + 1]))),
            ("without_tag(key)", lambda: h.without_tag(rng.choice(keys))),
            ("reset_items", lambda: h.reset_items()),
            ("update(n=, items=)", lambda: h.update(n=1, items=arg_list)),
        ])
        before = (snap(h), (arg.k, arg.v), snap_items(arg_list))
        tried += 1
        outcome = "returned"
        try:
            op[1]()
        except BaseException as e:
            if isinstance(e, (KeyboardInterrupt, SystemExit)):
                raise
            raised += 1
            outcome = "raised " + type(e).__name__
        after = (snap(h), (arg.k, arg.v), snap_items(arg_list))
        if after != before:
            chk.violation(f"copy-on-write helper {op[0]} ({outcome}) changed the receiver's keyed container or an argument",
                          {"holder_items": ks, "op": op[0], "index": idx, "before": before, "after": after},
                          sig={"kind": "keyed-attribute", "op": op[0]})
            break
    extra["keyed_attributes"] = {"operations": tried, "raised": raised,
                                 "rule": "implementation only: KeyedList/KeyedSet attributes of keyed spec items; copy-on-write scalar and element helpers; oracle: receiver and arguments unchanged whether the call returns or raises"}


# ---------------------------------------------------------------------------
# do_not_copy=True classes are in place by documented design and outside the model; a class
# that merely DERIVES from one (spec or plain subclass, not declared do_not_copy=True itself)
# is an ordinary copy-on-write class.  Implementation-only probe.
def dnc_parent_probe(chk, cases, bad, extra):
    import copy
    from typing import Dict, List

    from spec_classes import spec_class

    @spec_class(do_not_copy=True)
    class Registry:
        label: str = "registry"
        entries: List[int] = []

    @spec_class
    class Inner:
        a: int = 0

    @spec_class
    class Child(Registry):
        count: int = 0
        values: List[int] = []
        table: Dict[str, int] = {}
        inner: Inner = Inner()

    @spec_class(bootstrap=True)
    class GrandChild(Child):
        extra: str = "x"

    class PlainGrandChild(Child):
        pass

    def snap(o):
        st = vars(o)
        return (list(st), {k: id(v) for k, v in st.items()}, copy.deepcopy(dict(st)))
    calls = [
        ("with_count(3)", lambda o: o.with_count(3)),
        ("with_label('z')", lambda o: o.with_label("z")),
        ("update_count(4)", lambda o: o.update_count(4)),
        ("transform_count(+1)", lambda o: o.transform_count(lambda v: v + 1)),
        ("reset_count()", lambda o: o.reset_count()),
        ("with_value(5)", lambda o: o.with_value(5)),
        ("with_value(5, _index=0, _insert=True)", lambda o: o.with_value(5, _index=0, _insert=True)),
        ("without_value(1)", lambda o: o.without_value(1)),
        ("transform_value(0, +1)", lambda o: o.transform_value(0, lambda v: v + 1, _by_index=True)),
        ("with_entry(9)", lambda o: o.with_entry(9)),
        ("with_table_item('k', 1)", lambda o: o.with_table_item("k", 1)),
        ("update_inner(a=2)", lambda o: o.update_inner(a=2)),
        ("transform_inner(a=+1)", lambda o: o.transform_inner(a=lambda v: v + 1)),
        ("update(count=7)", lambda o: o.update(count=7)),
        ("transform(count=+1)", lambda o: o.transform(count=lambda v: v + 1)),
        ("reset()", lambda o: o.reset()),
        ("with_count('bad')", lambda o: o.with_count("bad")),
        ("with_value('bad')", lambda o: o.with_value("bad")),
    ]
    tried = 0
    for cls in (Child, GrandChild, PlainGrandChild):
        for name, call in calls:
            o = cls(count=1, values=[1, 2], table={"a": 1}, inner=Inner(a=1), entries=[7])
            before = snap(o)
            tried += 1
            outcome, res = "returned", None
            try:
                res = call(o)
            except Exception as e:
                outcome = "raised " + type(e).__name__
            after = snap(o)
            if after != before or res is o:
                chk.violation(f"copy-on-write helper {name} on {cls.__name__} (derived from a do_not_copy=True class, "
                              f"not declared so itself; {outcome}) changed or returned the receiver",
                              {"class": cls.__name__, "call": name, "before": str(before[2]), "after": str(after[2]),
                               "result_is_receiver": res is o},
                              sig={"kind": "dnc-parent", "call": name})
                break
    extra["dnc_parent_probe"] = {"calls": tried, "rule": "implementation only: spec / eager spec / plain subclasses of a "
                                 "@spec_class(do_not_copy=True) class are copy-on-write: receiver unchanged, result distinct"}


# ---------------------------------------------------------------------------
# Elements addressed BY VALUE with an element OBJECT (implementation level; the model-level
# twin is inst_gen.byvalue_cases): `update_<item>(<obj>, **attrs)`, `update_<item>(<obj>, <new>,
# **attrs)`, `transform_<item>(<obj>, **attr_transforms)`, `transform_<item>(<obj>, fn)`,
# `without_<item>(<obj>)`, `with_<item>(<obj>, **attrs)` where <obj> is the receiver's OWN element
# (`r.update_part(r.parts[0], size=5)`), an equal free-standing instance, a deep copy of the own
# element, or an instance equal to no element -- on class shapes outside the model: List of
# unkeyed items with a float / nested list / nested spec attribute, items of a plain subclass,
# List of keyed items, Optional items, KeyedList and KeyedSet attributes.  Every case is a
# JSON-able tuple re-executed from scratch by `_byvalue_run` (so a report is a concrete replay).
# Oracle: the property statement -- identity and content of everything reachable from the
# receiver and from every argument / keyword value is unchanged, whether the call returns or raises.
_BV = None


def _byvalue_zoo():
    global _BV
    if _BV is not None:
        return _BV
    from typing import List, Optional

    from spec_classes import Attr, spec_class
    from spec_classes.types import KeyedList, KeyedSet

    @spec_class
    class Leaf:
        a: int = 0

    @spec_class
    class Part:
        size: int = 1
        label: str = "p"
        ratio: float = 0.5
        notes: List[str] = []
        leaf: Leaf = Leaf()

    class PartSub(Part):            # plain subclass: same managed attributes
        size = 3

    @spec_class(key="k")
    class KPart:
        k: str
        size: int = 0
        notes: List[str] = []

    @spec_class
    class Box:
        name: str = "box"
        parts: List[Part] = []
        kparts: List[KPart] = []
        maybes: List[Optional[Part]] = []
        items: KeyedList[KPart, str] = Attr(default_factory=KeyedList)
        tags: KeyedSet[KPart, str] = Attr(default_factory=KeyedSet)

    @spec_class
    class BoxSub(Box):
        extra: int = 0

    class BoxPlain(Box):
        pass

    _BV = dict(Leaf=Leaf, Part=Part, PartSub=PartSub, KPart=KPart, Box=Box, BoxSub=BoxSub, BoxPlain=BoxPlain)
    return _BV


BV_ATTRS = {"parts": "part", "kparts": "kpart", "maybes": "maybe", "items": "item", "tags": "tag"}
BV_LOOKUPS = ["own", "own_last", "equal", "copy", "absent"]
BV_OPS = ["update_kw", "update_kw2", "update_kw_bad_first", "update_kw_bad_last", "update_new", "update_new_kw",
          "transform_kwfn", "transform_kwfn2", "transform_kwfn_raise", "transform_kwfn_bad", "transform_fn",
          "transform_fn_raise", "without", "with_kw", "with_kw_bad"]
BV_BYINDEX = ["absent", "false"]
BV_HOLDERS = ["Box", "BoxSub", "BoxPlain"]


def _byvalue_cases():
    out = []
    for attr in BV_ATTRS:
        for holder in BV_HOLDERS:
            for lookup in BV_LOOKUPS:
                for op in BV_OPS:
                    for bi in BV_BYINDEX:
                        if bi != "absent" and (attr == "tags" or op.startswith("with_")):
                            continue        # sets and with_<item> take no _by_index
                        out.append([holder, attr, lookup, op, bi])
    return out


def _byvalue_run(case):
    """-> dict(outcome, before, after, changed) or None when the initial state cannot be built"""
    import copy

    from wide_explore import snapshot
    holder, attr, lookup, op, bi = case
    z = _byvalue_zoo()
    Part, PartSub, KPart, Leaf = z["Part"], z["PartSub"], z["KPart"], z["Leaf"]
    try:
        box = z[holder](
            parts=[Part(size=1, label="a", notes=["n"]), PartSub(label="b"), Part(size=2, label="c", leaf=Leaf(a=4))],
            kparts=[KPart("x", size=1, notes=["n"]), KPart("y", size=2)],
            maybes=[Part(size=1, label="a"), None, Part(size=2, label="b")],
            items=[KPart("x", size=1, notes=["n"]), KPart("y", size=2)],
            tags=[KPart("x", size=1, notes=["n"]), KPart("y", size=2)])
        coll = getattr(box, attr)
        elems = [e for e in coll if e is not None]
        keyed = attr in ("kparts", "items", "tags")
        if lookup == "own":
            target = elems[0]
        elif lookup == "own_last":
            target = elems[-1]
        elif lookup == "equal":
            e = elems[0]
            target = KPart(e.k, size=e.size, notes=list(e.notes)) if keyed else \
                Part(size=e.size, label=e.label, notes=list(e.notes))
        elif lookup == "copy":
            target = copy.deepcopy(elems[-1])
        else:
            target = KPart("zz", size=9) if keyed else Part(size=9, label="zz")
        new = KPart("x", size=7) if keyed else Part(size=7, label="new")
    except Exception:
        return None

    def boom(_):
        raise RuntimeError("callback raises")
    args, kw = [target], {}
    if op == "update_kw":
        m, kw = "update_", {"size": 5}
    elif op == "update_kw2":
        m, kw = "update_", {"size": 5, "notes": ["m"]}
    elif op == "update_kw_bad_first":
        m, kw = "update_", {"size": "bad", "notes": ["m"]}
    elif op == "update_kw_bad_last":
        m, kw = "update_", {"notes": ["m"], "size": "bad"}
    elif op == "update_new":
        m, args = "update_", [target, new]
    elif op == "update_new_kw":
        m, args, kw = "update_", [target, new], {"size": 6}
    elif op == "transform_kwfn":
        m, kw = "transform_", {"size": lambda v: v + 10}
    elif op == "transform_kwfn2":
        m, kw = "transform_", {"size": lambda v: v + 10, "notes": lambda v: v + ["t"]}
    elif op == "transform_kwfn_raise":
        m, kw = "transform_", {"size": lambda v: v + 10, "notes": boom}
    elif op == "transform_kwfn_bad":
        m, kw = "transform_", {"notes": lambda v: v + ["t"], "size": lambda v: "bad"}
    elif op == "transform_fn":
        m, args = "transform_", [target, lambda v: v]
    elif op == "transform_fn_raise":
        m, args = "transform_", [target, boom]
    elif op == "without":
        m = "without_"
    elif op == "with_kw":
        m, kw = "with_", {"size": 5}
    elif op == "with_kw_bad":
        m, kw = "with_", {"notes": ["m"], "size": "bad"}
    else:
        raise AssertionError(op)
    if bi == "false":
        kw["_by_index"] = False
    meth = getattr(box, m + BV_ATTRS[attr])
    watched = [box] + [a for a in args if not callable(a)] + [v for v in kw.values() if not callable(v)]
    before = [snapshot(o) for o in watched]
    outcome, res = "returned", None
    try:
        res = meth(*args, **kw)
    except BaseException as e:
        if isinstance(e, (KeyboardInterrupt, SystemExit)):
            raise
        outcome = "raised " + type(e).__name__
    after = [snapshot(o) for o in watched]
    changed = [i for i, (b, a) in enumerate(zip(before, after)) if a != b]
    return {"outcome": outcome, "changed": changed, "result_is_receiver": res is box,
            "before": before, "after": after}


def _byvalue_problem(r):
    if r is None:
        return None
    if r["changed"]:
        return ("the receiver" if 0 in r["changed"] else "an argument (the lookup object / replacement / keyword value)") \
            + " changed"
    if r["result_is_receiver"]:
        return "the receiver itself was returned"
    return None


def _byvalue_label(case):
    holder, attr, lookup, op, bi = case
    return f"{holder}.{op.split('_')[0]}_{BV_ATTRS[attr]}(<{lookup} element>, ...) [{op}, _by_index {bi}]"


def byvalue_probe(chk, cases, bad, extra):
    all_cases = _byvalue_cases()
    tried = raised = 0
    reported = set()
    for case in all_cases:
        r = _byvalue_run(case)
        if r is None:
            continue
        tried += 1
        raised += r["outcome"] != "returned"
        problem = _byvalue_problem(r)
        key = (case[1], case[3].split("_")[0])
        if problem and key not in reported and len(reported) < 3:
            reported.add(key)
            chk.violation(f"copy-on-write element helper addressed by an element object: {_byvalue_label(case)} "
                          f"({r['outcome']}): {problem}",
                          {"kind": "byvalue-probe", "case": case, "outcome": r["outcome"], "changed": r["changed"],
                           "before": repr(r["before"])[:3000], "after": repr(r["after"])[:3000]},
                          sig={"kind": "byvalue-probe", "attr": case[1], "op": case[3]})
    extra["byvalue_probe"] = {"calls": tried, "raised": raised,
                              "rule": "implementation only, exhaustive over holder class x collection attribute (List of unkeyed / "
                                      "keyed / Optional spec items, KeyedList, KeyedSet) x lookup object (own element, own last "
                                      "element, equal free-standing instance, deep copy, absent) x element helper form x _by_index; "
                                      "oracle: receiver and every argument unchanged (identity and content), result is not the receiver"}


def byvalue_replay(path):
    import json
    with open(path) as fh:
        case = json.load(fh)["case"]
    r = _byvalue_run(case)
    problem = _byvalue_problem(r)
    print("replay:", _byvalue_label(case))
    if r is not None:
        print("  outcome:", r["outcome"], "| changed (0 = receiver, 1.. = arguments):", r["changed"])
        print("  before:", repr(r["before"])[:600])
        print("  after: ", repr(r["after"])[:600])
    print("replay:", f"still failing ({problem})" if problem else "passes now")
    return 1 if problem else 0


def _post(chk, cases, bad, extra):
    line_injection(chk, cases, bad, extra)
    keyed_attributes(chk, cases, bad, extra)
    byvalue_probe(chk, cases, bad, extra)
    import keyed_explore
    keyed_explore.explore(chk, extra, "C01")
    dnc_parent_probe(chk, cases, bad, extra)
    import wide_explore
    wide_explore.explore(chk, extra, "C01")
    import c04_validated                       # validated(...)/bounded(...) element and attribute types
    c04_validated.explore(chk, extra, "C01", n_quick=1200, n_thorough=15000)
    # an existing instance handed over as replacement / value / element together with keywords
    # (update(<replacement>, kw...), transform(<fn returning an instance>, ...), update_/with_<attr>,
    # element helpers) on the classes outside the model: the caller's object is never written
    import c04_replacement
    c04_replacement.explore(chk, extra, "C01", n_quick=1200, n_thorough=20000)
    # preparers resolving a name to an object the receiver / a registry already holds + nested keywords;
    # copy-on-write element helpers on EMPTY containers (with and without a late failure)
    import c04_existing
    c04_existing.explore(chk, extra, "C01", n_quick=800, n_thorough=12000)


def _aimed(rng, t):
    quick = t == "quick"
    # elements addressed by index / key / scalar value; then elements of a List of spec items
    # addressed BY VALUE with an instance (own element, the caller's original, equal instance)
    # then an existing instance handed over as the complete replacement / nested value / element
    # together with keywords (`update(<replacement>, kw...)` etc.): they go into a copy
    return (ig.element_cases(rng, 300 if quick else 5000, inplace_values=(False,))
            + ig.byvalue_cases(rng, 120 if quick else 1500, inplace_values=(False,))
            + ig.replacement_cases(rng, 110 if quick else 2000, inplace_values=(False,))
            + ig.replacement_cases(rng, 30 if quick else 500, inplace_values=(False,), flavour="wide"))


def main(tier, replay=None):  # noqa: F811
    if replay and '"validated-zoo"' in open(replay).read():
        import c04_validated
        return c04_validated.replay("C01", replay)
    if replay and '"byvalue-probe"' in open(replay).read():
        return byvalue_replay(replay)
    if replay and '"replacement-probe"' in open(replay).read():
        import c04_replacement
        return c04_replacement.replay("C01", replay)
    if replay and '"existing-probe"' in open(replay).read():
        import c04_existing
        return c04_existing.replay("C01", replay)
    if replay:
        return inst_check.replay("C01", replay, 2)
    return inst_check.run("C01", tier, 2, GENS, 400, 6000, ASSUMPTIONS, post=_post, aimed=_aimed)
