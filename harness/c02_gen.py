"""Generators and reporting shared by C02 / C08: targeted class tables and histories on
top of inst_gen, evaluation of extra case sets through the driver's oracle."""
import json

import inst_check
import inst_common as ic
import inst_gen as ig

V, S = ig.V, ig.S
MISSING, EMPTY, UNCHANGED, NONE = ig.MISSING, ig.EMPTY, ig.UNCHANGED, ig.NONE


MUTABLE_LITERALS = {50: [("list", [V(1), V(2)]), ("list", []), ("list", [V(3)])],
                    51: [("dict", [(S(7), V(1))]), ("dict", [])],
                    52: [("set", [V(1)]), ("set", [])]}


def add_mutable_dependants(rng, t):
    """K2 gets one or two collection attributes with a LITERAL mutable default declared
    `Attr(default=<list|dict|set>, invalidated_by=[...])` (the class object keeps the literal as a
    class attribute): invalidated by the scalar attribute 1, the nested attribute 4, another
    collection, or "*" (99).  Returns the aids of the dependants."""
    k2 = {a["aid"]: a for a in t[1]["attrs"]}
    deps = rng.sample([50, 51, 52], rng.choice([1, 1, 2]))
    for aid in deps:
        others = [x for x in (50, 51, 52, 53) if x != aid and x not in deps]
        inv = rng.choice([[1], [1], [4], [1, 4], [99], [rng.choice(others)], [3, 1]])
        k2[aid].update(default=rng.choice(MUTABLE_LITERALS[aid]), factory=None, decl="Attr", inv_by=inv, dnc=False)
    return deps


def gen_table_c02(rng, mutable_override=0.0, flavour=None, mutable_dependants=0.0):
    """inst_gen table plus: identity item preparers on the collections of spec instances,
    more do_not_copy attributes, (optionally) a mutable default overridden in the spec subclass,
    (optionally) mutable literal defaults with invalidated_by"""
    t = ig.gen_table(rng, flavour)
    k2 = {a["aid"]: a for a in t[1]["attrs"]}
    if rng.random() < mutable_dependants:
        add_mutable_dependants(rng, t)
    if rng.random() < 0.5:
        k2[53]["prepare_item"] = ("id",)
    if rng.random() < 0.4:
        k2[54]["prepare_item"] = ("id",)
    for aid in (4, 50, 51, 53):
        if rng.random() < 0.25:
            k2[aid]["dnc"] = True
    for a in t[2]["attrs"]:
        if a.get("inherited") and a["aid"] in k2:
            a["dnc"] = bool(k2[a["aid"]].get("dnc"))
            if a["aid"] == 50 and rng.random() < mutable_override:
                a["override"] = ("list", [V(7), V(8)])
            if a["aid"] == 51 and rng.random() < mutable_override:
                a["override"] = ("dict", [(S(8), V(2))])
    return t


def attr_of(table, cid, aid):
    for c in table:
        if c["id"] in ((1,) if cid == 1 else (2,) if cid == 2 else (3, 2)):
            for a in c["attrs"]:
                if a["aid"] == aid and not a.get("inherited"):
                    return a
    return None


def noop_call(h, rng, x, cid):
    """helper calls that change nothing but still build a copy: update_<coll>(MISSING/EMPTY),
    with_<attr>() / with_<attr>(sentinel), update_<spec attr>(), identity transforms"""
    attrs = h.attrs_of(cid)
    a = rng.choice(attrs)
    t, aid = a["ty"], a["aid"]
    r = rng.random()
    if t[0] in ("list", "dict", "set") and r < 0.5:
        return h.add(("helper", x, ("update", aid), {"pos": [rng.choice([MISSING, EMPTY, UNCHANGED])]}), ("inst", cid))
    if t == ("spec", 1) and r < 0.5:
        return h.add(("helper", x, ("update", aid), {"pos": [], "kw": None}), ("inst", cid))
    if r < 0.65:
        return h.add(("helper", x, ("transform", aid), {"fn": ("id",)}), ("inst", cid))
    if r < 0.8:     # transform(attr=lambda v: v): the transform sees the attribute of the copy being built
        return h.add(("helper", x, ("transform_top", None), {"kwfn": [(aid, ("id",))]}), ("inst", cid))
    return h.add(("helper", x, ("with", aid), {"pos": [rng.choice([MISSING, UNCHANGED, EMPTY])]}), ("inst", cid))


def gen_case_c02(rng, n_ops=6):
    plain = rng.random() < 0.3     # K4: plain (undecorated) subclass of K2 (correspondence and oracles only)
    table = gen_table_c02(rng, mutable_override=0.5, flavour="plain" if plain else None, mutable_dependants=0.3)
    _, heap0 = ic.resolve_table(table)
    nd = len(heap0)
    h = ig.Hist(rng, table, nd)
    h.prefer_nested = rng.random() < 0.5
    cid = rng.choice([4, 4, 2, 3]) if plain else rng.choice([2, 3, 3])
    if rng.random() < 0.3:                      # receiver holding nothing but its defaults
        x = h.add(("construct", cid, None, []), ("inst", cid))
    else:
        x = h.construct(cid)
    for _ in range(rng.choice([0, 1, 2])):      # reach richer receiver states in place
        (h.item_helper if rng.random() < 0.6 else h.scalar_helper)(x, cid, 0.0, 1.0)
    results = []
    for _ in range(max(2, n_ops - 3)):          # copy-on-write calls with fresh arguments
        recv = rng.choice([x] + results[-2:])
        r = rng.random()
        if r < 0.3:
            y = h.scalar_helper(recv, cid, 0.05, 0.0)
        elif r < 0.6:
            y = h.item_helper(recv, cid, 0.05, 0.0)
        elif r < 0.7:
            y = h.top_helper(recv, cid, 0.05, 0.0)
        elif r < 0.78:
            y = h.add(("deepcopy", recv), ("inst", cid))
        elif r < 0.88:                          # reset_<attr>() / reset() on a copy
            if rng.random() < 0.6:
                a = rng.choice(h.attrs_of(cid))
                y = h.add(("helper", recv, ("reset", a["aid"]), {}), ("inst", cid))
            else:
                y = h.add(("helper", recv, ("reset_top", None), {}), ("inst", cid))
        else:
            y = noop_call(h, rng, recv, cid)
        results.append(y)
    for _ in range(2):                          # follow-up in-place mutation of a result and of the receiver
        tgt = rng.choice([x] + results[-2:])
        r = rng.random()
        if r < 0.4:
            h.item_helper(tgt, cid, 0.0, 1.0)
        elif r < 0.7:
            h.scalar_helper(tgt, cid, 0.0, 1.0)
        elif r < 0.85:
            a = rng.choice(h.attrs_of(cid))
            h.add(("setattr", tgt, a["aid"], h.value_for(a)), ("none",))
        else:
            a = rng.choice(h.attrs_of(cid))
            h.add(("delattr", tgt, a["aid"]), ("none",))
    return {"table": table, "ops": h.ops, "nd": nd}


def gen_case_inv(rng):
    """histories aimed at a dependant with a LITERAL mutable default (`Attr(default=[...],
    invalidated_by=[...])`): own elements put into the dependant, the invalidator changed in place on
    the receiver, copy-on-write helpers of every kind on the invalidator / deepcopy (two sibling
    copies), in-place element helpers on the dependant of a copy and of the receiver, a new instance.
    Whatever the invalidation leaves behind must be the instance's own object: with the getattr
    view of inst_common an instance that merely READS the class-level default object (attribute
    absent from its dictionary) is seen holding it."""
    plain = rng.random() < 0.25
    table = gen_table_c02(rng, mutable_override=0.3, flavour="plain" if plain else None, mutable_dependants=1.0)
    for c in table[1:]:
        c["frozen"] = False
    _, heap0 = ic.resolve_table(table)
    nd = len(heap0)
    h = ig.Hist(rng, table, nd)
    cid = rng.choice([4, 4, 2, 3]) if plain else rng.choice([2, 2, 3])
    by_aid = {a["aid"]: a for a in h.attrs_of(cid)}
    deps = [a for a in by_aid.values() if a.get("inv_by") and a["ty"][0] in ("list", "dict", "set")]
    dep = rng.choice(deps)
    inv = rng.choice(dep["inv_by"])
    if inv == 99:
        inv = rng.choice([a for a in by_aid if a != dep["aid"]])
    ia = by_aid[inv]

    def item_args():
        if dep["ty"][0] == "dict":
            return [S(rng.choice([7, 8, 9])), V(rng.choice([0, 1, 2]))]
        return [V(rng.choice([0, 1, 2, 5]))]

    def poke(x, inplace=True):          # element helper on the dependant
        kind = rng.choice(["with_item", "with_item", "with_item", "without_item"])
        pos = item_args() if kind == "with_item" else item_args()[:1]
        return h.add(("helper", x, (kind, dep["aid"]), {"pos": pos, "inplace": inplace}), ("inst", cid))

    def change(x, inplace):             # every way of changing the invalidator
        kinds = ["with", "with", "update", "transform", "reset", "update_top", "transform_top"]
        if ia["ty"][0] in ("list", "dict", "set") and ia["ty"][-1] == ig.INT:
            kinds += ["item", "item"]
        if inplace:
            kinds += ["setattr", "setattr", "delattr"]
        k = rng.choice(kinds)
        if k == "setattr":
            return h.add(("setattr", x, inv, h.value_for(ia)), ("none",))
        if k == "delattr":
            return h.add(("delattr", x, inv), ("none",))
        hh = {"inplace": inplace}
        if k in ("with", "update"):
            hh["pos"] = [h.value_for(ia)]
        elif k == "transform":
            hh["fn"] = h.fn_for(ia["ty"])
        elif k == "update_top":
            hh["kw"] = [(inv, h.value_for(ia))]
            return h.add(("helper", x, ("update_top", None), hh), ("inst", cid))
        elif k == "transform_top":
            if ia["ty"][0] == "set" or (ia["ty"][-1] == ("spec", 1) and ia["ty"][0] != "spec"):
                hh["pos"] = [h.value_for(ia)]
                return h.add(("helper", x, ("with", inv), hh), ("inst", cid))
            hh["kwfn"] = [(inv, h.fn_for(ia["ty"]))]
            return h.add(("helper", x, ("transform_top", None), hh), ("inst", cid))
        elif k == "item":
            fam = ia["ty"][0]
            hh["pos"] = [S(7), V(1)] if fam == "dict" else [V(rng.choice([0, 1, 2]))]
            return h.add(("helper", x, ("with_item", inv), hh), ("inst", cid))
        return h.add(("helper", x, (k, inv), hh), ("inst", cid))

    if rng.random() < 0.35:                     # receiver holding nothing but its defaults
        x = h.add(("construct", cid, None, []), ("inst", cid))
    else:
        x = h.construct(cid)
    if rng.random() < 0.6:
        poke(x)
    if rng.random() < 0.7:
        change(x, True)
    copies = []
    for _ in range(rng.choice([1, 2, 2])):
        recv = rng.choice([x] + copies[-1:])
        if rng.random() < 0.25:
            copies.append(h.add(("deepcopy", recv), ("inst", cid)))
        else:
            copies.append(change(recv, False))
    for tgt in rng.sample(copies + [x], min(2, len(copies) + 1)):
        poke(tgt)
    if rng.random() < 0.5:
        h.add(("construct", cid, None, []), ("inst", cid))
    return {"table": table, "ops": h.ops, "nd": nd}


def report(chk, pid, bit, cases, extra, key, sig_fn=None, limit=12):
    """evaluate an extra case set, shrink and report what concerns `bit` (or the model)"""
    bad, logs = ic.evaluate(pid, cases, tag=key[:1])
    want = bit | 1
    relevant = [(i, c, o) for i, c, o in bad if c & want]
    relevant.sort(key=lambda t: (0 if t[1] & bit else 1, len(cases[t[0]]["ops"])))
    reported = set()
    for i, code, obs in relevant[:limit if chk.tier != "quick" else min(limit, 4)]:
        mask = code & bit if code & bit else 1
        small = ic.shrink_case(pid, cases[i], mask)
        sig = (sig_fn or inst_check.signature)(small, mask)
        k = (mask, json.dumps(sig, sort_keys=True, default=str))
        if k in reported:
            continue
        reported.add(k)
        r, _ = ic.run_case(small)
        concrete = bool(mask & bit)
        what = ("%s violated by the implementation: %s" % (pid, small["ops"][-1][0],) if concrete else
                "model and implementation disagree (property oracle accepts the run): %s" % (small["ops"][-1][0],))
        chk.violation(what, inst_check.describe(small, mask, r), sig=sig if concrete else None, no_input=not concrete)
    for lg in logs[:2]:
        chk.violation("correspondence evaluation failed: " + lg[:400], {"kind": "coq-eval", "log": lg}, no_input=True)
    ophist = {}
    for c in cases:
        for op, _ in c["ops"]:
            k = op[0] if op[0] != "helper" else "helper:" + op[2][0] + (":inplace" if op[3].get("inplace") else "")
            ophist[k] = ophist.get(k, 0) + 1
    extra[key] = {"cases": len(cases), "operations": sum(len(c["ops"]) for c in cases), "flagged": len(bad),
                  "flagged_for_this_property": len(relevant), "op_histogram": ophist,
                  "mask_histogram": {str(k): sum(1 for _, c, _ in bad if c == k) for k in {c for _, c, _ in bad}}}
    extra["evaluations"] = extra.get("evaluations", 0) + len(cases)
    extra["distinct_nontrivial"] = extra.get("distinct_nontrivial", 0) + len(
        {json.dumps((c["table"], c["ops"]), sort_keys=True, default=str) for c in cases})
    return bad


# ------------------------------------------------------------------ implementation-level probes
def mutable_ids(obj, seen=None):
    """ids of the mutable objects reachable from obj (lists, dicts, sets, spec instances)"""
    seen = {} if seen is None else seen
    if isinstance(obj, (list, dict, set)) or hasattr(type(obj), "__spec_class__"):
        if id(obj) in seen:
            return seen
        seen[id(obj)] = obj
        if isinstance(obj, dict):
            kids = list(obj.keys()) + list(obj.values())
        elif isinstance(obj, (list, set)):
            kids = list(obj)
        else:
            kids = list(object.__getattribute__(obj, "__dict__").values())
        for k in kids:
            mutable_ids(k, seen)
    return seen


def shared_objects(a, b, exempt=()):
    """mutable objects reachable from both a and b, minus what is reachable from `exempt`"""
    ex = {}
    for e in exempt:
        mutable_ids(e, ex)
    ia, ib = mutable_ids(a), mutable_ids(b)
    return [ia[i] for i in ia if i in ib and i not in ex]


def dnc_family(parent_dnc, child_dnc, eager):
    """parent spec class P (xs, ks: lists, n: int), spec subclasses Q (own do_not_copy list,
    nothing re-defaulted) and S (sibling, declares nothing)"""
    from typing import List

    from spec_classes import spec_class
    kw = {"bootstrap": True} if eager else {}
    K = spec_class(key="name", **kw)(type("K", (), {"__annotations__": {"name": str, "marks": List[int]}, "marks": [],
                                                    "__module__": "verif_generated", "__qualname__": "K"}))
    P = spec_class(do_not_copy=list(parent_dnc), **kw)(
        type("P", (), {"__annotations__": {"xs": List[int], "ks": List[K], "n": int}, "xs": [], "ks": [], "n": 0,
                       "__module__": "verif_generated", "__qualname__": "P"}))
    Q = spec_class(do_not_copy=list(child_dnc), **kw)(
        type("Q", (P,), {"__annotations__": {"w": int}, "w": 0, "__module__": "verif_generated", "__qualname__": "Q"}))
    S = spec_class(**kw)(type("S", (P,), {"__annotations__": {"v": int}, "v": 0,
                                          "__module__": "verif_generated", "__qualname__": "S"}))
    return K, P, Q, S


def canon(obj, skip=(), skip_cls=None):
    """structural value of an object graph (no identities); the attribute names in `skip` are left
    out of the top-level object and of every instance of `skip_cls` (do_not_copy attributes are
    legitimately shared, so changes behind them may be visible on both sides)"""
    def go(o, top, seen):
        if isinstance(o, (list, dict, set)) or hasattr(type(o), "__spec_class__"):
            if id(o) in seen:
                return ("cycle",)
            seen = seen | {id(o)}
            if isinstance(o, list):
                return ("list", tuple(go(x, False, seen) for x in o))
            if isinstance(o, set):
                return ("set", tuple(sorted(repr(go(x, False, seen)) for x in o)))
            if isinstance(o, dict):
                return ("dict", tuple((go(k, False, seen), go(v, False, seen)) for k, v in o.items()))
            st = object.__getattribute__(o, "__dict__")
            drop = skip if (top or (skip_cls is not None and isinstance(o, skip_cls))) else ()
            return ("inst", type(o).__name__, tuple((k, go(v, False, seen)) for k, v in st.items() if k not in drop))
        return ("scalar", type(o).__name__, repr(o))
    return go(obj, True, frozenset())


def dnc_parent_family(eager, decl):
    """classes around a parent declared @spec_class(do_not_copy=True).  `decl` is what the spec
    subclass Child says about do_not_copy: None (bare @spec_class), False, or a list of attribute
    names (inherited and own).  Returns (K, Holder-maker, TrueSub, members) where members is a
    list of (class, declared do_not_copy attribute names) for every class that is NOT itself
    declared do_not_copy=True: one and two levels of spec / plain subclassing below the parent,
    and below a do_not_copy=True class in the middle of the chain."""
    from typing import Dict, List, Set

    from spec_classes import spec_class
    kw = {"bootstrap": True} if eager else {}

    def mk(name, bases, ann, defaults, spec=True, **skw):
        body = {"__annotations__": dict(ann), "__module__": "verif_generated", "__qualname__": name}
        body.update(defaults)
        c = type(name, bases, body)
        return spec_class(**skw, **kw)(c) if spec else c

    K = mk("K", (), {"name": str, "marks": List[int]}, {"marks": []}, key="name")
    Base = mk("Base", (), {"label": str, "entries": List[int], "reg": Dict[str, int], "ks": List[K]},
              {"label": "base", "entries": [], "reg": {}, "ks": []}, do_not_copy=True)
    ckw = {} if decl is None else {"do_not_copy": decl if isinstance(decl, bool) else list(decl)}
    Child = mk("Child", (Base,), {"count": int, "values": List[int], "table": Dict[str, List[int]], "inner": K,
                                  "tags": Set[int], "items": List[K]},
               {"count": 0, "values": [], "table": {}, "tags": set(), "items": []}, **ckw)
    child_dnc = tuple(decl) if isinstance(decl, (list, tuple)) else ()
    GrandSpec = mk("GrandSpec", (Child,), {"extra": str}, {"extra": "x"})
    GrandList = mk("GrandList", (Child,), {"extra": str}, {"extra": "x"}, do_not_copy=["table", "ks"])
    GrandPlain = mk("GrandPlain", (Child,), {}, {}, spec=False)
    PlainBase = mk("PlainBase", (Base,), {}, {}, spec=False)
    SpecOverPlain = mk("SpecOverPlain", (PlainBase,),
                       {"count": int, "values": List[int], "table": Dict[str, List[int]], "inner": K,
                        "tags": Set[int], "items": List[K]},
                       {"count": 0, "values": [], "table": {}, "tags": set(), "items": []})
    TrueSub = mk("TrueSub", (Child,), {"more": int}, {"more": 0}, do_not_copy=True)
    Leaf = mk("Leaf", (TrueSub,), {"extra": str}, {"extra": "x"})
    LeafPlain = mk("LeafPlain", (Leaf,), {}, {}, spec=False)
    members = [(Child, child_dnc), (GrandSpec, ()), (GrandList, ("table", "ks")), (GrandPlain, child_dnc),
               (SpecOverPlain, ()), (Leaf, ()), (LeafPlain, ())]

    def holder(cls):
        return mk("Holder", (), {"kid": cls, "kids": List[cls], "lookup": Dict[str, cls], "n": int}, {"n": 0})
    return K, holder, TrueSub, members


# ------------------------------------------------------------------ oracles evaluated in Python on the observed graphs
SENTINELS = ("missing", "empty", "unchanged")


def must_copy(op):
    """a copy-on-write helper call that has to hand back a derived copy (not the receiver)"""
    if op[0] == "deepcopy":
        return True
    if op[0] != "helper":
        return False
    kind, h = op[2][0], op[3]
    if h.get("inplace") or not h.get("if_", True):
        return False
    pos = h.get("pos") or []
    real = bool(pos) and pos[0][0] not in SENTINELS
    if kind == "with":
        return real
    if kind == "update":
        return real or (bool(pos) and pos[0][0] == "missing" and bool(h.get("kw")))
    if kind == "transform":
        return h.get("fn") is not None or bool(h.get("kwfn"))
    if kind in ("with_item", "update_item", "transform_item", "without_item", "reset", "reset_top"):
        return True
    if kind == "update_top":
        return bool(h.get("kw")) and not pos
    if kind == "transform_top":
        return bool(h.get("kwfn"))
    return False


def op_targets(op):
    if op[0] == "deepcopy":
        return set()
    kind, aid, h = op[2][0], op[2][1], op[3]
    if aid is not None:
        return {aid}
    if kind == "reset_top":
        return None            # every attribute
    return {a for a, _ in (h.get("kw") or [])} | {a for a, _ in (h.get("kwfn") or [])}


def dnc_attrs(table, cid):
    base = 2 if cid in (2, 3, 4) else cid
    for c in table:
        if c["id"] == base:
            return {a["aid"] for a in c["attrs"] if a.get("dnc")}
    return set()


def graph_reach(nodes, vals):
    """indices of the nodes reachable from the values `vals` of a canonical graph"""
    seen, stack = set(), [v for v in vals if v[0] == "ref"]
    while stack:
        i = stack.pop()[1]
        if i in seen:
            continue
        seen.add(i)
        o = nodes[i]
        if o[0] == "dict":
            kids = [x for p in o[1] for x in p]
        elif o[0] == "inst":
            kids = [v for _, v in o[2]]
        else:
            kids = list(o[1])
        stack.extend(v for v in kids if v[0] == "ref")
    return seen


def with_dependants(table, cid, targets):
    """`targets` plus every attribute the class declares invalidated by one of them (transitively;
    99 = "*"): a call that changes an attribute also resets its dependants in the copy"""
    base = 2 if cid in (2, 3, 4) else cid
    attrs = [a for c in table if c["id"] == base for a in c["attrs"]]
    out = set(targets)
    grown = bool(out)
    while grown:
        grown = False
        for a in attrs:
            if a["aid"] not in out and any(x == 99 or x in out for x in a.get("inv_by") or []):
                out.add(a["aid"])
                grown = True
    return out


def python_oracles(case, obs):
    """(kind, index of the operation, detail) for: a copy-on-write call that returned the receiver
    itself; a do_not_copy attribute (not addressed by the call) that the copy does not hold by identity;
    result and receiver of a copy-on-write call / deepcopy both reaching the same class-level default
    object (with the getattr view: also when they merely read it through the class-attribute fallback)"""
    out = []
    if obs is None:
        return out
    n_roots = case["nd"]
    for i, ((op, _), (outc, g)) in enumerate(zip(case["ops"], obs[1])):
        if op[0] == "same":
            continue
        res_idx = n_roots
        n_roots += 1
        if op[0] not in ("helper", "deepcopy") or outc != [0]:
            continue
        roots, nodes = g
        recv, res = roots[op[1]], roots[res_idx]
        if recv[0] != "ref" or res[0] != "ref":
            continue
        if op[0] == "helper" and op[3].get("inplace"):
            continue
        if recv == res:
            if must_copy(op):
                out.append(("receiver-returned", i, "a copy-on-write call handed back the receiver itself"))
            continue
        nr, ns = nodes[recv[1]], nodes[res[1]]
        if nr[0] != "inst" or ns[0] != "inst":
            continue
        dflt = graph_reach(nodes, roots[:case["nd"]])
        if dflt:
            both = graph_reach(nodes, [recv]) & graph_reach(nodes, [res]) & dflt
            if both:        # not through do_not_copy attributes (carried by identity, whatever they hold)
                dvals = [v for o in nodes if o[0] == "inst" for a, v in o[2] if a in dnc_attrs(case["table"], o[1])]
                both -= graph_reach(nodes, dvals)
            if both:
                out.append(("class-default-shared", i, "result and receiver hold / read the same class-level default "
                            "object (graph node %d): an in-place change of either (or of any other such instance) is "
                            "visible through the other and in new instances" % min(both)))
        targets = op_targets(op)
        if targets is None:
            continue
        fr, fs = dict(nr[2]), dict(ns[2])
        for a in dnc_attrs(case["table"], nr[1]) - with_dependants(case["table"], nr[1], targets):
            if a in fr and a in fs and fr[a][0] == "ref" and fs[a][0] == "ref" and fr[a] != fs[a]:
                out.append(("dnc-duplicated", i, "do_not_copy attribute %d of K%d is not carried by identity" % (a, nr[1])))
    return out


def report_python_oracles(chk, pid, cases, extra, key):
    n = hits = 0
    seen = set()
    for case in cases:
        r, _ = ic.run_case(case)
        for kind, i, detail in python_oracles(case, r):
            hits += 1
            sig = {"kind": kind, "helper": case["ops"][i][0][2][0] if case["ops"][i][0][0] == "helper" else "deepcopy"}
            k = json.dumps(sig, sort_keys=True)
            if k in seen or len(seen) >= 6:
                continue
            seen.add(k)
            small = dict(case, ops=case["ops"][:i + 1])
            rs, _ = ic.run_case(small)
            chk.violation("%s violated by the implementation: %s: %s" % (pid, detail, small["ops"][-1][0],),
                          dict(inst_check.describe(small, 0, rs), kind=kind), sig=sig)
        n += 1
    extra[key] = {"cases": n, "violations": hits}
