"""C03, implementation-level probe: attributes annotated KeyedList[...] / KeyedSet[...]
(of keyed spec items, of typed scalars) -- outside the Coq instance model.

Every WHOLE-VALUE route (constructor keyword, `obj.attr = v`, with_<attr>, update_<attr>,
transform_<attr>, top-level update / transform, dict-to-spec casting of the holder and nested
keywords through an outer holder, default factories restored by del / reset_<attr> / reset)
and every ELEMENT helper (with_/update_/transform_/without_<item> with value, index / insert,
key / element addressing, nested attribute keywords and attribute transforms), copy and in
place, is handed conforming and non-conforming values: wrong scalar, instance of another spec
class, None, a bare key (cast by the library), dicts (cast), nested lists, items whose key is
outside the declared key type; whole values arrive as plain list / tuple / deque / set /
generator / untyped or typed KeyedList / KeyedSet.

ORACLE (the property statement itself, not the library's check_type and not Coq): after every
operation, returned or raised, every managed attribute of every live instance of the zoo
(receivers, results, the caller's argument objects and whatever is reachable from them) either
has no value or conforms to its annotation, judged by `why_not` below against the annotation
table `ANN` written here from the class definitions."""
import collections
import itertools

# docs/C03.candidate-1.md: two faces of one defect this probe found on the then-unchanged tree,
# fixed in /repo 3655f2b (check_type calls KeyedBase.__spec_class_check_type__; the sequence / set
# inserters check the item's key against the declared key type).  Both are regression cases now:
# with the flags off they are reported like any other violation (sig carries candidate_1_face)
# and the histories draw them too.  (Setting a flag to True counts that face as pending instead.)
#   face (a) 'instance': a whole-value route handed a KeyedList / KeyedSet INSTANCE that itself holds
#             non-conforming elements stored it as it was (check_type never looked inside).
PENDING_KEYED_INSTANCE = False
#   face (b) 'key': the declared KEY type of a KeyedList / KeyedSet attribute was never enforced
#             (items conform, their keys do not).
PENDING_KEY_TYPE = False

INT, STR = ("int",), ("str",)
ITEM, OTHER, WIDE, BOX = ("spec", "Item"), ("spec", "Other"), ("spec", "Wide"), ("spec", "Box")
COLL = {  # collection attributes of Box: annotation as declared in `build`
    "items": ("klist", ITEM, STR),
    "members": ("kset", ITEM, STR),
    "nums": ("klist", INT, INT),
    "tags": ("kset", STR, STR),
    "wides": ("klist", WIDE, STR),
}
ANN = {
    "Item": {"name": STR, "value": INT},
    "Other": {"name": STR},
    "Wide": {"name": ("union", INT, STR), "value": INT},
    "Box": dict(COLL, n=INT),
    "Outer": {"box": BOX, "obox": ("opt", BOX), "n": INT},
}
KEY_ATTR = {"Item": "name", "Other": "name", "Wide": "name"}
SHAPES = ["plain", "eager", "prep", "sub", "factory", "badfactory", "frozen"]
_ZOO = {}


def build(shape):
    """the classes of one shape, on the library under test"""
    if shape in _ZOO:
        return _ZOO[shape]
    from typing import Optional, Union

    from spec_classes import Attr, spec_class
    from spec_classes.types import KeyedList, KeyedSet

    def deco(**kw):
        if shape == "eager":
            kw["bootstrap"] = True
        return spec_class(**kw)

    @deco(key="name")
    class Item:
        name: str
        value: int = 0

    @deco(key="name")
    class Other:
        name: str

    @deco(key="name")
    class Wide:
        name: Union[int, str]
        value: int = 0

    if shape in ("plain", "eager", "frozen"):
        @deco(frozen=shape == "frozen")
        class Box:
            items: KeyedList[Item, str]
            members: KeyedSet[Item, str]
            nums: KeyedList[int, int]
            tags: KeyedSet[str, str]
            wides: KeyedList[Wide, str]
            n: int = 0
    elif shape == "prep":
        @deco()
        class Box:
            items: KeyedList[Item, str]
            members: KeyedSet[Item, str]
            nums: KeyedList[int, int]
            tags: KeyedSet[str, str]
            wides: KeyedList[Wide, str]
            n: int = 0

            def _prepare_item(self, x):
                return x

            def _prepare_member(self, x):
                return x

            def _prepare_num(self, x):
                return x

            def _prepare_tag(self, x):
                return x

            def _prepare_wide(self, x):
                return x

            def _prepare_nums(self, xs):
                return xs
    elif shape == "sub":
        @deco()
        class BoxBase:
            items: KeyedList[Item, str]
            members: KeyedSet[Item, str]
            nums: KeyedList[int, int]
            n: int = 0

        @deco()
        class Box(BoxBase):
            tags: KeyedSet[str, str]
            wides: KeyedList[Wide, str]
    elif shape == "factory":
        @deco()
        class Box:
            items: KeyedList[Item, str] = Attr(default_factory=KeyedList)
            members: KeyedSet[Item, str] = Attr(default_factory=KeyedSet)
            nums: KeyedList[int, int] = Attr(default_factory=lambda: [1, 2])
            tags: KeyedSet[str, str] = Attr(default_factory=lambda: ("t", "u"))
            wides: KeyedList[Wide, str] = Attr(default_factory=lambda: ["w"])
            n: int = 0
    elif shape == "badfactory":     # plain containers with a non-conforming element
        @deco()
        class Box:
            items: KeyedList[Item, str] = Attr(default_factory=lambda: [Item("a"), 5])
            members: KeyedSet[Item, str] = Attr(default_factory=lambda: [Item("a"), None])
            nums: KeyedList[int, int] = Attr(default_factory=lambda: (1, "x"))
            tags: KeyedSet[str, str] = Attr(default_factory=lambda: ["t", 1])
            wides: KeyedList[Wide, str] = Attr(default_factory=lambda: [Wide("w"), Item("i")])
            n: int = 0
    else:
        raise AssertionError(shape)

    @deco()
    class Outer:
        box: Box
        obox: Optional[Box] = None
        n: int = 0

    z = {"Item": Item, "Other": Other, "Wide": Wide, "Box": Box, "Outer": Outer,
         "KeyedList": KeyedList, "KeyedSet": KeyedSet, "shape": shape,
         "item_name": {a: Box.__spec_class__.attrs[a].item_name for a in COLL}}
    _ZOO[shape] = z
    return z


# ---------------------------------------------------------------------------
# the reference conformance relation (written from the property text)
def key_of(e, item_ty):
    if item_ty[0] == "spec":
        d = getattr(e, "__dict__", {})
        return d.get(KEY_ATTR[item_ty[1]], e)
    return e


def why_not(v, ty, z):
    """None when `v` conforms to the annotation `ty`, else 'class' / 'elem' / 'key'"""
    k = ty[0]
    if k == "int":
        return None if isinstance(v, int) else "class"
    if k == "str":
        return None if isinstance(v, str) else "class"
    if k == "spec":
        return None if isinstance(v, z[ty[1]]) else "class"
    if k == "opt":
        return None if v is None else why_not(v, ty[1], z)
    if k == "union":
        return None if any(why_not(v, t, z) is None for t in ty[1:]) else "class"
    if k in ("klist", "kset"):
        if not isinstance(v, z["KeyedList" if k == "klist" else "KeyedSet"]):
            return "class"
        stored = list(v._dict.items())
        elems = [e for _, e in stored] + list(iter(v)) + (list(v._list) if k == "klist" else [])
        if any(why_not(e, ty[1], z) for e in elems):
            return "elem"
        if any(why_not(kk, ty[2], z) for kk, _ in stored) or any(why_not(key_of(e, ty[1]), ty[2], z) for e in elems):
            return "key"
        return None
    raise AssertionError(ty)


def live_instances(roots, z):
    """every instance of a zoo class reachable from the roots (through attributes and containers)"""
    classes = tuple(z[c] for c in ANN)
    seen, out, todo = set(), [], list(roots)
    while todo:
        o = todo.pop()
        if id(o) in seen or isinstance(o, (int, float, str, bytes, type(None), type)):
            continue
        seen.add(id(o))
        if isinstance(o, classes):
            out.append(o)
            todo.extend(object.__getattribute__(o, "__dict__").values())
        elif isinstance(o, z["KeyedList"]):
            todo.extend(o._list)
            todo.extend(o._dict.values())
        elif isinstance(o, z["KeyedSet"]):
            todo.extend(o._dict.values())
        elif isinstance(o, dict):
            todo.extend(o.keys())
            todo.extend(o.values())
        elif isinstance(o, (list, tuple, set, frozenset, collections.deque)):
            todo.extend(o)
    return out


def invariant(roots, z):
    """[(class, attribute, reason, repr of the value)] for every managed attribute that does not conform"""
    bad = []
    for o in live_instances(roots, z):
        cname = next(c for c in ANN if isinstance(o, z[c]))
        d = object.__getattribute__(o, "__dict__")
        for a, ty in ANN[cname].items():
            if a in d:
                r = why_not(d[a], ty, z)
                if r:
                    bad.append((cname, a, r, repr(d[a])[:160]))
    return bad


# ---------------------------------------------------------------------------
# values (JSON-able descriptions, materialised for the call they are passed to)
class Unbuildable(Exception):
    pass


class NoReceiver(Exception):
    pass


class Run:
    def __init__(self, shape):
        self.z = build(shape)
        self.boxes, self.outers, self.keep = [], [], []

    def mat(self, s):
        z, k = self.z, s[0]
        if k in ("int", "str", "float", "bool", "key"):
            return s[1]
        if k == "none":
            return None
        try:
            if k == "item":
                v = z["Item"](s[1], value=s[2])
            elif k == "other":
                v = z["Other"](s[1])
            elif k == "wide":
                v = z["Wide"](s[1])
            elif k == "dict":
                v = {kk: self.mat(vv) for kk, vv in s[1].items()}
            elif k in ("list", "tuple", "set", "deque", "gen", "klist", "kset", "typed"):
                xs = [self.mat(x) for x in s[-1]]
                self.keep.extend(xs)
                if k == "list":
                    v = xs
                elif k == "tuple":
                    v = tuple(xs)
                elif k == "set":
                    v = set(xs)
                elif k == "deque":
                    v = collections.deque(xs)
                elif k == "gen":
                    return (x for x in xs)
                elif k == "klist":
                    v = z["KeyedList"](xs)
                elif k == "kset":
                    v = z["KeyedSet"](xs)
                else:               # typed like the attribute's own annotation
                    ty = COLL[s[1]]
                    py = {"int": int, "str": str, "spec": None}
                    it = z[ty[1][1]] if ty[1][0] == "spec" else py[ty[1][0]]
                    v = z["KeyedList" if ty[0] == "klist" else "KeyedSet"][it, py[ty[2][0]]](xs)
            else:
                raise AssertionError(s)
        except AssertionError:
            raise
        except (KeyboardInterrupt, SystemExit):
            raise
        except BaseException as e:  # (BaseTypeError derives from BaseException) the argument itself cannot be built (unhashable element, typed container refusing)
            raise Unbuildable(type(e).__name__) from None
        self.keep.append(v)
        return v

    def roots(self):
        return self.boxes + self.outers + self.keep

    def box(self, i):
        if not self.boxes:
            raise NoReceiver()
        return self.boxes[i % len(self.boxes)]

    def outer(self, i):
        if not self.outers:
            raise NoReceiver()
        return self.outers[i % len(self.outers)]

    def note(self, r):
        if isinstance(r, self.z["Box"]) and not any(r is b for b in self.boxes):
            self.boxes.append(r)
        elif isinstance(r, self.z["Outer"]) and not any(r is b for b in self.outers):
            self.outers.append(r)
        elif r is not None:
            self.keep.append(r)


GOOD_INIT = {"items": ["list", [["item", "a", 1], ["key", "b"]]], "members": ["list", [["item", "a", 1], ["key", "b"]]],
             "nums": ["list", [["int", 1], ["int", 2]]], "tags": ["list", [["str", "t"], ["str", "u"]]],
             "wides": ["list", [["wide", "a"], ["key", "b"]]]}
WHOLE = ["construct", "setattr", "with", "update_attr", "transform_attr", "top_update", "top_transform",
         "nested_construct", "nested_with", "nested_update", "nested_cast", "nested_setattr", "nested_opt"]
NO_INPLACE = ("construct", "setattr", "nested_construct", "nested_setattr")
RESTORE = ["delattr", "reset_attr", "reset"]
HELPERS = ["with", "update", "transform", "without"]


def apply(run, op):
    """perform one operation; returns its result (None for statements)"""
    z, route, ip = run.z, op["route"], op.get("inplace", False)
    a = op.get("attr")
    if route == "init":             # a holder with conforming contents (plain lists)
        box = z["Box"](**{k: run.mat(v) for k, v in GOOD_INIT.items()})
        run.note(box)
        return z["Outer"](box=box)
    if route in WHOLE:
        arg = run.mat(op["arg"])
        if route == "construct":
            kw = {k: run.mat(v) for k, v in GOOD_INIT.items() if k != a and op.get("full", True)}
            return z["Box"](**dict(kw, **{a: arg}))
        if route == "nested_construct":
            return z["Outer"](box={a: arg})
        if route.startswith("nested"):
            o = run.outer(op.get("recv", 0))
            if route == "nested_with":
                return o.with_box(_inplace=ip, **{a: arg})
            if route == "nested_update":
                return o.update_box(_inplace=ip, **{a: arg})
            if route == "nested_cast":
                return o.with_box({a: arg}, _inplace=ip)
            if route == "nested_opt":
                return o.with_obox({a: arg}, _inplace=ip)
            o.box = {a: arg}
            return None
        b = run.box(op.get("recv", 0))
        if route == "setattr":
            setattr(b, a, arg)
            return None
        if route == "with":
            return getattr(b, "with_" + a)(arg, _inplace=ip)
        if route == "update_attr":
            return getattr(b, "update_" + a)(arg, _inplace=ip)
        if route == "transform_attr":
            return getattr(b, "transform_" + a)(lambda _: arg, _inplace=ip)
        if route == "top_update":
            return b.update(_inplace=ip, **{a: arg})
        return b.transform(_inplace=ip, **{a: lambda _: arg})
    if route in RESTORE:
        b = run.box(op.get("recv", 0))
        if route == "delattr":
            delattr(b, a)
            return None
        if route == "reset_attr":
            return getattr(b, "reset_" + a)(_inplace=ip)
        return b.reset(_inplace=ip)
    if route == "empty":            # a holder built from nothing (default factories run)
        return z["Box"]()
    assert route == "elem", route
    b = run.box(op.get("recv", 0))
    name = z["item_name"][a]
    kw = {"_inplace": ip}
    attrs = {k: run.mat(v) for k, v in (op.get("attrs") or {}).items()}
    h = op["helper"]
    if h == "with":
        pos = [run.mat(op["val"])] if "val" in op else []
        if "index" in op:
            kw["_index"] = run.mat(op["index"])
        if op.get("insert"):
            kw["_insert"] = True
        return getattr(b, "with_" + name)(*pos, **kw, **attrs)
    addr = run.mat(op["addr"])
    if "by_index" in op:
        kw["_by_index"] = op["by_index"]
    if h == "update":
        pos = [addr] + ([run.mat(op["val"])] if "val" in op else [])
        return getattr(b, "update_" + name)(*pos, **kw, **attrs)
    if h == "transform":
        fns = {k: (lambda _, v=v: v) for k, v in attrs.items()}
        if "val" in op:
            v = run.mat(op["val"])
            return getattr(b, "transform_" + name)(addr, lambda _: v, **kw, **fns)
        return getattr(b, "transform_" + name)(addr, **kw, **fns)
    return getattr(b, "without_" + name)(addr, **kw)


def face_of(op, bad):
    """which face of candidate 1 (docs/C03.candidate-1.md) a failure of the invariant shows, if any:
    'instance' -- the whole value handed over is itself a keyed container of the attribute's class
    (typed or untyped) whose contents do not conform; 'key' -- every non-conforming attribute fails
    on the KEY type only (its items conform)"""
    if op["route"] in WHOLE and op["arg"][0] in ("typed", COLL[op["attr"]][0]):
        return "instance"
    if all(r == "key" for _, _, r, _ in bad):
        return "key"
    return None


def run_scenario(sc):
    """-> dict(outcomes=[...], violation=None | {...}, pending=None | 'instance' | 'key')"""
    run = Run(sc["shape"])
    out = {"outcomes": [], "violation": None, "pending": None}
    for i, op in enumerate(sc["ops"]):
        try:
            r = apply(run, op)
            run.note(r)
            oc = "ok"
        except Unbuildable as e:
            out["outcomes"].append("unbuildable:" + str(e))
            continue
        except NoReceiver:
            out["outcomes"].append("no-receiver")
            continue
        except (KeyboardInterrupt, SystemExit):
            raise
        except BaseException as e:  # noqa: BLE001 - every library exception is an outcome
            oc = "TypeError" if isinstance(e, TypeError) else "ValueError" if isinstance(e, ValueError) else type(e).__name__
        out["outcomes"].append(oc)
        bad = invariant(run.roots(), run.z)
        if bad:
            face = face_of(op, bad)
            if face == "instance" and PENDING_KEYED_INSTANCE or face == "key" and PENDING_KEY_TYPE:
                out["pending"] = face
                return out
            out["violation"] = {"op_index": i, "op": op, "outcome": oc, "bad": bad[:3], "face": face}
            return out
    return out


# ---------------------------------------------------------------------------
# generators
ELEMS = {   # per item annotation: conforming, non-conforming, conforming items with a key outside the key type
    "items": dict(good=[["item", "c", 3], ["key", "d"], ["dict", {"name": ["str", "e"], "value": ["int", 3]}]],
                  bad=[["int", 5], ["float", 2.5], ["none"], ["other", "x"], ["list", [["int", 1]]],
                       ["list", [["item", "z", 0]]], ["dict", {"name": ["int", 5]}], ["bool", True],
                       ["dict", {"name": ["str", "f"], "value": ["str", "x"]}], ["wide", "w"], ["tuple", [["key", "q"]]]],
                  keybad=[]),
    "nums": dict(good=[["int", 7], ["int", 8], ["int", -3]],
                 bad=[["str", "a"], ["float", 2.5], ["none"], ["item", "a", 1], ["list", [["int", 1]]], ["tuple", [["int", 9]]]],
                 keybad=[]),
    "tags": dict(good=[["str", "v"], ["str", "w"], ["str", ""]],
                 bad=[["int", 1], ["none"], ["item", "a", 1], ["tuple", [["str", "t"]]], ["float", 1.5], ["bool", False]],
                 keybad=[]),
    "wides": dict(good=[["wide", "c"], ["key", "d"], ["dict", {"name": ["str", "e"]}]],
                  bad=[["item", "a", 1], ["none"], ["float", 2.5], ["other", "x"], ["list", [["wide", "z"]]]],
                  keybad=[["wide", 5], ["int", 6], ["dict", {"name": ["int", 7]}]]),
}
ELEMS["members"] = ELEMS["items"]
CONTAINERS = ["list", "tuple", "deque", "gen", "set", "klist", "kset", "typed"]
SCALAR_WHOLE = [["none"], ["int", 5], ["str", "ab"], ["item", "a", 1], ["dict", {"x": ["int", 1]}], ["float", 0.0], ["bool", False]]


def whole_arg(rng, attr, kind, n_bad, keybad=False):
    """a whole value of container `kind` for `attr`: conforming elements with `n_bad` non-conforming
    ones at random positions (first / middle / last all occur)"""
    pool = ELEMS[attr]
    xs = rng.sample(pool["good"], rng.choice([0, 1, 2, 2]))
    src = pool["keybad"] if keybad and pool["keybad"] else pool["bad"]
    if kind in ("set", "klist", "kset", "typed"):   # elements of these must be hashable for the argument to exist
        src = [s for s in src if s[0] not in ("list", "dict")]
        xs = [s for s in xs if s[0] != "dict"]
    if kind in ("klist", "kset", "typed"):          # keyed containers do not cast: conforming means instances
        xs = [s for s in xs if s[0] not in ("key", "dict")]
    for _ in range(n_bad):
        xs.insert(rng.choice([0, len(xs), rng.randrange(len(xs) + 1)]), rng.choice(src))
    return [kind, attr, xs] if kind == "typed" else [kind, xs]


def routes_inplace():
    for r in WHOLE:
        for ip in ((False,) if r in NO_INPLACE else (False, True)):
            yield r, ip


def whole_scenarios(rng, draws, shapes):
    """every (route, in place, attribute, container kind): `draws` non-conforming draws + one conforming control"""
    for (route, ip), attr, kind in itertools.product(list(routes_inplace()), COLL, CONTAINERS):
        for d in range(draws + 1):
            shape = rng.choice([s for s in shapes if s != "badfactory" and not (s == "frozen" and (ip or "setattr" in route))])
            n_bad = 0 if d == draws else rng.choice([1, 1, 1, 2])
            keybad = attr == "wides" and n_bad and rng.random() < 0.3
            op = {"route": route, "attr": attr, "inplace": ip, "arg": whole_arg(rng, attr, kind, n_bad, keybad)}
            if route == "construct":
                op["full"] = rng.random() < 0.5 or shape == "frozen"
            yield {"shape": shape, "ops": [{"route": "init"}, op], "aim": "good" if n_bad == 0 else "bad",
                   "block": "whole"}
    for (route, ip), attr in itertools.product(list(routes_inplace()), COLL):   # non-container whole values
        for s in SCALAR_WHOLE:
            yield {"shape": rng.choice(["plain", "eager", "prep", "sub", "factory"]), "aim": "bad", "block": "whole-scalar",
                   "ops": [{"route": "init"}, {"route": route, "attr": attr, "inplace": ip, "arg": s}]}


def addr_for(rng, attr, present=True):
    """an address of an element of GOOD_INIT's content (or of none): key / index / element object"""
    if attr in ("items", "members", "wides"):
        cls = "wide" if attr == "wides" else "item"
        key = rng.choice(["a", "b"]) if present else "zz"
        r = rng.random()
        if r < 0.45:
            return ["key", key]
        if r < 0.7 and attr != "members":
            return ["int", rng.choice([0, 1, -1]) if present else 7]
        return [cls, key, rng.choice([0, 1])] if cls == "item" else [cls, key]
    if attr == "nums":
        return ["int", rng.choice([1, 2, 0]) if present else 9]
    return ["str", rng.choice(["t", "u"]) if present else "zz"]


def elem_op(rng, attr, helper, aim):
    pool = ELEMS[attr]
    bad = aim == "bad"
    op = {"route": "elem", "attr": attr, "helper": helper, "inplace": rng.random() < 0.5}
    spec_item = attr in ("items", "members", "wides")
    val = rng.choice((pool["bad"] + pool["keybad"]) if bad else pool["good"])
    bad_attrs = rng.choice([{"value": ["str", "x"]}, {"name": ["float", 1.5]}, {"name": ["none"]}, {"value": ["none"]},
                            {"nope": ["int", 1]}] + ([{"name": ["int", 5]}] if attr != "wides" or bad else []))
    good_attrs = rng.choice([{"value": ["int", 4]}, {"name": ["str", "k"]}, {"value": ["bool", True]}])
    if helper == "with":
        form = rng.choice(["val", "val", "val+index", "val+insert", "attrs"] if spec_item else ["val", "val", "val+index", "val+insert"])
        if attr in ("members", "tags") and form != "attrs":
            form = "val"
        if form == "attrs":          # key (cast) plus nested attribute keywords
            op["val"] = ["key", rng.choice(["a", "n"])]
            op["attrs"] = bad_attrs if bad else good_attrs
        else:
            op["val"] = val
            if form != "val":
                op["index"] = rng.choice([["int", 0], ["int", 1], ["int", 5], ["key", "a"], ["none"]])
                op["insert"] = form == "val+insert"
    elif helper in ("update", "transform"):
        op["addr"] = addr_for(rng, attr, present=rng.random() < 0.85)
        if spec_item and rng.random() < 0.4:
            op["attrs"] = bad_attrs if bad else good_attrs
            if rng.random() < 0.3:
                op["val"] = rng.choice(pool["good"])
        else:
            op["val"] = val
        if attr in ("items", "nums", "wides") and rng.random() < 0.25:
            op["by_index"] = rng.random() < 0.5
    else:
        op["addr"] = addr_for(rng, attr, present=rng.random() < 0.7) if not bad else rng.choice(pool["bad"] + [["int", 9]])
    return op


def elem_scenarios(rng, draws, shapes):
    for attr, helper, aim in itertools.product(COLL, HELPERS, ("bad", "bad", "good")):
        for _ in range(draws):
            shape = rng.choice([s for s in shapes if s != "badfactory"])
            op = elem_op(rng, attr, helper, aim)
            if shape == "frozen":
                op["inplace"] = False
            yield {"shape": shape, "ops": [{"route": "init"}, op], "aim": aim, "block": "elem"}


def factory_scenarios(rng, draws):
    """default factories returning plain containers: conforming ('factory') or with a bad element ('badfactory')"""
    for shape in ("factory", "badfactory"):
        yield {"shape": shape, "ops": [{"route": "empty"}], "aim": "bad" if shape == "badfactory" else "good", "block": "factory"}
        for attr, route in itertools.product(COLL, RESTORE):
            for ip in (False, True):
                yield {"shape": shape, "aim": "bad" if shape == "badfactory" else "good", "block": "factory",
                       "ops": [{"route": "init"}, {"route": route, "attr": attr, "inplace": ip}]}
        for _ in range(draws):      # partial constructors: the other attributes come from their factories
            attr = rng.choice(list(COLL))
            yield {"shape": shape, "aim": "bad" if shape == "badfactory" else "good", "block": "factory",
                   "ops": [{"route": "construct", "attr": attr, "full": False, "arg": whole_arg(rng, attr, "list", 0)}]}


def history(rng, n_ops, shapes):
    shape = rng.choice([s for s in shapes if s not in ("badfactory", "frozen")])
    ops = [{"route": "init"}]
    for _ in range(n_ops):
        attr = rng.choice(list(COLL))
        bad = rng.random() < 0.45
        r = rng.random()
        if r < 0.5:
            route, ip = rng.choice(list(routes_inplace()))
            kinds = [k for k in CONTAINERS if not (PENDING_KEYED_INSTANCE and bad and k in ("klist", "kset", "typed"))]
            op = {"route": route, "attr": attr, "inplace": ip, "full": rng.random() < 0.5,
                  "arg": whole_arg(rng, attr, rng.choice(kinds), rng.choice([1, 2]) if bad else 0,
                                 keybad=bad and attr == "wides" and rng.random() < 0.3)}
        elif r < 0.93:
            op = elem_op(rng, attr, rng.choice(HELPERS), "bad" if bad else "good")
            if PENDING_KEY_TYPE and attr == "wides":
                pool = ELEMS["wides"]["keybad"]
                if op.get("val") in pool or (op.get("attrs") or {}).get("name") == ["int", 5]:
                    op.pop("attrs", None)
                    op["val"] = ["none"]
        else:
            op = {"route": rng.choice(RESTORE), "attr": attr, "inplace": rng.random() < 0.5}
        op["recv"] = rng.randrange(4)
        ops.append(op)
    return {"shape": shape, "ops": ops, "aim": "mixed", "block": "history"}


def scenarios(rng, tier):
    quick = tier == "quick"
    shapes = SHAPES
    out = list(whole_scenarios(rng, 2 if quick else 10, shapes))
    out += list(elem_scenarios(rng, 12 if quick else 80, shapes))
    out += list(factory_scenarios(rng, 6 if quick else 40))
    out += [history(rng, rng.choice([3, 5, 8]), shapes) for _ in range(250 if quick else 2500)]
    return out


def shrink(sc):
    """drop operations that are not needed for the violation"""
    ops = list(sc["ops"])
    i = len(ops) - 1
    while i >= 0:
        cand = dict(sc, ops=ops[:i] + ops[i + 1:])
        try:
            if run_scenario(cand)["violation"]:
                ops = cand["ops"]
        except Exception:           # noqa: BLE001
            pass
        i -= 1
    return dict(sc, ops=ops)


def describe(sc, v):
    op = v["op"]
    what = op["route"] if op["route"] != "elem" else "%s_<item>" % op["helper"]
    c, a, r, rp = v["bad"][0]
    return ("C03 violated by the implementation: %s on the %s attribute `%s`%s (%s) leaves %s.%s = %s, which does not conform "
            "to its annotation (%s)" % (what, COLL.get(op.get("attr"), ("?",))[0], op.get("attr"), " in place" if op.get("inplace") else "",
                                        v["outcome"], c, a, rp, {"elem": "element type", "key": "key type", "class": "container class"}[r]))


def run(chk, extra):
    scs = scenarios(chk.rng, chk.tier)
    stats = {"scenarios": len(scs), "operations": 0, "violating": 0, "pending_candidate_1_keyed_instance": 0,
             "pending_candidate_1_key_type": 0, "by_block": {}, "outcomes": {}, "aimed_good_accepted": 0, "aimed_good": 0,
             "aimed_bad_refused": 0, "aimed_bad": 0, "crashed": 0}
    seen = {}
    for sc in scs:
        try:
            res = run_scenario(sc)
        except Exception as e:      # noqa: BLE001 - the probe itself failed
            stats["crashed"] += 1
            if stats["crashed"] <= 2:
                chk.violation("keyed probe failed on a scenario: %s: %s" % (type(e).__name__, str(e)[:200]),
                              {"kind": "probe-keyed", "scenario": sc}, no_input=True)
            continue
        stats["operations"] += len(res["outcomes"])
        blk = stats["by_block"].setdefault(sc["block"], {"scenarios": 0, "violating": 0})
        blk["scenarios"] += 1
        last = res["outcomes"][-1] if res["outcomes"] else "none"
        for oc in res["outcomes"][1:] or res["outcomes"]:
            stats["outcomes"][oc] = stats["outcomes"].get(oc, 0) + 1
        if sc["aim"] == "good":
            stats["aimed_good"] += 1
            stats["aimed_good_accepted"] += last == "ok"
        elif sc["aim"] == "bad":
            stats["aimed_bad"] += 1
            stats["aimed_bad_refused"] += last in ("TypeError", "ValueError")
        if res["pending"]:
            stats["pending_candidate_1_keyed_instance" if res["pending"] == "instance" else "pending_candidate_1_key_type"] += 1
        v = res["violation"]
        if not v:
            continue
        stats["violating"] += 1
        blk["violating"] += 1
        op = v["op"]
        key = (op["route"], op.get("helper"), COLL.get(op.get("attr"), ("?",))[0], (op.get("arg") or ["-"])[0])
        seen.setdefault(key, []).append(sc)
    order, routes = [], {}
    for key in sorted(seen, key=lambda k: (len(seen[k][0]["ops"]), str(k))):   # one report per route first
        routes.setdefault((key[0], key[1]), []).append(key)
    for rank in range(max((len(v) for v in routes.values()), default=0)):
        order += [v[rank] for v in routes.values() if len(v) > rank]
    for key in order[:6]:
        sc = shrink(min(seen[key], key=lambda s: len(s["ops"])))
        res = run_scenario(sc)
        if not res["violation"]:
            continue
        chk.violation(describe(sc, res["violation"]), {"kind": "probe-keyed", "scenario": sc},
                      sig={"kind": "probe-keyed", "route": key[0], "helper": key[1], "container": key[2], "argument": key[3],
                           "candidate_1_face": res["violation"]["face"]})
    stats["distinct_violating_route_shapes"] = len(seen)
    extra["correspondence"]["keyed_probe"] = stats


def replay(sc):
    res = run_scenario(sc)
    v = res["violation"]
    print("replay (keyed probe):", ("still failing: " + describe(sc, v)) if v else
          ("pending candidate (%s)" % res["pending"] if res["pending"] else "passes now"), res["outcomes"])
    return 1 if v else 0
