#!/bin/bash
# usage: docs/C10.mutants.sh <mutant>... ; applies each hand-made mutant of spec_classes/methods/core.py in a scratch
# worktree (/tmp/wt-c10, removed afterwards) and runs `bin/check C10 quick` against it.  Mutants: early_true
# compare_false_counts missing_eq_none missing_eq_none_one_side missing_eq_zero missing_eq_empty_list missing_eq_empty_str
# missing_eq_sentinel falsy_all_equal repr_skips_last repr_order subclass_equal probe_spec_class_objects redefault_drops_compare
# compact_key_no_default keyedset_eq_by_key keyedset_repr_unguarded field_repr_from_compare old_eq
# old_deepcopy old_repr init_parent_ownership deepcopy_owner_class eq_isinstance_owner init_direct_parent_only (code 2
# expected) and type_is deep_marker (model drift, no-failing-input-found, expected).
set -u
WT=/tmp/wt-c10
F=$WT/spec_classes/methods/core.py
run() {
  name=$1; shift
  git -C /repo worktree remove --force $WT >/dev/null 2>&1
  git -C /repo worktree add $WT HEAD >/dev/null 2>&1; cp /repo/spec_classes/_version.py $WT/spec_classes/
  /venv/bin/python - "$F" "$name" <<'PY'
import sys
p, name = sys.argv[1], sys.argv[2]
if name == "redefault_drops_compare":      # (seeded/C10-B1) lives in spec_class.py
    p = p.replace("methods/core.py", "spec_class.py")
if name == "field_repr_from_compare":       # (seeded/C10-D2) lives in types/attr.py
    p = p.replace("methods/core.py", "types/attr.py")
if name in ("keyedset_eq_by_key", "keyedset_repr_unguarded"):    # live in types/keyed.py
    p = p.replace("methods/core.py", "types/keyed.py")
s = open(p).read()
def rep(old, new):
    global s
    assert s.count(old) == 1, (name, s.count(old))
    s = s.replace(old, new)
if name == "early_true":
    rep("            if value_self != value_other:\n                return False\n        return True",
        "            if value_self != value_other:\n                return False\n            return True\n        return True")
elif name == "compare_false_counts":
    rep("            if not attr_spec.compare:\n                continue\n", "")
elif name == "missing_eq_none":
    rep("            value_self = getattr(self, attr, MISSING)\n            value_other = getattr(other, attr, MISSING)",
        "            value_self = getattr(self, attr, None)\n            value_other = getattr(other, attr, None)")
elif name == "missing_eq_none_one_side":   # only the left operand's lookup falls back to None
    rep("            value_self = getattr(self, attr, MISSING)\n", "            value_self = getattr(self, attr, None)\n")
elif name == "missing_eq_zero":
    rep("            value_self = getattr(self, attr, MISSING)\n            value_other = getattr(other, attr, MISSING)",
        "            value_self = getattr(self, attr, 0)\n            value_other = getattr(other, attr, 0)")
elif name == "missing_eq_empty_list":
    rep("            value_self = getattr(self, attr, MISSING)\n            value_other = getattr(other, attr, MISSING)",
        "            value_self = getattr(self, attr, [])\n            value_other = getattr(other, attr, [])")
elif name == "missing_eq_empty_str":
    rep("            value_self = getattr(self, attr, MISSING)\n            value_other = getattr(other, attr, MISSING)",
        "            value_self = getattr(self, attr, '')\n            value_other = getattr(other, attr, '')")
elif name == "missing_eq_sentinel":        # another sentinel of the library as the fallback
    rep("            value_self = getattr(self, attr, MISSING)\n            value_other = getattr(other, attr, MISSING)",
        "            from spec_classes.types.missing import SENTINEL\n            value_self = getattr(self, attr, SENTINEL)\n            value_other = getattr(other, attr, SENTINEL)")
elif name == "falsy_all_equal":            # all falsy values (missing included) count as equal
    rep("            if value_self != value_other:\n                return False\n        return True",
        "            if not value_self and not value_other:\n                continue\n            if value_self != value_other:\n                return False\n        return True")
elif name == "repr_skips_last":
    rep("            if attr_spec.repr\n        )", "            if attr_spec.repr\n        )[:-1]")
elif name == "old_eq":
    rep("                if value_self.__func__ is not value_other.__func__:\n                    return False\n                continue",
        "                return value_self.__func__ is value_other.__func__")
elif name == "old_deepcopy":
    rep("                new.__dict__[attr] = MethodType(value.__func__, new)\n                continue", "                continue")
elif name == "old_repr":
    rep("                if any(obj is parent for parent in parents):", "                if False:")
elif name == "type_is":
    rep("        if not isinstance(other, self.__class__):", "        if type(other) is not type(self):")
elif name == "repr_order":
    rep("            if attr_spec.repr\n        )", "            if attr_spec.repr\n        )[::-1]")
elif name == "deep_marker":
    rep('                    return "[...]" if isinstance(obj, MutableSequence) else "{...}"', '                    return "<self>"')
elif name == "probe_spec_class_objects":
    # (seeded/C10-2) object_repr probes `__spec_class__` instead of try/except TypeError:
    # a spec CLASS OBJECT held by an attribute passes the probe and Cls.__repr__(indent=..) raises
    rep("""            if hasattr(obj, "__repr__"):
                try:
                    return obj.__repr__(  # pylint: disable=unnecessary-dunder-call
                        indent=indent, compact=compact_children
                    )
                except TypeError:
                    pass
""", """            if getattr(obj, "__spec_class__", None):
                return obj.__repr__(  # pylint: disable=unnecessary-dunder-call
                    indent=indent, compact=compact_children
                )
""")
elif name == "redefault_drops_compare":
    rep('                "repr",\n                "compare",\n                "hash",', '                "repr",\n                "hash",')
elif name == "compact_key_no_default":     # (seeded/C10-C1) compact child with a missing key
    rep('repr(getattr(self, self.__spec_class__.key, MISSING))', 'repr(getattr(self, self.__spec_class__.key))')
elif name == "keyedset_eq_by_key":         # (seeded/C10-C2) KeyedSet == KeyedSet by key membership only
    rep("            return self._dict == other._dict", "            return len(self) == len(other) and all(item in other for item in self)")
elif name == "keyedset_repr_unguarded":    # reverse of /repo 97568f7: KeyedSet.__repr__ without the recursion guard
    rep('    @reprlib.recursive_repr(fillvalue="{...}")\n    def __repr__(self):', '    def __repr__(self):')
elif name == "field_repr_from_compare":    # (seeded/C10-D2) dataclasses.field: repr flag taken from compare
    rep("                repr=value.repr,", "                repr=value.compare,")
elif name == "init_parent_ownership":      # (seeded/C10-F2) ownership read from the PARENT's attribute spec in the parent-constructor loop
    rep("""                    for attr in parent_metadata.attrs:
                        instance_attr_spec = instance_metadata.attrs[attr]
                        if instance_attr_spec.owner is not parent:
                            continue
""", """                    for attr, parent_attr_spec in parent_metadata.attrs.items():
                        if parent_attr_spec.owner is not parent:
                            continue
                        instance_attr_spec = instance_metadata.attrs[attr]
""")
elif name == "deepcopy_owner_class":       # (seeded/C10-F1) the copy is created as an instance of the class that owns the metadata
    rep("        new = self.__class__.__new__(self.__class__)", "        new = self.__spec_class__.owner.__new__(self.__spec_class__.owner)")
elif name == "eq_isinstance_owner":        # a plain subclass instance equals an instance of the spec class above it
    rep("        if not isinstance(other, self.__class__):", "        if not isinstance(other, self.__spec_class__.owner):")
elif name == "init_direct_parent_only":    # only the direct parent's constructor runs: attributes of the root are lost two levels down
    rep("            for parent in reversed(spec_cls.mro()[1:]):", "            for parent in reversed(spec_cls.mro()[1:2]):")
elif name == "subclass_equal":
    rep("        if not isinstance(other, self.__class__):\n            return False", "        if not isinstance(other, self.__class__):\n            return NotImplemented")
open(p, "w").write(s)
PY
  echo "=== mutant $name"
  ( cd /verif && VERIF_EVIDENCE_DIR=${VERIF_EVIDENCE_DIR:-/tmp/ev-c10-mutants} VERIF_REPO=$WT timeout 1200 bin/check C10 quick 2>&1 | tail -4 | cut -c1-420 )
}
for m in "$@"; do run $m; done
git -C /repo worktree remove --force $WT >/dev/null 2>&1
git -C /repo worktree prune
