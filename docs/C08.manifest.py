CHECK = dict(
    technique="Coq proof (the separation judgement of C02 instantiated at the constructor call, at default lookup and, with "
              "the class-default region as watermark, over whole histories by induction on the history) + differential "
              "correspondence with sharing oracles and reset-versus-fresh-instance assertions evaluated by vm_compute",
    text="C08_construct_fresh (everything reachable from a new instance is allocated by the constructor call or reachable "
         "from a value given for a do_not_copy attribute: no class-level default, no copied argument, no peer), "
         "C08_default_is_fresh (lookup_default_value, the value __init__ assigns and __delattr__/reset install, is fresh) "
         "and C08_defaults_isolated / C08_reset_keeps_defaults_isolated (after any history of construction, assignment, "
         "deletion, deepcopy, copy-on-write helpers and in-place with/reset/update/transform the class-level default "
         "objects are unchanged and referenced by no other object) and C08_inplace_confined_to_receiver (an assignment, "
         "deletion or attribute-level helper called with _inplace=True, reset/transform(_inplace=True), update(_inplace=True) "
         "without replacement value writes no pre-existing cell other than the receiver's own, whatever the outcome) and "
         "C08_inplace_element_confined (element helpers: receiver cell and the collection object of the attribute only) are "
         "proved in Coq; further: no operation ever removes a defaulted attribute from an instance dictionary "
         "(C08_no_defaulted_attribute_removed, no guard), constructor results hold every defaulted init-enabled attribute "
         "for ever (C08_holds_defaults_history; necessary guard: no UNCHANGED keyword, see the finding "
         "C08_unchanged_keyword_refuted), the final-heap form of reset freshness for del / reset_<a>(_inplace=True) "
         "without dependants (C08_del_fresh_final_heap), and peers created by constructors stay disjoint over histories "
         "of constructor calls, copy-on-write helpers and EVERY helper called in place (attribute level, element level = "
         "nested values at depth one, update/transform/reset) with scalar arguments (C08_peers_disjoint_history_partial, "
         "C08_peers_disjoint_history_nested_partial); the model never stores a dangling reference "
         "(C08_no_dangling_reference_is_ever_stored). Remaining partial: see docs/C08.md. The "
         "correspondence runs histories mixing construction, in-place mutation, del / reset_<a> / reset and fresh "
         "instances on every default form of the class grammar (incl. mutable overrides in a spec subclass) and evaluates "
         "in Coq, on the implementation's graphs, the sharing oracles and `same` assertions (attribute after reset equals "
         "the attribute of a new instance); plain-subclass overrides are probed on the implementation only.",
    note="Trusted: Coq kernel + vm_compute; hand-written model; harness. Fixed: /repo 8d388fa (default_factory / "
         "plain-subclass override ignored by __delattr__) and 8d0a965 (del/reset installed the raw instead of the prepared "
         "default; found by the `same` oracle).",
    design="4 C08",
)
