CHECK = dict(
    technique="Coq proof (refinement of the one-dict KeyedSet model, including the inherited collections.abc Set/MutableSet "
              "mixins, to an insertion-ordered map specification; representation and typed invariants; atomicity of failing "
              "operations; set-algebra laws on key sets; unbounded operation sequences, abstract items/keys/key function) + "
              "differential correspondence model vs implementation evaluated by vm_compute",
    text="Theorems C14_refines_map / C14_constructor / C14_reachable_invariant / C14_failed_operation_changes_nothing / "
         "C14_enforce_add_unequal / C14_add_succeeds / C14_typed_add_rejects / C14_map_laws and the key-set laws C14_difference, "
         "C14_intersection, C14_union, C14_reflected_difference, C14_symmetric_difference, C14_le, C14_lt, C14_ge, C14_gt, "
         "C14_isdisjoint, C14_eq_is_mapping_equality, C14_inplace_union/_intersection/_difference/_symmetric_difference/"
         "_with_itself are proved in Coq for every operation sequence over abstract items, keys and key functions (closed under "
         "the global context). The hand-written model (coq/KS/Model.v) is tied to spec_classes/types/keyed.py and the CPython "
         "3.12 Set/MutableSet mixins on every run by executing model, specification and implementation on the same generated "
         "cases (fourteen item universes incl. typed ones without key function whose item type is wider than the key type, unhashable items with hashable keys, falsy items sharing a key with truthy ones and items whose default-extracted key is falsy (0, False, \"\"), typed and untyped, both settings of "
         "enforce_item_equivalence, KeyedSet / built-in set / list / self operands, plain and reflected operators) and comparing "
         "output and _dict (in order) after every operation; executed lines of the anchored functions are recorded.",
    note="Trusted: Coq kernel + vm_compute; the hand-written model and Python dict/mixin/operator-dispatch semantics (validated "
         "by correspondence only); harness encoders. Hypotheses: items and keys are values (== decides equality); an item usable "
         "as a dictionary key is its own key (docstring warning); key function on a bare key returns it or raises TypeError. "
         "== is mapping equality. With enforce_item_equivalence=True the mixins work on (key, item) pairs, so the key-set laws "
         "are proved for operands that agree on shared keys (unconditional when the flags are off); see docs/C14.md.",
    design="4 C14",
)
