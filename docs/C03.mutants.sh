#!/bin/bash
# Self-test of the C03 check: hand-made mutants of the anchored code, each must be
# caught with a concrete (code 2) replay.  usage: docs/C03.mutants.sh [tier]
tier=${1:-quick}
V=/verif
run() {
  name=$1; file=$2; expr=$3
  wt=/tmp/wt-c03-$name
  git -C /repo worktree remove --force $wt >/dev/null 2>&1
  git -C /repo worktree add -q $wt HEAD 2>&1 | grep -v conda
  cp /repo/spec_classes/_version.py $wt/spec_classes/
  /venv/bin/python - "$wt/$file" "$expr" <<'PY'
import sys, re
path, expr = sys.argv[1], sys.argv[2]
old, new = expr.split("==>")
s = open(path).read()
assert old in s, (path, old)
open(path, "w").write(s.replace(old, new, 1))
PY
  ( cd $V && VERIF_REPO=$wt VERIF_SEED=${VERIF_SEED:-0} timeout 1500 bin/check C03 $tier > /tmp/c03-mut-$name.log 2>&1 )
  rc=$?
  conc=$(grep '^VIOLATION' /tmp/c03-mut-$name.log | grep -vc 'no-failing-input-found')
  first=$(grep -m1 '^# C03 violated' /tmp/c03-mut-$name.log | cut -c1-150)
  echo "$name rc=$rc concrete=$conc :: $first"
  git -C /repo worktree remove --force $wt >/dev/null 2>&1
}
run with_nocheck spec_classes/methods/scalar.py '            inplace=_inplace,
        )==>            inplace=_inplace,
            type_check=False,
        )'
run setattr_nocheck spec_classes/methods/core.py '                inplace=True,
                force=force,==>                inplace=True,
                type_check=False,
                force=force,'
run seq_insert_nocheck spec_classes/collections/sequences.py '        if not check_type(item, self.attr_spec.item_type):==>        if not insert and not check_type(item, self.attr_spec.item_type):'
run map_key_nocheck spec_classes/collections/mappings.py '        if not check_type(index, self._key_type):==>        if False:'
run map_value_nocheck spec_classes/collections/mappings.py '        if not check_type(item, self.attr_spec.item_type):==>        if False:'
run set_nocheck spec_classes/collections/sets.py '        if not check_type(item, self.attr_spec.item_type):==>        if False:'
run cow_nocheck spec_classes/utils/mutation.py '        if attr_spec and type_check and not check_type(value, attr_spec.type):==>        if attr_spec and type_check and inplace and not check_type(value, attr_spec.type):'
run delattr_nocheck spec_classes/methods/core.py '                value=prepare_attr_value(attr_spec, self, default),
                inplace=True,==>                value=prepare_attr_value(attr_spec, self, default),
                inplace=True,
                type_check=False,'
# pre-fix library: reverse-apply a `fix:` commit of /repo in the scratch worktree
runrev() {
  name=$1; commit=$2
  wt=/tmp/wt-c03-$name
  git -C /repo worktree remove --force $wt >/dev/null 2>&1
  git -C /repo worktree add -q $wt HEAD 2>&1 | grep -v conda
  cp /repo/spec_classes/_version.py $wt/spec_classes/
  ( cd $wt && git show $commit -- spec_classes | git apply -R ) || { echo "$name: cannot reverse-apply $commit"; return; }
  ( cd $V && VERIF_REPO=$wt VERIF_SEED=${VERIF_SEED:-0} timeout 1500 bin/check C03 $tier > /tmp/c03-mut-$name.log 2>&1 )
  rc=$?
  conc=$(grep '^VIOLATION' /tmp/c03-mut-$name.log | grep -vc 'no-failing-input-found')
  first=$(grep -m1 '^# C03 violated' /tmp/c03-mut-$name.log | cut -c1-150)
  echo "$name rc=$rc concrete=$conc :: $first"
  git -C /repo worktree remove --force $wt >/dev/null 2>&1
}
# MethodDescriptor.__get__ dissolving a helper onto the class it was looked up through
# (subclass re-annotating an inherited collection got the parent's element helper)
runrev prefix_5accf98 5accf98
