#!/bin/bash
# self-test 2: "stored None / falsy value treated as absent" slips (the seeded change /verif/seeded/C12-2 and hand-made analogues)
run() {  # name, old, new
  name=$1; shift
  rm -rf /tmp/wt-c12; git -C /repo worktree prune; git -C /repo worktree add -q --detach /tmp/wt-c12 HEAD >/dev/null 2>&1; cp /repo/spec_classes/_version.py /tmp/wt-c12/spec_classes/
  if [ "$1" = "--patch" ]; then git -C /tmp/wt-c12 apply "$2" || { echo "$name: PATCH FAILED"; return; }
  else ( cd /tmp/wt-c12 && python3 - "$@" <<'PY'
import sys
old, new = sys.argv[1], sys.argv[2]
p='spec_classes/types/spec_property.py'
s=open(p).read()
assert s.count(old) >= 1, "pattern missing"
open(p,'w').write(s.replace(old,new,1))
PY
  ) || { echo "$name: EDIT FAILED"; return; }; fi
  out=$(cd /verif && VERIF_REPO=/tmp/wt-c12 bin/check C12 quick 2>&1 | grep -E "VIOLATION|^\[C12\]|^#" | head -5)
  echo "== $name"; echo "$out" | cut -c1-360
  git -C /repo worktree remove --force /tmp/wt-c12
}
run SEEDED_C12_2 --patch /verif/seeded/C12-2/patch.diff
run S1_get_is_not_None "        if (self.overridable or self.cache) and self.attr_name in instance.__dict__:
            return instance.__dict__[self.attr_name]" "        if (self.overridable or self.cache) and instance.__dict__.get(self.attr_name) is not None:
            return instance.__dict__[self.attr_name]"
run S2_get_truthiness "        if (self.overridable or self.cache) and self.attr_name in instance.__dict__:
            return instance.__dict__[self.attr_name]" "        if (self.overridable or self.cache) and instance.__dict__.get(self.attr_name):
            return instance.__dict__[self.attr_name]"
run S3_delete_is_not_None "            if (self.overridable or self.cache) and self.attr_name in instance.__dict__:
                del" "            if (self.overridable or self.cache) and instance.__dict__.get(self.attr_name) is not None:
                del"
run S4_cache_only_truthy "            self.cache
            and value is not MISSING" "            self.cache and value
            and value is not MISSING"
run K1_classprop_get_truthiness "        if cache_key in self._cache:
            return self._cache[cache_key]" "        if self._cache.get(cache_key):
            return self._cache[cache_key]"
run K2_classprop_delete_is_not_None "            if cache_key in self._cache:
                del" "            if self._cache.get(cache_key) is not None:
                del"
run K3_classprop_cache_only_not_None "if self.cache and objtype:" "if self.cache and objtype and value is not None:"
