#!/bin/bash
# self-test 3 (round F): what another property of the instance holds must survive a REJECTED
# operation, and an entry under the property's own name is not a stored value when the property is
# neither overridable nor cached.  Runs only the two round-F blocks (kinds spo, dp) of harness/c12.py.
run() {  # name, file, old, new   |   name --patch file
  name=$1; shift
  rm -rf /tmp/wt-c12m; git -C /repo worktree prune; git -C /repo worktree add -q --detach /tmp/wt-c12m HEAD >/dev/null 2>&1; cp /repo/spec_classes/_version.py /tmp/wt-c12m/spec_classes/
  if [ "$1" = "--patch" ]; then git -C /tmp/wt-c12m apply "$2" || { echo "$name: PATCH FAILED"; return; }
  else ( cd /tmp/wt-c12m && python3 - "$@" <<'PY'
import sys
p, old, new = sys.argv[1], sys.argv[2], sys.argv[3]
s=open(p).read()
assert s.count(old) >= 1, "pattern missing"
open(p,'w').write(s.replace(old,new,1))
PY
  ) || { echo "$name: EDIT FAILED"; return; }; fi
  echo "== $name"
  ( cd /verif && PYTHONHASHSEED=0 PYTHONDONTWRITEBYTECODE=1 PYTHONPATH=/tmp/wt-c12m:/verif/harness timeout 900 /venv/bin/python - <<'PY' 2>&1 | grep -v conda | cut -c1-300
import collections, random, sys
import c12
rng = random.Random(1)
for kind, gen in (("spo", c12.gen_spo), ("dp", c12.gen_dp)):
    cases = [c for c, _ in gen(rng, "quick")]
    bad, logs = c12.evaluate(kind, cases, "m")
    print(" ", kind, len(cases), "cases; codes:", dict(collections.Counter(code for _, code, _ in bad)), [l[-200:] for l in logs][:1])
    for i, code, seen in sorted(bad, key=lambda b: (-b[1], len(cases[b[0]][-1])))[:1]:
        print("    e.g.", code, cases[i], seen)
PY
  )
  git -C /repo worktree remove --force /tmp/wt-c12m
}
run CLEAN spec_classes/utils/mutation.py "def mutate_attr(" "def mutate_attr("
run SEEDED_C12_F1 --patch /verif/seeded/C12-F1/patch.diff
run SEEDED_C12_F2 --patch /verif/seeded/C12-F2/patch.diff
run F3_delete_without_flag_guard spec_classes/types/spec_property.py "            if (self.overridable or self.cache) and self.attr_name in instance.__dict__:
                del" "            if self.attr_name in instance.__dict__:
                del"
run F4_delattr_invalidates_first spec_classes/methods/core.py "                self.__delattr__.__raw__(self, attr)
                if not skip_invalidation:
                    invalidate_attrs(self, attr)" "                if not skip_invalidation:
                    invalidate_attrs(self, attr)
                self.__delattr__.__raw__(self, attr)"
run F5_invalidate_even_when_write_raised spec_classes/utils/mutation.py "                ) from e
            raise
" "                ) from e
            if not skip_invalidation and metadata:
                invalidate_attrs(obj, attr)
            raise
"
run F6_get_guard_only_overridable_or_cache_or_setter spec_classes/types/spec_property.py "        if (self.overridable or self.cache) and self.attr_name in instance.__dict__:
            return instance.__dict__[self.attr_name]" "        if (self.overridable or self.cache or self.fset) and self.attr_name in instance.__dict__:
            return instance.__dict__[self.attr_name]"
