#!/bin/bash
# self-test: runs hand-made mutants of the anchored code (scratch worktree /tmp/wt-c11m) through
# `bin/check C11 quick`; each must print VIOLATION lines (code 2 where the property is really broken)
run() {  # name, file, old, new
  name=$1; file=$2; shift; shift
  if [ -n "$ONLY" ] && [[ "$name" != $ONLY* ]]; then return; fi
  rm -rf /tmp/wt-c11m; git -C /repo worktree prune; git -C /repo worktree add -q --detach /tmp/wt-c11m HEAD >/dev/null 2>&1
  cp /repo/spec_classes/_version.py /tmp/wt-c11m/spec_classes/
  ( cd /tmp/wt-c11m && python3 - "$file" "$@" <<'PY'
import sys
p, old, new = sys.argv[1], sys.argv[2], sys.argv[3]
s=open(p).read()
assert s.count(old) >= 1, "pattern missing"
s=s.replace(old,new,1)
open(p,'w').write(s)
PY
  ) || { echo "$name: EDIT FAILED"; return; }
  out=$(cd /verif && VERIF_REPO=/tmp/wt-c11m bin/check C11 quick 2>&1 | grep -E "VIOLATION|^\[C11\]|^#" | head -5)
  echo "== $name"; echo "$out" | cut -c1-420
  git -C /repo worktree remove --force /tmp/wt-c11m
}
MU=spec_classes/utils/mutation.py
ONLY=${1:-}
run M1_with_attr_skips_invalidation spec_classes/methods/scalar.py "            inplace=_inplace,
        )

    def build_method(self) -> Callable:
        attr_spec_type = self.attr_spec.spec_type
        or_its_attributes = \" or its attributes\" if attr_spec_type else \"\"
        return (
            MethodBuilder(self.name, functools.partial(self.with_attr, self.attr_spec))" "            inplace=_inplace,
            skip_invalidation=True,
        )

    def build_method(self) -> Callable:
        attr_spec_type = self.attr_spec.spec_type
        or_its_attributes = \" or its attributes\" if attr_spec_type else \"\"
        return (
            MethodBuilder(self.name, functools.partial(self.with_attr, self.attr_spec))"
run M2_wildcard_dropped $MU 'wildcard = invalidation_map.get("*", set())' 'wildcard = set()'
run M3_invalidate_on_failed_mutation $MU "        if attr_spec and type_check and not check_type(value, attr_spec.type):
            raise TypeError(" "        if attr_spec and type_check and not check_type(value, attr_spec.type):
            invalidate_attrs(obj, attr)
            raise TypeError("
run M4_never_recurse $MU "                pending.append(invalidatee)" "                pass"
run M5_old_cascade $MU "            obj.__delattr__(invalidatee, skip_invalidation=True)" "            if invalidatee in invalidation_map.get(attr, set()) | wildcard: delattr(obj, invalidatee)"
run M6_map_of_owner_only $MU "invalidation_map = obj.__spec_class__.invalidation_map_for(type(obj))" "invalidation_map = obj.__spec_class__.invalidation_map"
run M7_delattr_skips_invalidation spec_classes/methods/core.py "                self.__delattr__.__raw__(self, attr)
                if not skip_invalidation:" "                self.__delattr__.__raw__(self, attr)
                if False:"
run M8_default_reset_skips_invalidation spec_classes/methods/core.py "                value=default,
                inplace=True,
                force=True,
                skip_invalidation=skip_invalidation," "                value=default,
                inplace=True,
                force=True,
                skip_invalidation=True,"
run M9_copy_on_write_writes_original $MU "        obj = copy.deepcopy(obj)
        copied = True" "        copied = True"
run M10_over_invalidation $MU "            if invalidatee not in seen:" "            pass
        for invalidatee in set(vars(obj)) - seen:
            if True:"
run M11_element_helper_skips_invalidation spec_classes/methods/collections/sequences.py "            inplace=_inplace,
            type_check=False,
        )" "            inplace=_inplace,
            type_check=False,
            skip_invalidation=True,
        )"
run M12_setattr_skips_invalidation spec_classes/methods/core.py "                force=force,
                skip_invalidation=skip_invalidation,
            )

        # Add reference to original __setattr__." "                force=force,
                skip_invalidation=True,
            )

        # Add reference to original __setattr__."
run M13_cache_deleted_only_if_overridable spec_classes/types/spec_property.py "            if (self.overridable or self.cache) and self.attr_name in instance.__dict__:
                del instance.__dict__[self.attr_name]" "            if self.overridable and self.attr_name in instance.__dict__:
                del instance.__dict__[self.attr_name]"
run M14_frozen_copy_not_thawed $MU "    with _thawed(obj, thaw=copied):
        # Perform actual mutation" "    with _thawed(obj, thaw=False):
        # Perform actual mutation"
run M15_root_reset_by_cycle $MU "    seen = {attr}
    pending = [attr]" "    seen = set()
    pending = [attr]"
