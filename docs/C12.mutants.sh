#!/bin/bash
# self-test: runs ten hand-made mutants of spec_classes/types/spec_property.py (scratch worktree /tmp/wt-c12) through `bin/check C12 quick`; each must print VIOLATION lines (code 2)
F=spec_classes/types/spec_property.py
run() {  # name, python-edit-snippet
  name=$1; shift
  rm -rf /tmp/wt-c12; git -C /repo worktree add -q --detach /tmp/wt-c12 HEAD >/dev/null 2>&1; cp /repo/spec_classes/_version.py /tmp/wt-c12/spec_classes/
  ( cd /tmp/wt-c12 && python3 - "$@" <<'PY'
import sys
old, new = sys.argv[1], sys.argv[2]
cnt = int(sys.argv[3]) if len(sys.argv) > 3 else 1
p='spec_classes/types/spec_property.py'
s=open(p).read()
assert s.count(old) >= 1, "pattern missing"
s=s.replace(old,new,cnt)
open(p,'w').write(s)
PY
  ) || { echo "$name: EDIT FAILED"; return; }
  out=$(cd /verif && VERIF_REPO=/tmp/wt-c12 bin/check C12 quick 2>&1 | grep -E "VIOLATION|^\[C12\]|^#" | head -6)
  echo "== $name"; echo "$out" | cut -c1-330
  git -C /repo worktree remove --force /tmp/wt-c12
}
run M1_cache_always_stored "            self.cache
            and value is not MISSING" "            True
            and value is not MISSING"
run M2_delete_does_not_clear "                del instance.__dict__[self.attr_name]
                return" "                return"
run M3_overridable_inverted_in_set "        if self.fset is None:
            if self.overridable:
                instance.__dict__[self.attr_name] = value" "        if self.fset is None:
            if not self.overridable:
                instance.__dict__[self.attr_name] = value"
run M4_classprop_key_ignores_subclass "return objtype if self.cache_per_subclass else None" "return None"
run M5_classprop_cache_always "if self.cache and objtype:" "if objtype:"
run M6_no_type_check "if not check_type(value, attr_spec.type):" "if False:"
run M7_no_preparer "value = prepare_attr_value(attr_spec, instance, value)" "pass"
run M8_allow_ae_ignored "            if self.allow_attribute_error:
                raise
            raise NestedAttributeError(e) from e

        # If attribute" "            raise

        # If attribute"
run M9_sentinel_cached "            and value is not MISSING
" ""
run M10_classprop_delete_wrong_key "                del self._cache[cache_key]
                return" "                self._cache.clear()
                return"
