CHECK = dict(
    technique="Coq proof (separation judgement over the heap model of the instance machinery: cells below the call's "
              "watermark are never written and every cell allocated by the call holds only scalars, fresh references "
              "or references to objects the call may share; one lemma per model function, mutual induction on fuel, "
              "reachability lemma) + differential correspondence model vs implementation on canonical object graphs "
              "with a structural-sharing oracle evaluated by vm_compute",
    text="C02_result_separated / C02_deepcopy_separated / C02_result_and_receiver_meet_only_in_exempt_objects are proved in "
         "Coq for every class table (no do_not_copy=True classes, no plain subclasses, callbacks embedding no heap "
         "references), every heap, receiver, copy-on-write helper, argument vector and callback failure point: every "
         "object reachable from the result is allocated by the call, or reachable from an argument of the call, from the "
         "value of a do_not_copy attribute, or from a class-level default object (getattr fallback; never part of the "
         "receiver by C08). do_not_copy attributes are carried by identity (SepDnc.deepcopy_carries_dnc). The model is "
         "tied to /repo on every run; the oracle (result and receiver share only exempt objects) is evaluated in Coq on the "
         "implementation's own object graphs after every copy-on-write call of generic and targeted histories (fresh "
         "arguments, no-op forms, identity item preparers on collections of spec instances, follow-up in-place mutation of "
         "result and receiver).",
    note="Trusted: Coq kernel + vm_compute; hand-written model (validated by correspondence); harness canonicaliser; "
         "callback purity. Structural sharing is decided, which is stronger than visibility of later mutations. "
         "Fixed: /repo 44d0301 (found by this oracle). KeyedList/KeyedSet attributes, do_not_copy=True classes and "
         "plain subclasses are outside the theorems.",
    design="4 C02",
)
