#!/bin/bash
# Self-test of bin/check C16 against known-bad libraries, each in a scratch worktree of /repo
# (never in /repo itself).  usage: docs/C16.mutants.sh   -> prints one line per mutant
set -u
V=/verif
run() {  # name, command that mutates the worktree in $wt
  name=$1; shift
  wt=/tmp/wt-c16-mut
  git -C /repo worktree remove --force $wt >/dev/null 2>&1
  git -C /repo worktree add -q $wt HEAD >/dev/null 2>&1
  cp /repo/spec_classes/_version.py $wt/spec_classes/
  ( cd $wt && "$@" ) || { echo "$name: mutation does not apply"; return; }
  ( cd $V && VERIF_REPO=$wt bin/check C16 quick > /tmp/c16-mut-$name.log 2>&1 ); rc=$?
  echo "$name: exit=$rc concrete=$(grep '^VIOLATION' /tmp/c16-mut-$name.log | grep -vc no-failing-input-found)"
  git -C /repo worktree remove --force $wt >/dev/null 2>&1
}
# the library before 5accf98: a generated method dissolved onto the class it was looked up through
run prefix_5accf98 git apply -R $V/docs/C16.mutants/prefix_5accf98.forward.diff
# the library before 4749459: collision loop compared a singular form with attribute names only
run prefix_4749459 bash -c "git show 4749459 -- spec_classes/spec_class.py | git apply -R"
# the library before 22fd1a4: falsy __new__ replaced by the lazy hook
run prefix_22fd1a4 bash -c "git show 22fd1a4 -- spec_classes/spec_class.py | git apply -R"
# the library before 29fc5a5: the collision fallback renamed the Attr shared with the parent
run prefix_29fc5a5 git apply -R $V/docs/C16.mutants/prefix_29fc5a5.forward.diff
