(* C17 — every generated method accepts exactly what its advertised
   signature says.  Statements only; every proof is one `exact`.
   Model: Deco/Signature.v (MethodBuilder: with_arg, with_args,
   with_spec_attrs_for, _signature, _signature_virtual, the exec-compiled
   wrapper with validate_attrs; the parameter tables of the constructor, the
   three top-level, four scalar and 3 x 4 element helpers) and Deco/Bind.v
   (CPython call binding for positional-or-keyword, keyword-only and **
   parameters).  Meaning: Deco/SigSpec.v.  `m` ranges over all method kinds,
   `nested` over every nested spec class (any attributes, init flags,
   overflow attribute) or none, `c` over every call without a repeated
   keyword. *)
From Coq Require Import String List Bool ZArith.
From SC Require Import Base.Res Deco.Naming Deco.Bind Deco.Signature Deco.SigSpec Deco.SigProofs.
Import ListNotations.
Open Scope string_scope.
Open Scope list_scope.
Open Scope Z_scope.

(* The wrapper accepts a call iff the call binds to the advertised signature. *)
Theorem C17_accept_iff_advertised : forall m nested b c,
  build_method m nested = Ok b -> call_ok c ->
  (accepts b c <-> binds (sig_advertised b) c).
Proof. intros m nested b c H. exact (wf_accept_iff_advertised b c (build_method_wf m nested b H)). Qed.

(* The implementation is called with exactly: every compiled parameter with the
   value supplied (by position or keyword) or else the default shown, and every
   other keyword of the call as given. *)
Theorem C17_values_reach_impl : forall m nested b c recv,
  build_method m nested = Ok b -> call_ok c ->
  wrapper b c = Ok recv -> receives_exactly b c recv.
Proof. intros m nested b c recv H. exact (wf_values_reach_impl b c recv (build_method_wf m nested b H)). Qed.

(* A keyword outside the advertised signature (no ** catch-all advertised):
   TypeError, the implementation is not invoked, the state is unchanged. *)
Theorem C17_reject_before_effect : forall (S : Type) m nested b
    (impl : list (name * Z) -> S -> S * res Z) c k s,
  build_method m nested = Ok b -> call_ok c -> In k (map fst (c_kw c)) ->
  named (sig_advertised b) k = false -> has_varkw (sig_advertised b) = false ->
  wrapper b c = Err TypeErr /\ invoke b impl c s = (s, Err TypeErr).
Proof. intros S m nested b impl c k s H. exact (wf_reject_before_effect b impl c k s (build_method_wf m nested b H)). Qed.

(* The nested-attribute keywords are exactly the init-enabled attributes of the
   nested class that are not already parameter names and not the overflow
   attribute (one keyword per attribute, no repetition); a ** catch-all is
   advertised iff the nested class has an overflow attribute. *)
Theorem C17_nested_keywords_bijective : forall m n b,
  build_method m (Some n) = Ok b -> takes_nested m = true ->
  (forall a, In a (virtual_keywords b) <->
     exists x, In x (n_attrs n) /\ n_name x = a /\ n_init x = true /\
               ~ In a (map p_name (explicit b)) /\ n_overflow n <> Some a) /\
  virtual_catch_all b = active_overflow n /\
  (NoDup (map n_name (n_attrs n)) -> NoDup (virtual_keywords b)).
Proof. exact nested_keywords_bijective. Qed.

(* The same three facts for every other use of the builder (any sequence of
   with_arg / with_spec_attrs_for without an explicit ** parameter). *)
Theorem C17_any_builder_program : forall prog b c,
  forallb op_ok prog = true -> build_prog prog = Ok b -> call_ok c ->
  (accepts b c <-> binds (sig_advertised b) c) /\
  (forall recv, wrapper b c = Ok recv -> receives_exactly b c recv).
Proof.
  intros prog b c Hp Hb Hc. split.
  - exact (wf_accept_iff_advertised b c (build_prog_wf prog b Hp Hb) Hc).
  - intros recv. exact (wf_values_reach_impl b c recv (build_prog_wf prog b Hp Hb) Hc).
Qed.

(* ---- non-vacuity: with_<attr> for an attribute whose type is a spec class
   with attributes p, q (init) and r (init=False) *)
Definition ex_nested : ncls :=
  mkncls [mknattr "p" true 11; mknattr "q" true 12; mknattr "r" false 13] None.

Example C17_with_attr_accepts_and_rejects :
  exists b, build_method MWith (Some ex_nested) = Ok b /\
    map p_name (sig_advertised b) = ["self"; "_new_value"; "_inplace"; "_if"; "p"; "q"] /\
    map p_name (sig_real b) = ["self"; "_new_value"; "_inplace"; "_if"; "kwargs"] /\
    wrapper b (mkcall [100; 7] [("q", 5)]) =
      Ok [("self", 100); ("_new_value", 7); ("_inplace", dFalse); ("_if", dTrue); ("q", 5)] /\
    wrapper b (mkcall [100] [("r", 5)]) = Err TypeErr /\
    wrapper b (mkcall [100; 7; 8] []) = Err TypeErr /\
    wrapper b (mkcall [100; 7] [("_new_value", 8)]) = Err TypeErr.
Proof. eexists. split; [vm_compute; reflexivity|]. vm_compute. repeat split; reflexivity. Qed.

(* with an overflow attribute the advertised signature ends in **extra and
   every keyword is accepted *)
Example C17_overflow_accepts_everything :
  exists b, build_method MWith (Some (mkncls [mknattr "a" true 11; mknattr "extra" true 0] (Some "extra"))) = Ok b /\
    map p_name (sig_advertised b) = ["self"; "_new_value"; "_inplace"; "_if"; "a"; "extra"] /\
    m_check b = false /\
    wrapper b (mkcall [100] [("zzz", 5); ("extra", 6)]) =
      Ok [("self", 100); ("_new_value", dMISSING); ("_inplace", dFalse); ("_if", dTrue); ("zzz", 5); ("extra", 6)].
Proof. eexists. split; [vm_compute; reflexivity|]. vm_compute. repeat split; reflexivity. Qed.

(* edge recorded for the record: a key attribute named `kwargs` collides with the
   catch-all the builder adds; inspect.Signature refuses the duplicate and the
   class cannot be decorated (ValueError), so no method exists to speak about *)
Example C17_key_named_kwargs_cannot_be_built :
  build_method (MInit (Some ("kwargs", false)))
               (Some (mkncls [mknattr "kwargs" true 0; mknattr "a" true 0] None)) = Err ValueErr.
Proof. vm_compute. reflexivity. Qed.

Print Assumptions C17_accept_iff_advertised.
Print Assumptions C17_values_reach_impl.
Print Assumptions C17_reject_before_effect.
Print Assumptions C17_nested_keywords_bijective.
Print Assumptions C17_any_builder_program.
Print Assumptions C17_with_attr_accepts_and_rejects.
Print Assumptions C17_overflow_accepts_everything.
Print Assumptions C17_key_named_kwargs_cannot_be_built.
