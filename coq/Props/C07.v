(* C07 — frozen instances are immutable yet evolvable by copy.
   Model: coq/Inst/Model.v.  Proved here:
   (1) every in-place operation on a frozen instance (assignment, deletion,
       every helper called with _inplace=True) writes NO pre-existing heap
       cell — the frozen instance, its nested values, the arguments, every
       other live object — for every class table, heap, argument vector and
       outcome; deletion always raises FrozenInstanceError; an assignment
       or in-place scalar helper whose prepared value reaches mutate_attr raises
       FrozenInstanceError;
   (2) every copy-on-write call on a frozen instance writes no pre-existing
       cell either (instance of the C01 frame theorem: frozen classes are
       copied like any other since `fix: copy-on-write helpers on frozen
       instances ...`).
   Partial: that a copy-on-write helper on a frozen class computes the same
   result as on the non-frozen twin is proved for with_<a>(scalar) on flat
   instances (C07_cow_with_scalar_partial, C07_twin_with_scalar_partial below);
   the general statement (C07_twin, in the comment below) is validated by the
   twin correspondence only. *)
From Coq Require Import List ZArith Bool Arith.
From SC Require Import Base.Res Inst.Heap Inst.ClassTable Inst.Model Inst.Framed Inst.FrameProofs
  Inst.FrozenProofs Inst.Abs Inst.SpecHelpers Inst.RefineProofs Inst.CopyProofs Inst.CopyStore
  Inst.SepProofs Props.C01 Props.C02 Props.C08.
Import ListNotations.
Open Scope nat_scope.

(* an in-place operation addressed to root x *)
Definition inplace_op (o : op) : Prop :=
  match o with
  | OpSetAttr _ _ _ | OpDelAttr _ _ => True
  | OpHelper _ hp h => h_inplace h = true /\ frozen_form hp h
  | _ => False
  end.
Definition target (o : op) : nat :=
  match o with OpSetAttr x _ _ | OpDelAttr x _ | OpHelper x _ _ | OpDeepCopy x => x | _ => 0 end.

Theorem C07_inplace_operation_on_frozen_instance_writes_nothing :
  forall ct, no_dnc_classes ct ->
  forall roots o s l,
    inplace_op o -> nth (target o) roots VNone = VRef l ->
    l < length (heap s) -> frozen_at ct l s ->
    frame (length (heap s)) s (snd (step ct roots o s)).
Proof.
  intros ct Hct roots o s l Hop Hx Hl Hf.
  assert (G : forall (m : M val) Q, sframed (length (heap s)) (frozen_at ct l) m Q ->
                                    frame (length (heap s)) s (snd (m s)))
    by (intros m Q H; apply (H s (le_n _) Hf)).
  destruct o; simpl in Hop; try contradiction; simpl in Hx; unfold step; rewrite Hx; simpl loc_of.
  - eapply (G _ (fun _ => True)). eapply sframed_bind with (Q := fun l0 => l0 = l);
      [apply frozen_stable; exact Hl|apply sframed_of_framed; apply framed_ret; reflexivity|].
    intros l0 ->. eapply sframed_bind with (Q := fun _ => True);
      [apply frozen_stable; exact Hl|apply setattr_op_frozen; auto|].
    intros; apply sframed_of_framed; now apply framed_ret.
  - eapply (G _ (fun _ => True)). eapply sframed_bind with (Q := fun l0 => l0 = l);
      [apply frozen_stable; exact Hl|apply sframed_of_framed; apply framed_ret; reflexivity|].
    intros l0 ->. eapply sframed_bind with (Q := fun _ => True);
      [apply frozen_stable; exact Hl|eapply sframed_weaken; [apply delattr_op_frozen; auto|auto]|].
    intros; apply sframed_of_framed; now apply framed_ret.
  - destruct Hop as [Hin Hform]. eapply (G _ (fun _ => True)).
    eapply sframed_bind with (Q := fun l0 => l0 = l);
      [apply frozen_stable; exact Hl|apply sframed_of_framed; apply framed_ret; reflexivity|].
    intros l0 ->. apply run_helper_inplace_frozen; auto.
Qed.

Theorem C07_delete_on_frozen_instance_raises_FrozenInstanceError :
  forall ct roots x a s l,
    nth x roots VNone = VRef l -> frozen_at ct l s ->
    step ct roots (OpDelAttr x a) s = (Err FrozenErr, s).
Proof.
  intros ct roots x a s l Hx Hf. unfold step. rewrite Hx. simpl loc_of.
  rewrite bind_ok with (a := l) (s1 := s) by reflexivity.
  rewrite bind_err with (e := FrozenErr) (s1 := s); [reflexivity|].
  unfold XFUEL. simpl. apply delattr_frozen_eq; auto.
Qed.

Theorem C07_write_reaching_the_frozen_guard_raises :
  forall ct rec l a v tc skip s,
    frozen_at ct l s -> is_sentinel v = false ->
    mutate_attr ct rec l a v true tc false skip s = (Err FrozenErr, s).
Proof. intros. apply mutate_attr_frozen_eq; auto. Qed.

Theorem C07_cow_call_on_frozen_instance_writes_nothing :
  forall ct, no_dnc_classes ct ->
  forall roots x hp h s,
    h_inplace h = false ->
    frame (length (heap s)) s (snd (step ct roots (OpHelper x hp h) s)).
Proof. exact C01_cow_call_writes_no_existing_cell. Qed.

(* "nested updates through a parent instance": whatever is done in place to
   another receiver l, with whatever arguments and outcome, a frozen instance
   lf <> l is not written (nor is any other pre-existing cell but l; for the
   element helpers: but l and the collection object the attribute holds, which
   is a list/dict/set, not an instance).  Instances of the confinement theorems
   of the C02/C08 separation development. *)
Theorem C07_inplace_operation_on_another_receiver_leaves_frozen_instance_untouched :
  forall ct, no_dnc_classes ct -> own_metadata ct ->
  forall roots o s l lf,
    inplace_attr_op o -> nth (op_target o) roots VNone = VRef l ->
    frozen_at ct lf s -> lf < length (heap s) -> lf <> l ->
    nth_error (heap (snd (step ct roots o s))) lf = nth_error (heap s) lf.
Proof.
  intros ct H1 H2 roots o s l lf Ho Hx _ Hlt Hne.
  exact (C08_inplace_confined_to_receiver ct H1 H2 roots o s l Ho Hx lf Hlt Hne).
Qed.

Theorem C07_element_helper_on_another_receiver_leaves_frozen_instance_untouched :
  forall ct, no_dnc_classes ct -> own_metadata ct ->
  forall roots x hp h a s l lf,
    item_helper_attr hp = Some a -> nth x roots VNone = VRef l ->
    frozen_at ct lf s -> lf < length (heap s) -> lf <> l ->
    (forall lc, fst (getattr_default ct l a s) = Ok (VRef lc) -> lf <> lc) ->
    nth_error (heap (snd (step ct roots (OpHelper x hp h) s))) lf = nth_error (heap s) lf.
Proof.
  intros ct H1 H2 roots x hp h a s l lf Hhp Hx _ Hlt Hne Hc.
  exact (C08_inplace_element_confined ct H1 H2 roots x hp h a s l Hhp Hx lf Hlt Hne Hc).
Qed.

(* "Copy-on-write helpers return a distinct instance carrying the change and
   otherwise behave exactly as on the same class declared without frozen=True".

   Full statement (C07_twin): for every table ct and its twin ct' (frozen flags
   cleared), every heap and every copy-on-write call, the results of run_helper
   under ct and ct' have the same abstraction, and the result is frozen again
   (not initializing).  NOT proved in general; the harness compares twin runs
   of the implementation (C07 oracle, `twins`).

   Proved (partial; Inst/CopyProofs.v, Inst/CopyStore.v by the C05 development):
   with_<a>(v) of a proper scalar v on a FLAT receiver (every attribute value a
   scalar or a list/dict/set of scalars) of ANY class, frozen or not (there is
   no hypothesis on c_frozen), class without invalidated_by, non-collection
   attribute, no or pool preparer, no injected callback failure: a successful
   call returns a fresh instance, leaves every old cell unchanged, the result's
   abstraction is what the specification of with_<a> says, and the result is
   not initializing (the `_thawed` window set and removed the flag on the
   copy); and two tables that declare the attribute identically (a table and
   its twin) yield abstractly equal results. *)
Theorem C07_cow_with_scalar_partial :
  forall ct h0 l a c d k sp s,
    nth_error (heap s) l = Some (OInst c d) ->
    lookup_cls ct c = Some k ->
    lookup_attr k a = Some sp ->
    NoDup (map fst d) ->
    flat_fields (heap s) d ->
    c_dnc k = false ->
    no_inval k ->
    fail_at s = None ->
    ty_depth (a_ty sp) < FUEL ->
    ty_is_collection (a_ty sp) = false ->
    assoc A_INITIALIZING d = None ->
    a <> A_INITIALIZING ->
    forall v r s',
      vscalar v = true ->
      match a_prepare sp with Some f => scalar_fn f = true | None => True end ->
      run_helper ct l (HWith a) (mkh [v] false true VMissing false None None [] None) s = (Ok r, s') ->
      exists l' dfin,
        r = VRef l' /\ length (heap s) <= l' /\
        (forall i, i < length (heap s) -> nth_error (heap s') i = nth_error (heap s) i) /\
        spec_helper ct h0 (absv (heap s) (VRef l)) (SWith a)
          (mkah [abs0 v] false true AMissing false None None [] None)
          = SOk (absv (heap s') (VRef l')) /\
        nth_error (heap s') l' = Some (OInst c dfin) /\
        assoc A_INITIALIZING dfin = None.
Proof. exact with_scalar_copy_refines. Qed.

Theorem C07_twin_with_scalar_partial :
  forall ct1 ct2 l a c d k1 k2 sp s v r1 s1' r2 s2',
    nth_error (heap s) l = Some (OInst c d) ->
    lookup_cls ct1 c = Some k1 -> lookup_cls ct2 c = Some k2 ->
    lookup_attr k1 a = Some sp -> lookup_attr k2 a = Some sp ->
    NoDup (map fst d) -> flat_fields (heap s) d ->
    c_dnc k1 = false -> c_dnc k2 = false ->
    no_inval k1 -> no_inval k2 ->
    fail_at s = None ->
    ty_depth (a_ty sp) < FUEL ->
    ty_is_collection (a_ty sp) = false ->
    assoc A_INITIALIZING d = None ->
    a <> A_INITIALIZING ->
    vscalar v = true ->
    match a_prepare sp with Some f => scalar_fn f = true | None => True end ->
    run_helper ct1 l (HWith a) (mkh [v] false true VMissing false None None [] None) s = (Ok r1, s1') ->
    run_helper ct2 l (HWith a) (mkh [v] false true VMissing false None None [] None) s = (Ok r2, s2') ->
    absv (heap s1') r1 = absv (heap s2') r2.
Proof. exact with_scalar_copy_twin. Qed.

(* and the frozen run cannot fail where the twin succeeds: only the run on the
   second table is assumed to return (with_<a>(scalar) / flat receiver, as above) *)
Theorem C07_twin_with_scalar_total_partial :
  forall ct1 ct2 l a c d k1 k2 sp s v r2 s2',
    nth_error (heap s) l = Some (OInst c d) ->
    lookup_cls ct1 c = Some k1 -> lookup_cls ct2 c = Some k2 ->
    lookup_attr k1 a = Some sp -> lookup_attr k2 a = Some sp ->
    NoDup (map fst d) -> flat_fields (heap s) d ->
    c_dnc k1 = false -> c_dnc k2 = false ->
    no_inval k1 -> no_inval k2 ->
    c_post_copy k1 = None ->
    fail_at s = None ->
    ty_depth (a_ty sp) < FUEL ->
    ty_is_collection (a_ty sp) = false ->
    assoc A_INITIALIZING d = None ->
    a <> A_INITIALIZING ->
    vscalar v = true ->
    match a_prepare sp with Some f => scalar_fn f = true | None => True end ->
    run_helper ct2 l (HWith a) (mkh [v] false true VMissing false None None [] None) s = (Ok r2, s2') ->
    exists r1 s1',
      run_helper ct1 l (HWith a) (mkh [v] false true VMissing false None None [] None) s = (Ok r1, s1') /\
      absv (heap s1') r1 = absv (heap s2') r2.
Proof. exact with_scalar_copy_twin_total. Qed.

(* non-vacuity: a frozen instance, an in-place assignment, FrozenInstanceError *)
Definition fz_ct : ctable :=
  [mkcls 1 [mkattr 1 TInt (VInt 0) None 1 true false None None []] true false None [1] 1 [] None None].
Definition fz_state : state := mkst [OInst 1 [(1, VInt 5)]] 0 None.

Example C07_nonvacuous :
  frozen_at fz_ct 0 fz_state /\
  step fz_ct [VRef 0] (OpSetAttr 0 1 (VInt 7)) fz_state = (Err FrozenErr, fz_state) /\
  (let '(r, s') := step fz_ct [VRef 0] (OpHelper 0 (HWith 1) (mkh [VInt 7] false true VMissing false None None [] None)) fz_state in
   r = Ok (VRef 1) /\ heap s' = [OInst 1 [(1, VInt 5)]; OInst 1 [(1, VInt 7)]]).
Proof.
  split; [|split].
  - exists 1, [(1, VInt 5)]. eexists. repeat split; reflexivity.
  - vm_compute. reflexivity.
  - vm_compute. split; reflexivity.
Qed.

Print Assumptions C07_inplace_operation_on_frozen_instance_writes_nothing.
Print Assumptions C07_delete_on_frozen_instance_raises_FrozenInstanceError.
Print Assumptions C07_write_reaching_the_frozen_guard_raises.
Print Assumptions C07_cow_call_on_frozen_instance_writes_nothing.
Print Assumptions C07_inplace_operation_on_another_receiver_leaves_frozen_instance_untouched.
Print Assumptions C07_element_helper_on_another_receiver_leaves_frozen_instance_untouched.
Print Assumptions C07_cow_with_scalar_partial.
Print Assumptions C07_twin_with_scalar_partial.
Print Assumptions C07_twin_with_scalar_total_partial.
Print Assumptions C07_nonvacuous.
