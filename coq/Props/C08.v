(* C08 — instances share no mutable state with class-level defaults,
   constructor arguments or peers; reset/del install a fresh default.
   Model: coq/Inst/Model.v; proofs: coq/Inst/SepProofs.v.

   Proved here (for every class table meeting the guards, every heap, all
   arguments, every outcome, every failure point of user callbacks):
   * C08_construct_fresh: everything reachable from a newly constructed
     instance is fresh (allocated by the call), or reachable from a value the
     caller gave for a do_not_copy attribute (or as the positional key), or
     from the value of a do_not_copy attribute of an existing instance (deep
     copies carry those by identity).  In particular it is neither a
     class-level default object, nor an object passed for a copied attribute,
     nor part of any other instance.
   * C08_default_is_fresh: Attr.lookup_default_value / default_value — the
     value InitMethod assigns when no keyword is given AND (since /repo
     8d388fa) the value __delattr__ / reset_<a> / reset install — is fresh in
     the same sense.
   * C08_reset_keeps_defaults_isolated, C08_defaults_isolated: take the
     watermark nd = number of class-level default objects.  If no cell >= nd
     refers to a cell < nd (true initially), then after ANY history of
     operations from the alphabet `hist_op_ok` (construction, assignment,
     deletion, deepcopy, every copy-on-write helper, and in place:
     with_<attr>, reset_<attr>, reset, update, transform) the class-level
     default objects are literally unchanged and still not referenced by any
     instance, argument or result.
   Guards: no do_not_copy=True classes; no plain subclasses (`own_metadata`);
   callbacks/factories embed no heap references (`scalar_table`).

   Partial (kept visible):
   * C08_reset_fresh (full): "after reset_<a>/reset/del, in place or on a copy,
     the value of a in the final heap is fresh (>= length of the initial heap)
     and equal to what a new instance holds".  Proved: the installed value is
     the result of lookup_default_value (by definition of delattr_ — the same
     function InitMethod uses, hence the same value as in a new instance; the
     harness compares both with the XSame oracle), that result is fresh
     (C08_default_is_fresh), and the class-level default itself is never
     installed (C08_reset_keeps_defaults_isolated).  Missing: the final-heap
     formulation through mutate_attr/invalidate_attrs (needs a footprint
     judgement for in-place writes to the receiver cell).
   * C08_peers_disjoint (full): "instances constructed independently stay
     mutably disjoint from each other ... except through arguments handed to
     later helper calls and do_not_copy attributes", over all histories.
     Proved: disjointness at construction time (C08_construct_fresh: a new
     instance reaches no pre-existing object), isolation of class-level
     defaults over all histories of the alphabet above
     (C08_defaults_isolated), and that copy-on-write calls write no
     pre-existing cell (C01).  Missing: an ownership invariant for in-place
     mutation of NESTED values (which cells an in-place helper may write),
     in-place element helpers and in-place update_/transform_<attr>, and
     attribute-transform keywords (they read through getattr(obj, name,
     default), whose class-attribute fallback is only excluded by an invariant
     "every instance holds every defaulted attribute" that is not proved).

   UPDATE (proof extension, see the sections "Every instance holds every defaulted attribute",
   "C08_reset_fresh in its FINAL-HEAP form" and "C08_peers_disjoint over histories" below): the
   holds-defaults invariant is proved (C08_no_defaulted_attribute_removed,
   C08_holds_defaults_history; with the finding C08_unchanged_keyword_refuted), the final-heap form
   of reset freshness is proved for del / reset_<a>(_inplace=True) without dependants, and peers
   disjointness over histories is proved for the alphabet `peer_op_ok` with scalar arguments
   (C08_peers_disjoint_history_partial), the model never storing a dangling reference
   (C08_no_dangling_reference_is_ever_stored).  What is still missing is listed there and in
   docs/C08.md. *)
From Coq Require Import List ZArith Bool Arith Lia.
From SC Require Import Base.Res Inst.Heap Inst.ClassTable Inst.Model Inst.Framed Inst.FrameProofs
  Inst.Reach Inst.SepProofs Props.C01 Props.C02 Inst.AtomicProofs Inst.SepMore Inst.SepMore2 Inst.SepMore3 Inst.SepMore4 Inst.SepMore5.
Import ListNotations.
Open Scope nat_scope.

Theorem C08_construct_fresh :
  forall ct, no_dnc_classes ct -> own_metadata ct -> scalar_table ct ->
  forall c pos kw s r s',
    exec ct XFUEL (KConstruct c pos kw) s = (Ok (VRef r), s') ->
    length (heap s) <= r /\
    forall l', reach (heap s') r l' ->
      length (heap s) <= l'
      \/ exists l0, (ctor_arg_loc ct pos kw l0 \/ dnc_value ct (heap s) l0) /\ reach (heap s) l0 l'.
Proof. intros ct H1 H2 H3. exact (construct_separated ct H1 H2 H3). Qed.

Theorem C08_default_is_fresh :
  forall ct, no_dnc_classes ct -> own_metadata ct -> scalar_table ct ->
  forall sp k s v s',
    In k ct -> In sp (c_attrs k) ->
    lookup_default_value ct (exec ct XFUEL) sp k s = (Ok v, s') ->
    freshv (length (heap s)) v /\
    forall r l', v = VRef r -> reach (heap s') r l' ->
      length (heap s) <= l' \/ exists l0, dnc_value ct (heap s) l0 /\ reach (heap s) l0 l'.
Proof. intros ct H1 H2 H3. exact (default_value_separated ct H1 H2 H3). Qed.

(* what the isolation invariant says *)
Definition defaults_isolated_in (nd : nat) (h0 : list obj) (s : state) : Prop :=
  (forall l, l < nd -> nth_error (heap s) l = nth_error h0 l) /\
  (forall l o l', nd <= l -> nth_error (heap s) l = Some o -> In l' (refs_of o) -> nd <= l').

Lemma sinv_isolated nd h0 s : sinv nd NoA NoW h0 s <-> nd <= length (heap s) /\ defaults_isolated_in nd h0 s.
Proof.
  split.
  - intros (L & Old & Cl). split; [exact L|]. split; [intros l Hl; destruct (Old l Hl) as [[]|H]; exact H|].
    intros l o l' Hl Hn Hin. destruct (obj_ok_refs nd NoA o l' (Cl l o Hl Hn) Hin) as [H|[]]. exact H.
  - intros (L & Old & Cl). split; [exact L|]. split; [intros l Hl; right; exact (Old l Hl)|].
    intros l o Hl Hn. apply obj_ok_of_refs. intros l' Hin. left. eapply Cl; eauto.
Qed.

Theorem C08_reset_keeps_defaults_isolated :
  forall ct, no_dnc_classes ct -> own_metadata ct -> scalar_table ct ->
  forall nd h0, (forall l c d, l < nd -> nth_error h0 l <> Some (OInst c d)) ->
  forall s l a,
    nd <= length (heap s) -> defaults_isolated_in nd h0 s -> nd <= l ->
    defaults_isolated_in nd h0 (snd (exec ct XFUEL (KDelAttr l a false false) s)).
Proof.
  intros ct H1 H2 H3 nd h0 Hp s l a L Hs Hl.
  assert (Hi : sinv nd NoA NoW h0 s) by (apply sinv_isolated; auto).
  destruct (proj1 (exec_sep ct H1 H2 nd NoA NoW h0 (NoA_closed nd h0) (scalar_table_ok ct nd NoA H3)
                     (NoA_dnc ct nd h0 Hp) XFUEL) (KDelAttr l a false false) (or_introl Hl) s Hi) as [Hs' _].
  apply sinv_isolated in Hs'. apply Hs'.
Qed.

Theorem C08_defaults_isolated :
  forall ct, no_dnc_classes ct -> own_metadata ct -> scalar_table ct ->
  forall nd h0, (forall l c d, l < nd -> nth_error h0 l <> Some (OInst c d)) ->
  forall ops s roots,
    nd <= length (heap s) -> defaults_isolated_in nd h0 s ->
    nd <= length roots -> roots_ok nd roots ->
    Forall (fun p => hist_op_ok ct nd (fst p)) ops ->
    defaults_isolated_in nd h0 (fst (run_ops ct s roots ops)).
Proof.
  intros ct H1 H2 H3 nd h0 Hp ops s roots L Hs Lr Hr Hops.
  assert (Hi : sinv nd NoA NoW h0 s) by (apply sinv_isolated; auto).
  assert (H := defaults_isolated ct H1 H2 H3 nd h0 Hp ops s roots Hi Lr Hr Hops).
  apply sinv_isolated in H. apply H.
Qed.

(* what del / reset_<a> / reset install: on an instance that may be written (not
   frozen, or being initialised) and for a managed attribute, __delattr__ is
   exactly "look up the default as the constructor does, prepare it as the
   constructor does, assign it in place"; when there is no default the entry is
   removed.  InitMethod (Model.init_) obtains the value of an absent keyword by
   the same lookup_default_value and assigns it through __setattr__, i.e.
   through the same prepare_attr_value and mutate_attr. *)
Theorem C08_reset_installs_what_init_assigns :
  forall ct rec s l a skip c d k sp,
    nth_error (heap s) l = Some (OInst c d) -> lookup_cls ct c = Some k ->
    (c_frozen k = false \/ initializing d = true) -> lookup_attr k a = Some sp ->
    delattr_ ct rec l a false skip s =
    (dv <- lookup_default_value ct rec sp k ;;
     if is_missing dv
     then raw_delattr l a ;;; (if skip then ret tt else invalidate_attrs ct rec l a) ;;; ret VNone
     else (v <- prepare_attr_value ct rec sp l dv None ;;
           mutate_attr ct rec l a v true true true skip)) s.
Proof.
  intros ct rec s l a skip c d k sp Hn Hk Hfz Ha. unfold delattr_.
  rewrite bind_ok with (a := (c, d)) (s1 := s).
  2:{ unfold read_inst. rewrite bind_ok with (a := OInst c d) (s1 := s); [reflexivity|].
      unfold read. rewrite Hn. reflexivity. }
  cbn [fst snd]. rewrite bind_ok with (a := k) (s1 := s) by (unfold cls_of; rewrite Hk; reflexivity).
  rewrite bind_ok with (a := tt) (s1 := s).
  2:{ destruct Hfz as [H|H]; rewrite H; cbn [orb negb andb]; [destruct (initializing d)|]; reflexivity. }
  rewrite Ha. reflexivity.
Qed.

(* in-place operations are confined to the receiver: an assignment, a deletion,
   with_/update_/transform_/reset_<attr>(_inplace=True), reset(_inplace=True),
   transform(_inplace=True) and update(_inplace=True) without a positional
   replacement value write, among the cells that existed before, only the
   receiver's own cell — whatever the arguments, the outcome (return or any
   exception) and the failure point of user callbacks.  Hence no class-level
   default, constructor argument, peer or nested value (frozen or not) is
   changed by them; everything else they touch is freshly allocated.
   No guard on callbacks; only: no do_not_copy=True classes, no plain subclasses. *)
Theorem C08_inplace_confined_to_receiver :
  forall ct, no_dnc_classes ct -> own_metadata ct ->
  forall roots o s l,
    inplace_attr_op o -> nth (op_target o) roots VNone = VRef l ->
    forall l', l' < length (heap s) -> l' <> l ->
      nth_error (heap (snd (step ct roots o s))) l' = nth_error (heap s) l'.
Proof. intros ct H1 H2. exact (inplace_confined ct H1 H2). Qed.

(* the element helpers (with_/update_/transform_/without_<item>), in place or not,
   write among the pre-existing cells only the receiver's cell and the collection
   object the attribute currently holds (looked up as the helper does: instance
   dict, else the class attribute) *)
Theorem C08_inplace_element_confined :
  forall ct, no_dnc_classes ct -> own_metadata ct ->
  forall roots x hp h a s l,
    item_helper_attr hp = Some a -> nth x roots VNone = VRef l ->
    forall l', l' < length (heap s) -> l' <> l ->
      (forall lc, fst (getattr_default ct l a s) = Ok (VRef lc) -> l' <> lc) ->
      nth_error (heap (snd (step ct roots (OpHelper x hp h) s))) l' = nth_error (heap s) l'.
Proof. intros ct H1 H2. exact (inplace_item_confined ct H1 H2). Qed.

(* the initial situation of every generated case: the heap holds exactly the
   class-level default objects (plain collections of scalars), the roots are those objects *)
Lemma C08_initial_state_isolated h0 :
  (forall l o l', nth_error h0 l = Some o -> ~ In l' (refs_of o)) ->
  defaults_isolated_in (length h0) h0 (mkst h0 0 None) /\
  roots_ok (length h0) (map VRef (seq 0 (length h0))).
Proof.
  intro H. split; [split|].
  - auto.
  - simpl. intros l o l' Hl Hn. apply nth_error_None in Hl. congruence.
  - intros x Hx. rewrite nth_overflow; [exact I|]. rewrite map_length, seq_length. exact Hx.
Qed.

(* non-vacuity: construction with a mutable class-level default (cell 0), a
   factory default, a do_not_copy keyword (cell 2, kept by identity) and a copied
   keyword (cell 1, copied to cell 5); then del of the defaulted attribute *)
Definition ex8_ct : ctable :=
  [mkcls 2 [mkattr 50 (TList TInt) (VRef 0) None 2 true false None None [];
            mkattr 51 (TList TInt) VMissing (Some (FacList [VInt 3])) 2 true false None None [];
            mkattr 52 (TList TInt) VMissing None 2 true false None None [];
            mkattr 9 (TList TInt) VMissing None 2 true true None None []]
         false false None [2] 2 [] None None].
Definition ex8_state : state := mkst [OList [VInt 1]; OList [VInt 8]; OList [VInt 9]] 0 None.

Example C08_nonvacuous :
  (let '(r, s') := exec ex8_ct XFUEL (KConstruct 2 None [(52, VRef 1); (9, VRef 2)]) ex8_state in
   r = Ok (VRef 3) /\
   skipn 3 (heap s') = [OInst 2 [(50, VRef 4); (51, VRef 5); (52, VRef 6); (9, VRef 2)];
                        OList [VInt 1]; OList [VInt 3]; OList [VInt 8]] /\
   firstn 3 (heap s') = heap ex8_state /\
   let '(r2, s2) := exec ex8_ct XFUEL (KDelAttr 3 51 false false) s' in
   r2 = Ok (VRef 3) /\
   nth_error (heap s2) 3 = Some (OInst 2 [(50, VRef 4); (51, VRef 7); (52, VRef 6); (9, VRef 2)]) /\
   nth_error (heap s2) 7 = Some (OList [VInt 3])) /\
  ctor_arg_loc ex8_ct None [(52, VRef 1); (9, VRef 2)] 2 /\
  dncname ex8_ct 52 = false.
Proof.
  split; [vm_compute; repeat split; reflexivity|]. split; [|reflexivity].
  right. exists 9. split; [simpl; auto|reflexivity].
Qed.

(* non-vacuity of the history theorem: one class-level default object (cell 0);
   argument object, construction, del, reset() in place, with_<attr> on a copy *)
Definition exh_h0 : list obj := [OList [VInt 1]].
Definition exh_ops : list (op * option nat) :=
  [(OpAlloc (OList [VInt 8]), None);
   (OpConstruct 2 None [(52, VRef 1)], None);
   (OpDelAttr 2 50, None);
   (OpHelper 2 HResetTop (mkh [] true true VMissing false None None [] None), None);
   (OpHelper 2 (HWith 51) (mkh [VRef 1] false true VMissing false None None [] None), None)].

Example C08_history_nonvacuous :
  Forall (fun p => hist_op_ok ex8_ct 1 (fst p)) exh_ops /\
  (let '(s', roots') := run_ops ex8_ct (mkst exh_h0 0 None) [VRef 0] exh_ops in
   roots' = [VRef 0; VRef 1; VRef 2; VNone; VRef 2; VRef 9] /\
   nth_error (heap s') 0 = Some (OList [VInt 1]) /\
   nth_error (heap s') 2 = Some (OInst 2 [(50, VRef 7); (51, VRef 8)]) /\
   nth_error (heap s') 9 = Some (OInst 2 [(50, VRef 10); (51, VRef 1)])).
Proof.
  split.
  - repeat constructor; simpl; auto;
      try (match goal with H : In _ _ |- _ => destruct H as [E|[]]; inversion E; subst; simpl; left; lia end);
      try (left; lia); try discriminate.
  - vm_compute. repeat split; reflexivity.
Qed.

(* non-vacuity of the confinement theorem: reset(_inplace=True) on the instance of
   the history above rewrites its cell 2, allocates, and leaves the argument list
   (cell 1) and the class-level default (cell 0) alone *)
Example C08_inplace_confined_nonvacuous :
  inplace_attr_op (OpHelper 2 HResetTop (mkh [] true true VMissing false None None [] None)) /\
  (let s1 := fst (run_ops ex8_ct (mkst exh_h0 0 None) [VRef 0] (firstn 2 exh_ops)) in
   let '(r, s2) := step ex8_ct [VRef 0; VRef 1; VRef 2]
                        (OpHelper 2 HResetTop (mkh [] true true VMissing false None None [] None)) s1 in
   r = Ok (VRef 2) /\ nth_error (heap s1) 2 <> nth_error (heap s2) 2 /\
   length (heap s1) < length (heap s2) /\
   firstn 2 (heap s2) = firstn 2 (heap s1)).
Proof.
  split; [split; exact I|]. vm_compute. repeat split; try reflexivity; try discriminate. auto.
Qed.

(* ------------------------------------------------------------------ *)
(* "Every instance holds every defaulted attribute in its own dictionary"
   (proofs: coq/Inst/SepMore.v).

   kext ct s s': every cell of s is still in s'; an instance cell is still an instance of
   the same class and still holds every key it held whose attribute has a default
   (`keep ct c a`: a is not the bookkeeping key __spec_class_initializing__, and
   lookup_default_value of the class's attribute a cannot come back MISSING: override,
   factory or class-level default).  So the library NEVER removes a defaulted attribute from
   an instance dictionary; what `del` / reset_<a> / reset / invalidation really remove are
   attributes without default, unmanaged attributes and the bookkeeping key.
   No guard at all: every class table, operation, argument vector, outcome and failure point. *)
Theorem C08_no_defaulted_attribute_removed :
  forall ct roots o s, kext ct s (snd (step ct roots o s)).
Proof. exact step_kext. Qed.

(* the guard on keywords as a computable predicate: no constructor keyword carries the UNCHANGED
   sentinel (EMPTY and MISSING are harmless: the constructor then builds type() / uses the default) *)
Definition kw_nub (kw : list (aid * val)) : bool := forallb (fun p => nub (snd p)) kw.
Lemma kw_nub_ok kw : kw_nub kw = true -> kw_nu kw.
Proof.
  unfold kw_nub, kw_nu. rewrite forallb_forall, Forall_forall. intros H p Hp. apply nub_nu. auto.
Qed.

(* A successful constructor call returns an instance that holds every defaulted,
   init-enabled attribute of its class in its own dictionary (hd), provided no keyword is the
   sentinel UNCHANGED (see C08_unchanged_keyword_refuted) and the table meets the computable
   guard tgb: own metadata, attribute owners in the MRO, no preparer returning a sentinel
   constant, no class-level default / override equal to UNCHANGED. *)
Theorem C08_constructor_installs_defaults :
  forall ct c pos kw s r s',
    tgb ct = true -> kw_nu kw -> match pos with Some v => nu v | None => True end ->
    exec ct XFUEL (KConstruct c pos kw) s = (Ok r, s') ->
    exists l, r = VRef l /\ hd ct l c s'.
Proof. exact construct_holds. Qed.

(* Over ANY history (any operations of `step` with any arguments, failing steps included): the
   root produced by the i-th operation, when that is a constructor call that returned an
   instance, holds every defaulted init-enabled attribute in its own dictionary at the end of
   the history — hence getattr(obj, name, default) on it never falls back to a class-level
   default object. *)
Theorem C08_holds_defaults_history :
  forall ct, tgb ct = true ->
  forall ops s roots, Forall (fun p => op_nu (fst p)) ops ->
  forall i c pos kw fa l,
    nth_error ops i = Some (OpConstruct c pos kw, fa) ->
    nth (length roots + i) (snd (run_ops ct s roots ops)) VNone = VRef l ->
    hd ct l c (fst (run_ops ct s roots ops)).
Proof. exact ctor_roots_hold_defaults. Qed.

(* The guard on keywords is necessary, and the code violates the property without it:
   C(xs=UNCHANGED) returns an instance WITHOUT xs in its dictionary; with_x(5, _inplace=True)
   on it then mutates the class-level default object (cell 0) itself.  Same on /repo:
   `c = C(xs=UNCHANGED); c.with_x(5, _inplace=True); C().xs == [1, 5]`. *)
Example C08_unchanged_keyword_refuted :
  tgb exu_ct = true /\
  keep_init exu_ct 2 50 /\
  (let '(r, s1) := exec exu_ct XFUEL (KConstruct 2 None [(50, VUnchanged)]) exu_s0 in
   r = Ok (VRef 1) /\ nth_error (heap s1) 1 = Some (OInst 2 []) /\
   let '(r2, s2) := step exu_ct [VRef 0; VRef 1]
                         (OpHelper 1 (HWithItem 50) (mkh [VInt 5] true true VMissing false None None [] None)) s1 in
   r2 = Ok (VRef 1) /\ nth_error (heap s2) 0 = Some (OList [VInt 1; VInt 5])).
Proof. exact unchanged_keyword_refuted. Qed.

Example C08_constructor_installs_defaults_nonvacuous :
  tgb exu_ct = true /\ keep_init exu_ct 2 50 /\
  (let '(r, s1) := exec exu_ct XFUEL (KConstruct 2 None []) exu_s0 in
   r = Ok (VRef 1) /\ nth_error (heap s1) 1 = Some (OInst 2 [(50, VRef 2)]) /\
   let '(r2, s2) := step exu_ct [VRef 0; VRef 1]
                         (OpHelper 1 (HWithItem 50) (mkh [VInt 5] true true VMissing false None None [] None)) s1 in
   r2 = Ok (VRef 1) /\ nth_error (heap s2) 0 = Some (OList [VInt 1]) /\
   nth_error (heap s2) 2 = Some (OList [VInt 1; VInt 5])).
Proof. exact construct_holds_nonvacuous. Qed.


(* ------------------------------------------------------------------ *)
(* C08_reset_fresh in its FINAL-HEAP form (proofs: coq/Inst/SepMore2.v).
   `del obj.a` on a writable instance, for an attribute a WITH a default (mutable literal,
   Attr(default=), default_factory, override) that nothing is invalidated by: in the heap the
   call ends with, the receiver's dictionary is the old one with a := v where
     - v is not a sentinel, and is a scalar or a reference to a cell allocated by the call;
     - every cell reachable from v in the final heap was allocated by the call: v is not the
       class-level default object and shares no cell with it, with a constructor argument, with
       another instance or with anything else that existed before;
     - no other pre-existing cell was written (and every other attribute of obj is untouched).
   Guards: no do_not_copy=True classes, no do_not_copy attributes, scalar_table, tgb. *)
Definition no_dnc_attrs (ct : ctable) : Prop :=
  forall k sp, In k ct -> In sp (c_attrs k) -> a_dnc sp = false.
(* every attribute is init-enabled (the property restricts itself to those); no class-dict overrides *)
Definition all_init (ct : ctable) : Prop :=
  forall k sp, In k ct -> In sp (c_attrs k) -> a_init sp = true.
Definition no_overrides (ct : ctable) : Prop := forall k, In k ct -> c_overrides k = [].

Theorem C08_del_fresh_final_heap :
  forall ct, no_dnc_classes ct -> scalar_table ct -> tgb ct = true -> no_dnc_attrs ct ->
  forall s l a c d k sp r s',
    nth_error (heap s) l = Some (OInst c d) -> lookup_cls ct c = Some k -> lookup_attr k a = Some sp ->
    (c_frozen k = false \/ initializing d = true) ->
    has_default k sp = true -> no_dependants k a ->
    exec ct XFUEL (KDelAttr l a false false) s = (Ok r, s') ->
    exists v,
      nth_error (heap s') l = Some (OInst c (assoc_set a v d)) /\
      is_sentinel v = false /\ freshv (length (heap s)) v /\
      (forall lv l', v = VRef lv -> reach (heap s') lv l' -> length (heap s) <= l') /\
      (forall l', l' < length (heap s) -> l' <> l -> nth_error (heap s') l' = nth_error (heap s) l').
Proof. intros ct H1 H2 H3 H4. exact (del_final_heap ct H1 H2 H3 H4). Qed.

(* the same for obj.reset_<a>(_inplace=True) *)
Theorem C08_reset_inplace_fresh_final_heap :
  forall ct, no_dnc_classes ct -> scalar_table ct -> tgb ct = true -> no_dnc_attrs ct ->
  forall s l a c d k sp h r s',
    nth_error (heap s) l = Some (OInst c d) -> lookup_cls ct c = Some k -> lookup_attr k a = Some sp ->
    (c_frozen k = false \/ initializing d = true) ->
    has_default k sp = true -> no_dependants k a ->
    h_inplace h = true -> h_if h = true ->
    run_helper ct l (HReset a) h s = (Ok r, s') ->
    r = VRef l /\
    exists v,
      nth_error (heap s') l = Some (OInst c (assoc_set a v d)) /\
      is_sentinel v = false /\ freshv (length (heap s)) v /\
      (forall lv l', v = VRef lv -> reach (heap s') lv l' -> length (heap s) <= l') /\
      (forall l', l' < length (heap s) -> l' <> l -> nth_error (heap s') l' = nth_error (heap s) l').
Proof. intros ct H1 H2 H3 H4. exact (reset_inplace_final_heap ct H1 H2 H3 H4). Qed.

(* in particular: the value now stored is not the class-level default object, and that object is
   not reachable from it *)
Corollary C08_reset_value_is_not_the_class_default :
  forall ct, no_dnc_classes ct -> scalar_table ct -> tgb ct = true -> no_dnc_attrs ct ->
  forall s l a c d k sp r s' ld,
    nth_error (heap s) l = Some (OInst c d) -> lookup_cls ct c = Some k -> lookup_attr k a = Some sp ->
    (c_frozen k = false \/ initializing d = true) ->
    has_default k sp = true -> no_dependants k a ->
    class_default k a = VRef ld -> ld < length (heap s) ->
    exec ct XFUEL (KDelAttr l a false false) s = (Ok r, s') ->
    exists v d', nth_error (heap s') l = Some (OInst c d') /\ assoc a d' = Some v /\
      v <> VRef ld /\ forall lv, v = VRef lv -> ~ reach (heap s') lv ld.
Proof.
  intros ct H1 H2 H3 H4 s l a c d k sp r s' ld Hl Hc Ha Hfz Hd Hn Hcd Hld Hrun.
  destruct (del_final_heap ct H1 H2 H3 H4 s l a c d k sp r s' Hl Hc Ha Hfz Hd Hn Hrun)
    as (v & Hv1 & Hv2 & Hv3 & Hv4 & _).
  exists v, (assoc_set a v d). split; [exact Hv1|]. split.
  - apply assoc_set_get.
  - split.
    + intro E. subst v. simpl in Hv3. lia.
    + intros lv -> R. specialize (Hv4 lv ld eq_refl R). lia.
Qed.

(* non-vacuity: the class of C08_unchanged_keyword_refuted; `del obj.xs` after construction *)
Example C08_del_fresh_final_heap_nonvacuous :
  no_dnc_classes exu_ct /\ scalar_table exu_ct /\ tgb exu_ct = true /\ no_dnc_attrs exu_ct /\
  (let s := mkst [OList [VInt 1]; OInst 2 [(50, VRef 2)]; OList [VInt 1; VInt 5]] 0 None in
   let '(r, s') := exec exu_ct XFUEL (KDelAttr 1 50 false false) s in
   r = Ok (VRef 1) /\
   heap s' = [OList [VInt 1]; OInst 2 [(50, VRef 3)]; OList [VInt 1; VInt 5]; OList [VInt 1]]).
Proof.
  split; [|split; [|split; [reflexivity|split]]].
  - intros c k H. unfold lookup_cls in H. apply find_some in H. destruct H as [[<-|[]] _]. reflexivity.
  - intros k [<-|[]]. simpl. split; [|split; exact I]. intros sp [<-|[]]. simpl. auto.
  - intros k sp [<-|[]] [<-|[]]. reflexivity.
  - vm_compute. split; reflexivity.
Qed.

(* ------------------------------------------------------------------ *)
(* C08_peers_disjoint over histories, PARTIAL (proofs: coq/Inst/SepMore3.v).
   Full statement: over every history, two distinct instances created by constructor calls share no
   mutable cell unless the caller handed the same do_not_copy object to both.
   Proved: for every history of the alphabet `peer_op_ok` —
     constructor calls (any keywords except UNCHANGED; a positional key must be a scalar),
     every helper called copy-on-write (_inplace=False) with scalar arguments and scalar callbacks,
     deepcopy, argument objects of scalars built by the caller, and in place, on an instance created
     by a constructor call of the history, for ANY attribute (dependants are reset by invalidation):
     `obj.a = <scalar>`, `del obj.a`, `obj.with_<a>(<scalar>, _inplace=True)`,
     `obj.reset_<a>(_inplace=True)`, `obj.reset(_inplace=True)`,
     `obj.update_<a>(<scalar>, _inplace=True)`, `obj.transform_<a>(<scalar callback>, _inplace=True)`
     (these two read the current value through getattr(obj, name, default): by the holds-defaults
     invariant, carried in PD, it comes from the instance's own dictionary, never from a class-level
     object) —
   the instances returned by the constructor calls of the history sit at pairwise different cells,
   each is a live cell, and no cell is reachable from two of them (invariant PD, preserved by every
   step: SepMore3.peer_step).  Tables: no do_not_copy=True classes, no do_not_copy attributes,
   scalar_table, tgb.
   Proviso (what keeps this partial): every heap an operation of the history starts from is free of
   dangling references (`run_wf`; decidable: `run_wfb`, lemma run_wfb_ok).  Still missing beyond that:
   (discharged below for scalar arguments); in-place element helpers and update / transform
   (_inplace=True) in the alphabet; instances obtained as copies; do_not_copy attributes. *)
Theorem C08_peers_disjoint_history_if_no_dangling :
  forall ct, no_dnc_classes ct -> scalar_table ct -> tgb ct = true -> no_dnc_attrs ct ->
  all_init ct -> no_overrides ct ->
  forall ops s roots,
    ops_ok (length roots) [] ops -> run_wf ct s roots ops ->
    forall i j ci pi kwi fi cj pj kwj fj li lj,
      nth_error ops i = Some (OpConstruct ci pi kwi, fi) ->
      nth_error ops j = Some (OpConstruct cj pj kwj, fj) -> i <> j ->
      nth (length roots + i) (snd (run_ops ct s roots ops)) VNone = VRef li ->
      nth (length roots + j) (snd (run_ops ct s roots ops)) VNone = VRef lj ->
      li <> lj /\
      forall z, reach (heap (fst (run_ops ct s roots ops))) li z ->
                reach (heap (fst (run_ops ct s roots ops))) lj z -> False.
Proof. intros ct H1 H2 H3 H4 H5 H6. exact (ctor_peers_disjoint ct H1 H2 H3 H4 H5 H6). Qed.

(* The proviso discharged (proofs: coq/Inst/SepMore4.v, a bounds judgement over the whole model):
   the library never stores a reference to a cell that does not exist.  `bj n m Q`: from a heap
   without dangling references and with arguments below the watermark n, every function of Model.v
   ends (Ok or Err) in such a heap, returning a value below the final heap size.  Hence for histories
   whose arguments are scalars (`op_scalar`), started from a heap without dangling references, with
   the class-level default objects below n0 and roots inside the heap, `run_wf` holds. *)
Theorem C08_no_dangling_reference_is_ever_stored :
  forall ct, scalar_table ct ->
  forall n0, (forall c k a, lookup_cls ct c = Some k -> vb n0 (class_default k a)) ->
  forall roots o s,
    n0 <= length (heap s) -> wf_heap (heap s) -> Forall (vb (length (heap s))) roots ->
    opb (length (heap s)) o ->
    wf_heap (heap (snd (step ct roots o s))) /\
    length (heap s) <= length (heap (snd (step ct roots o s))) /\
    match fst (step ct roots o s) with
    | Ok v => vb (length (heap (snd (step ct roots o s)))) v
    | Err _ => True
    end.
Proof.
  intros ct H1 n0 H2 roots o s Hn Hw Hr Ho.
  destruct (step_bj ct H1 n0 H2 (length (heap s)) roots o Hn Hr Ho s (proj2 (wfn_wf s) Hw) (le_n _)) as (W & L & Q).
  split; [apply wfn_wf; exact W|]. split; [exact L|exact Q].
Qed.

(* C08_peers_disjoint over histories, without the proviso; PARTIAL only in its alphabet:
   constructor calls with scalar keywords, every helper called copy-on-write with scalar
   arguments, deepcopy, argument objects of scalars, and in place on a constructor-created instance
   (any attribute): obj.a = <scalar>, del obj.a, with_<a>(<scalar>, _inplace=True),
   reset_<a>(_inplace=True), reset(_inplace=True), update_<a>(<scalar>, _inplace=True),
   transform_<a>(<scalar callback>, _inplace=True). *)
Theorem C08_peers_disjoint_history_partial :
  forall ct, no_dnc_classes ct -> scalar_table ct -> tgb ct = true -> no_dnc_attrs ct ->
  all_init ct -> no_overrides ct ->
  forall n0, (forall c k a, lookup_cls ct c = Some k -> vb n0 (class_default k a)) ->
  forall ops s roots,
    n0 <= length (heap s) -> wf_heap (heap s) -> Forall (vb (length (heap s))) roots ->
    ops_ok (length roots) [] ops -> Forall (fun p => op_scalar (fst p)) ops ->
    forall i j ci pi kwi fi cj pj kwj fj li lj,
      nth_error ops i = Some (OpConstruct ci pi kwi, fi) ->
      nth_error ops j = Some (OpConstruct cj pj kwj, fj) -> i <> j ->
      nth (length roots + i) (snd (run_ops ct s roots ops)) VNone = VRef li ->
      nth (length roots + j) (snd (run_ops ct s roots ops)) VNone = VRef lj ->
      li <> lj /\
      forall z, reach (heap (fst (run_ops ct s roots ops))) li z ->
                reach (heap (fst (run_ops ct s roots ops))) lj z -> False.
Proof.
  intros ct H1 H2 H3 H4 Hi Ho n0 H5 ops s roots Hn Hw Hr Hok Hsc.
  apply (ctor_peers_disjoint ct H1 H2 H3 H4 Hi Ho ops s roots Hok).
  exact (run_wf_holds ct H2 n0 H5 ops s roots Hn Hw Hr Hsc).
Qed.

Example C08_peers_disjoint_partial_nonvacuous :
  (forall c k a, lookup_cls exp_ct c = Some k -> vb 1 (class_default k a)) /\
  wf_heap [OList [VInt 1]] /\ Forall (vb 1) [VRef 0] /\
  ops_ok 1 [] exp_ops /\ Forall (fun p => op_scalar (fst p)) exp_ops.
Proof.
  split; [|split; [|split; [|split]]].
  - intros c k a H. unfold lookup_cls in H. apply find_some in H. destruct H as [[<-|[]] _].
    unfold class_default. cbn [c_overrides assoc find option_map].
    destruct (lookup_attr _ a) as [sp|] eqn:E; [|exact I].
    apply lookup_attr_In in E. destruct E as [[<-|[<-|[]]] _]; simpl; [lia|exact I].
  - apply wf_heapb_ok. reflexivity.
  - repeat constructor.
  - exact (proj1 (proj2 peers_disjoint_nonvacuous)).
  - repeat constructor.
Qed.

(* the invariant itself, for any set T of tracked constructor results to start from *)
Theorem C08_peers_invariant_preserved :
  forall ct, no_dnc_classes ct -> scalar_table ct -> tgb ct = true -> no_dnc_attrs ct ->
  all_init ct -> no_overrides ct ->
  forall ops s roots T,
    ops_ok (length roots) T ops -> run_wf ct s roots ops -> PD ct s roots T ->
    PD ct (fst (run_ops ct s roots ops)) (snd (run_ops ct s roots ops)) (tracked (length roots) T ops).
Proof. intros ct H1 H2 H3 H4 H5 H6. exact (peers_disjoint_history ct H1 H2 H3 H4 H5 H6). Qed.

(* non-vacuity: p = C(); q = C(); p.n = 7; p.with_n(9); q.with_x(5) — covered alphabet, no dangling
   reference at any step; the final heap *)
Example C08_peers_disjoint_nonvacuous :
  tgb exp_ct = true /\
  ops_ok 1 [] exp_ops /\
  run_wfb exp_ct (mkst [OList [VInt 1]] 0 None) [VRef 0] exp_ops = true /\
  (let '(s', roots') := run_ops exp_ct (mkst [OList [VInt 1]] 0 None) [VRef 0] exp_ops in
   roots' = [VRef 0; VRef 1; VRef 3; VNone; VRef 5; VRef 8] /\
   heap s' = [OList [VInt 1];
              OInst 2 [(50, VRef 2); (51, VInt 7)]; OList [VInt 1];
              OInst 2 [(50, VRef 4); (51, VInt 3)]; OList [VInt 1];
              OInst 2 [(50, VRef 6); (51, VInt 9)]; OList [VInt 1];
              OList [VInt 1; VInt 5]; OInst 2 [(50, VRef 7); (51, VInt 3)]; OList [VInt 1]]).
Proof. exact peers_disjoint_nonvacuous. Qed.

(* non-vacuity of the in-place part of the alphabet: the history above followed by
   del p.xs; p.with_n(4, _inplace=True); q.reset_x(_inplace=True);
   q.transform_xs(lambda x: x + [6], _inplace=True); p.update_n(8, _inplace=True) *)
Example C08_peers_disjoint_inplace_nonvacuous :
  ops_ok 1 [] exp_ops2 /\
  run_wfb exp_ct (mkst [OList [VInt 1]] 0 None) [VRef 0] exp_ops2 = true /\
  (let '(s', roots') := run_ops exp_ct (mkst [OList [VInt 1]] 0 None) [VRef 0] exp_ops2 in
   roots' = [VRef 0; VRef 1; VRef 3; VNone; VRef 5; VRef 8; VNone; VRef 1; VRef 3; VRef 3; VRef 1] /\
   nth_error (heap s') 1 = Some (OInst 2 [(50, VRef 10); (51, VInt 8)]) /\
   nth_error (heap s') 3 = Some (OInst 2 [(50, VRef 12); (51, VInt 3)]) /\
   nth_error (heap s') 12 = Some (OList [VInt 1; VInt 6]) /\
   nth_error (heap s') 0 = Some (OList [VInt 1])).
Proof. exact peers_disjoint_inplace_nonvacuous. Qed.

(* non-vacuity with an attribute that HAS a dependant (ys invalidated by n): p.n = 7 resets p.ys to a
   fresh copy; then p.reset(_inplace=True) *)
Example C08_peers_disjoint_dependants_nonvacuous :
  tgb exq_ct = true /\ dependants exq_cls 51 = [52] /\
  ops_ok 1 [] exq_ops /\
  run_wfb exq_ct (mkst [OList [VInt 1]] 0 None) [VRef 0] exq_ops = true /\
  (let '(s', roots') := run_ops exq_ct (mkst [OList [VInt 1]] 0 None) [VRef 0] exq_ops in
   roots' = [VRef 0; VRef 1; VRef 3; VNone; VRef 1] /\
   nth_error (heap s') 0 = Some (OList [VInt 1]) /\
   nth_error (heap s') 1 = Some (OInst 2 [(51, VInt 3); (52, VRef 7)]) /\
   nth_error (heap s') 3 = Some (OInst 2 [(51, VInt 3); (52, VRef 4)])).
Proof. exact peers_disjoint_dependants_nonvacuous. Qed.

(* ------------------------------------------------------------------ *)
(* The same, with EVERY helper allowed in place — attribute level, element level
   (with_/update_/transform_/without_<item>: mutation of a nested value at depth one), update / transform /
   reset — with scalar arguments, on instances created by constructor calls of the history
   (alphabet `peer_op_ok2`; proofs: coq/Inst/SepMore5.v on top of coq/Inst/SepGen.v, the separation
   judgement of SepProofs.v with the written old cells constrained: with W = A = "what the receiver
   reached" an in-place operation is confined to the receiver's own object graph and that graph, like the
   freshly allocated cells, refers only to itself and to fresh cells: `gshape`).
   "Mutating one instance in place changes no other instance": the peers' graphs stay disjoint, and a cell
   outside the receiver's graph is never written (gshape, first clause). *)
Theorem C08_peers_disjoint_history_nested_partial :
  forall ct, no_dnc_classes ct -> scalar_table ct -> tgb ct = true -> no_dnc_attrs ct ->
  all_init ct -> no_overrides ct ->
  forall n0, (forall c k a, lookup_cls ct c = Some k -> vb n0 (class_default k a)) ->
  forall ops s roots,
    n0 <= length (heap s) -> wf_heap (heap s) -> Forall (vb (length (heap s))) roots ->
    ops_ok2 (length roots) [] ops -> Forall (fun p => op_scalar (fst p)) ops ->
    forall i j ci pi kwi fi cj pj kwj fj li lj,
      nth_error ops i = Some (OpConstruct ci pi kwi, fi) ->
      nth_error ops j = Some (OpConstruct cj pj kwj, fj) -> i <> j ->
      nth (length roots + i) (snd (run_ops ct s roots ops)) VNone = VRef li ->
      nth (length roots + j) (snd (run_ops ct s roots ops)) VNone = VRef lj ->
      li <> lj /\
      forall z, reach (heap (fst (run_ops ct s roots ops))) li z ->
                reach (heap (fst (run_ops ct s roots ops))) lj z -> False.
Proof.
  intros ct H1 H2 H3 H4 Hi Ho n0 H5 ops s roots Hn Hw Hr Hok Hsc.
  apply (ctor_peers_disjoint2 ct H1 H2 H3 H4 Hi Ho ops s roots Hok).
  exact (run_wf_holds ct H2 n0 H5 ops s roots Hn Hw Hr Hsc).
Qed.

(* one step: an in-place helper on an instance holding its defaults is confined to that instance's graph *)
Theorem C08_inplace_confined_to_own_graph :
  forall ct, no_dnc_classes ct -> scalar_table ct -> tgb ct = true -> no_dnc_attrs ct ->
  all_init ct -> no_overrides ct ->
  forall l c hp h s r s',
    hd ct l c s -> h_inplace h = true -> inplace2 hp ->
    (forall a, item_helper_attr hp = Some a -> a <> A_INITIALIZING) ->
    Forall val_nonref (h_pos h) -> val_nonref (h_index h) -> h_kw h = None -> h_kwfn h = [] -> ofn_scalar (h_fn h) ->
    run_helper ct l hp h s = (r, s') -> gshape (length (heap s)) (heap s) l s'.
Proof. intros ct H1 H2 H3 H4 H5 H6. exact (helper_inplace_gshape ct H1 H2 H3 H4 H5 H6). Qed.

(* non-vacuity: p = C(); q = C(); p.with_x(5); q.with_x(6); p.without_x(1); q.transform_x(0, +10);
   p.transform() — all with _inplace=True *)
Example C08_peers_disjoint_nested_nonvacuous :
  ops_ok2 1 [] exn_ops /\
  run_wfb exp_ct (mkst [OList [VInt 1]] 0 None) [VRef 0] exn_ops = true /\
  Forall (fun p => op_scalar (fst p)) exn_ops /\
  (let '(s', roots') := run_ops exp_ct (mkst [OList [VInt 1]] 0 None) [VRef 0] exn_ops in
   roots' = [VRef 0; VRef 1; VRef 3; VRef 1; VRef 3; VRef 1; VRef 3; VRef 1] /\
   firstn 5 (heap s') = [OList [VInt 1];
                         OInst 2 [(50, VRef 2); (51, VInt 3)]; OList [VInt 5];
                         OInst 2 [(50, VRef 4); (51, VInt 3)]; OList [VInt 11; VInt 6]]).
Proof. exact peers_disjoint_nested_nonvacuous. Qed.

Print Assumptions C08_construct_fresh.
Print Assumptions C08_default_is_fresh.
Print Assumptions C08_reset_keeps_defaults_isolated.
Print Assumptions C08_defaults_isolated.
Print Assumptions C08_reset_installs_what_init_assigns.
Print Assumptions C08_inplace_confined_to_receiver.
Print Assumptions C08_inplace_element_confined.
Print Assumptions C08_initial_state_isolated.
Print Assumptions C08_nonvacuous.
Print Assumptions C08_history_nonvacuous.
Print Assumptions C08_inplace_confined_nonvacuous.
Print Assumptions C08_no_defaulted_attribute_removed.
Print Assumptions C08_constructor_installs_defaults.
Print Assumptions C08_holds_defaults_history.
Print Assumptions C08_unchanged_keyword_refuted.
Print Assumptions C08_constructor_installs_defaults_nonvacuous.
Print Assumptions C08_del_fresh_final_heap.
Print Assumptions C08_reset_inplace_fresh_final_heap.
Print Assumptions C08_reset_value_is_not_the_class_default.
Print Assumptions C08_del_fresh_final_heap_nonvacuous.
Print Assumptions C08_peers_disjoint_history_if_no_dangling.
Print Assumptions C08_peers_invariant_preserved.
Print Assumptions C08_peers_disjoint_nonvacuous.
Print Assumptions C08_no_dangling_reference_is_ever_stored.
Print Assumptions C08_peers_disjoint_history_partial.
Print Assumptions C08_peers_disjoint_partial_nonvacuous.
Print Assumptions C08_peers_disjoint_inplace_nonvacuous.
Print Assumptions C08_peers_disjoint_dependants_nonvacuous.
Print Assumptions C08_peers_disjoint_history_nested_partial.
Print Assumptions C08_inplace_confined_to_own_graph.
Print Assumptions C08_peers_disjoint_nested_nonvacuous.
