(* C01 — copy-on-write helpers never change the receiver (nor the arguments,
   nor any other pre-existing object).
   Model: coq/Inst/Model.v (transliteration of utils/mutation.py,
   methods/{core,scalar,toplevel}.py, collections/*.py, methods/collections/*.py).
   The statement is a frame property: a call made without _inplace=True
   writes no heap cell that existed when the call began — for every class
   table without do_not_copy=True classes (frozen classes included), every
   heap, every receiver, helper and argument vector (valid or not), every
   outcome (return or any exception) and every point at which a user
   callback is made to raise (the state's fail_at is arbitrary). *)
From Coq Require Import List ZArith Bool Arith.
From SC Require Import Base.Res Inst.Heap Inst.ClassTable Inst.Model Inst.Framed Inst.FrameProofs Inst.Reach.
Import ListNotations.
Open Scope nat_scope.

Definition no_dnc_classes (ct : ctable) : Prop :=
  forall c k, lookup_cls ct c = Some k -> c_dnc k = false.

Theorem C01_cow_call_writes_no_existing_cell :
  forall ct, no_dnc_classes ct ->
  forall roots x hp h s,
    h_inplace h = false ->
    frame (length (heap s)) s (snd (step ct roots (OpHelper x hp h) s)).
Proof.
  intros ct Hct roots x hp h s Hin.
  refine (framed_run _ _ _ s (step_framed ct Hct (length (heap s)) roots (OpHelper x hp h) _) (le_n _)).
  simpl. now rewrite Hin.
Qed.

Theorem C01_deepcopy_writes_no_existing_cell :
  forall ct, no_dnc_classes ct ->
  forall roots x s, frame (length (heap s)) s (snd (step ct roots (OpDeepCopy x) s)).
Proof.
  intros ct Hct roots x s.
  exact (framed_run _ _ _ s (step_framed ct Hct (length (heap s)) roots (OpDeepCopy x) eq_refl) (le_n _)).
Qed.

(* observable form: the object graph hanging off ANY pre-existing object (the
   receiver, an argument, a peer instance, a class-level default) — its set of
   reachable objects and the contents of each of them — is the same before and
   after the call, whether the call returns or raises *)
Theorem C01_pre_existing_object_graph_unchanged :
  forall ct, no_dnc_classes ct ->
  forall roots x hp h s l0,
    h_inplace h = false -> wf_heap (heap s) -> l0 < length (heap s) ->
    let s' := snd (step ct roots (OpHelper x hp h) s) in
    (forall l, reach (heap s) l0 l -> reach (heap s') l0 l /\ nth_error (heap s') l = nth_error (heap s) l) /\
    (forall l, reach (heap s') l0 l -> reach (heap s) l0 l).
Proof.
  intros ct Hct roots x hp h s l0 Hin W Hl. cbv zeta.
  apply frame_preserves_reachable_graph; auto.
  apply C01_cow_call_writes_no_existing_cell; auto.
Qed.

(* the same for every internal entry point reached from a helper: the
   recursive core writes only cells at or above the watermark *)
Theorem C01_core_respects_watermark :
  forall ct, no_dnc_classes ct ->
  forall b fuel k, call_ok b k -> framed b (exec ct fuel k) (post b k).
Proof. exact exec_framed. Qed.

(* non-vacuity: a concrete table, heap and call; the call succeeds, allocates,
   and the receiver's cell is literally unchanged *)
Definition ex_ct : ctable :=
  [mkcls 2 [mkattr 1 TInt (VInt 3) None 2 true false None None [];
            mkattr 50 (TList TInt) VMissing (Some (FacList [])) 2 true false None (Some (FAddInt 10)) []]
         false false None [2] 2 [] None None].
Definition ex_state : state :=
  mkst [OInst 2 [(1, VInt 3); (50, VRef 1)]; OList [VInt 1]; OList [VInt 5]] 0 None.
Definition ex_call : op :=
  OpHelper 0 (HWith 50) (mkh [VRef 2] false true VMissing false None None [] None).

Example C01_nonvacuous :
  no_dnc_classes ex_ct /\
  let '(r, s') := step ex_ct [VRef 0] ex_call ex_state in
  r = Ok (VRef 4) /\ length (heap s') = 6 /\
  nth_error (heap s') 0 = nth_error (heap ex_state) 0 /\
  nth_error (heap s') 2 = Some (OList [VInt 5]) /\
  nth_error (heap s') 3 = Some (OList [VInt 15]) /\
  nth_error (heap s') 4 = Some (OInst 2 [(1, VInt 3); (50, VRef 3)]).
Proof.
  split.
  - intros c k H. unfold lookup_cls in H. apply find_some in H. destruct H as [Hin _].
    simpl in Hin. destruct Hin as [<-|[]]. reflexivity.
  - vm_compute. repeat split; reflexivity.
Qed.

Print Assumptions C01_cow_call_writes_no_existing_cell.
Print Assumptions C01_deepcopy_writes_no_existing_cell.
Print Assumptions C01_pre_existing_object_graph_unchanged.
Print Assumptions C01_core_respects_watermark.
Print Assumptions C01_nonvacuous.
