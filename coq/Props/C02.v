(* C02 — derived copies share no mutable state with the original
   (do_not_copy excepted).
   Model: coq/Inst/Model.v; proofs: coq/Inst/SepProofs.v (separation judgement
   `sep`, one lemma per model function, reachability lemma).

   Reading of the statements.  `reach h r l`: object l is reachable from
   object r in heap h (through list / dict / set elements and instance
   attributes; every heap object is mutable).  A location >= length (heap s)
   did not exist when the call began ("fresh").  The exemptions of the
   property are: objects reachable from what the caller handed to the call
   (`arg_loc`), and objects reachable from the value held by a do_not_copy
   attribute of some existing instance (`dnc_value`).  One more disjunct is
   needed for the helpers: objects reachable from a class-level default object
   (`dflt_loc`) — update_<attr> / transform_<attr> read the attribute with
   getattr(obj, name, MISSING), which falls back to the class attribute when
   the instance holds nothing (a state the API does not produce; for
   do_not_copy attributes that value is not copied).  Class-level defaults are
   never part of the receiver (C08_defaults_isolated), so this disjunct does
   not concern sharing with the receiver.

   Guards (exact): no do_not_copy=True CLASSES (`no_dnc_classes`); no plain
   subclasses in the table (`own_metadata`: every class uses its own
   metadata); callbacks and default factories of the table and the
   transforms of the call embed no heap references (`scalar_table`,
   `fns_scalar`: "transforms that return new objects"); the top-level
   transform() is not the shallow `lambda x: x + [v]` (`plain_top_transform`;
   it would be applied to the receiver itself).  Identity transforms are
   allowed everywhere since /repo 44d0301 (update_/transform_<attr> work on a
   copy of the current value). *)
From Coq Require Import List ZArith Bool Arith.
From SC Require Import Base.Res Inst.Heap Inst.ClassTable Inst.Model Inst.Framed Inst.FrameProofs
  Inst.Reach Inst.SepProofs Inst.SepDnc Props.C01.
Import ListNotations.
Open Scope nat_scope.

Definition own_metadata (ct : ctable) : Prop :=
  forall c k, lookup_cls ct c = Some k -> c_owner k = c.

Theorem C02_result_separated :
  forall ct, no_dnc_classes ct -> own_metadata ct -> scalar_table ct ->
  forall s l hp h r' s',
    h_inplace h = false -> fns_scalar h -> plain_top_transform hp h ->
    run_helper ct l hp h s = (Ok (VRef r'), s') ->
    r' = l \/                                            (* no-op forms return the receiver itself *)
    forall l', reach (heap s') r' l' ->
      length (heap s) <= l'                               (* fresh *)
      \/ exists l0, (arg_loc h l0                         (* handed in by the caller *)
                     \/ dnc_value ct (heap s) l0          (* value of a do_not_copy attribute *)
                     \/ dflt_loc ct l0)                   (* class-level default (see above) *)
                    /\ reach (heap s) l0 l'.
Proof. intros ct H1 H2 H3. exact (helper_separated ct H1 H2 H3). Qed.

Theorem C02_deepcopy_separated :
  forall ct, no_dnc_classes ct -> scalar_table ct ->
  forall s l r' s',
    deepcopy ct (VRef l) s = (Ok (VRef r'), s') ->
    length (heap s) <= r' /\
    forall l', reach (heap s') r' l' ->
      length (heap s) <= l' \/ exists l0, dnc_value ct (heap s) l0 /\ reach (heap s) l0 l'.
Proof. intros ct H1 H3. exact (deepcopy_separated ct H1 H3). Qed.

(* the receiver's own cells are old; hence a fresh cell of the result is not a
   cell of the receiver, and (C01) the call wrote no cell of the receiver *)
Corollary C02_result_and_receiver_meet_only_in_exempt_objects :
  forall ct, no_dnc_classes ct -> own_metadata ct -> scalar_table ct ->
  forall s l hp h r' s',
    h_inplace h = false -> fns_scalar h -> plain_top_transform hp h ->
    run_helper ct l hp h s = (Ok (VRef r'), s') -> r' <> l ->
    forall l', reach (heap s') r' l' -> l' < length (heap s) ->
      exists l0, (arg_loc h l0 \/ dnc_value ct (heap s) l0 \/ dflt_loc ct l0) /\ reach (heap s) l0 l'.
Proof.
  intros ct H1 H2 H3 s l hp h r' s' Hin Hf Hp Hrun Hne l' Hr Hlt.
  destruct (helper_separated ct H1 H2 H3 s l hp h r' s' Hin Hf Hp Hrun) as [E|H]; [contradiction|].
  destruct (H l' Hr) as [Hge|Hex]; [|exact Hex]. exfalso. apply (Nat.lt_irrefl l'). eapply Nat.lt_le_trans; eauto.
Qed.

(* do_not_copy attributes are carried into the copy by identity: the copy has the
   same attribute names in the same order, and every attribute declared
   do_not_copy holds the very same value (reference) as in the original *)
Theorem C02_dnc_by_identity :
  forall ct, no_dnc_classes ct ->
  forall s l c d k r' s',
    nth_error (heap s) l = Some (OInst c d) -> lookup_cls ct c = Some k ->
    deepcopy ct (VRef l) s = (Ok (VRef r'), s') ->
    exists d', nth_error (heap s') r' = Some (OInst c d') /\
               Forall2 (fun p p' => fst p' = fst p /\
                                    forall sp, lookup_attr k (fst p) = Some sp -> a_dnc sp = true -> snd p' = snd p)
                       d d'.
Proof. intros ct H. exact (deepcopy_carries_dnc ct H). Qed.

(* non-vacuity: nested instance copied, do_not_copy list (cell 3) carried by
   identity, the caller's list (cell 4) stored by identity, everything else fresh *)
Definition ex_ct : ctable :=
  [mkcls 1 [mkattr 1 TInt (VInt 0) None 1 true false None None []] false false None [1] 1 [] None None;
   mkcls 2 [mkattr 4 (TSpec 1) VMissing None 2 true false None None [];
            mkattr 50 (TList TInt) VMissing (Some (FacList [])) 2 true false None None [];
            mkattr 9 (TList TInt) VMissing None 2 true true None None []]
         false false None [2] 2 [] None None].
Definition ex_state : state :=
  mkst [OInst 2 [(4, VRef 1); (50, VRef 2); (9, VRef 3)]; OInst 1 [(1, VInt 5)];
        OList [VInt 1]; OList [VInt 7]; OList [VInt 9]] 0 None.
Definition ex_h : hargs := mkh [VRef 4] false true VMissing false None None [] None.

Example C02_nonvacuous :
  fns_scalar ex_h /\ arg_loc ex_h 4 /\
  (let '(r, s') := run_helper ex_ct 0 (HWith 50) ex_h ex_state in
   r = Ok (VRef 5) /\
   skipn 5 (heap s') = [OInst 2 [(4, VRef 6); (50, VRef 4); (9, VRef 3)]; OInst 1 [(1, VInt 5)]; OList [VInt 1]]) /\
  (let '(r, s') := deepcopy ex_ct (VRef 0) ex_state in
   r = Ok (VRef 5) /\
   skipn 5 (heap s') = [OInst 2 [(4, VRef 6); (50, VRef 7); (9, VRef 3)]; OInst 1 [(1, VInt 5)]; OList [VInt 1]]).
Proof.
  split; [split; [exact I|constructor]|]. split; [left; simpl; auto|].
  split; vm_compute; split; reflexivity.
Qed.

Example C02_example_table_meets_the_guards :
  no_dnc_classes ex_ct /\ own_metadata ex_ct /\ scalar_table ex_ct.
Proof.
  split; [|split].
  - intros c k H. unfold lookup_cls in H. apply find_some in H. destruct H as [Hin _].
    simpl in Hin. destruct Hin as [<-|[<-|[]]]; reflexivity.
  - intros c k H. unfold lookup_cls in H. apply find_some in H. destruct H as [Hin Hc].
    simpl in Hin. destruct Hin as [<-|[<-|[]]]; apply Nat.eqb_eq in Hc; simpl in Hc; subst; reflexivity.
  - intros k Hin. simpl in Hin. destruct Hin as [<-|[<-|[]]]; simpl; (split; [|split; exact I]);
      intros sp Hsp; simpl in Hsp;
      repeat (destruct Hsp as [<-|Hsp]; [simpl; repeat split; auto; constructor|]); destruct Hsp.
Qed.

Print Assumptions C02_result_separated.
Print Assumptions C02_deepcopy_separated.
Print Assumptions C02_result_and_receiver_meet_only_in_exempt_objects.
Print Assumptions C02_dnc_by_identity.
Print Assumptions C02_nonvacuous.
Print Assumptions C02_example_table_meets_the_guards.
