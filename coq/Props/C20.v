(* C20 property theorems (under construction) *)
