(* C20 — copying leaves process-global state untouched and is safe across threads.
   Statements only.  Model: Conc/ModulesCopyableModel.v (the context manager
   _modules_copyable of spec_classes/utils/mutation.py at source-line
   granularity, as the code is AFTER the commit `fix: _modules_copyable
   initialises its shared state once`; any number of threads; thread programs
   are arbitrary nestings of copies, with leaves that copy modules, bodies
   aborted by exceptions, handlers, and exceptions injected at the protocol's
   own lines).  Meaning: Conc/ModulesCopyableSpec.v.

   `reachable false safe_abort s0 s`: s is reached from s0 by some interleaving
   of line steps of the fixed code, where an exception injected at a line of the
   protocol itself is honoured at the lines where the protocol has not yet
   written shared state (all of __new__ but its release line; the first two
   lines of __enter__).  Exceptions in the BODY of a copy are unrestricted.
   That an exception at one of the remaining protocol lines breaks the property
   for this and for any other Python context manager is C20_protocol_line_abort_refuted.

   PARTIAL with respect to CPython: pre-emption inside one source line, the
   correctness of threading.Lock/RLock and the atomicity of single dict
   operations under the GIL are assumed, not modelled. *)
From Coq Require Import List ZArith Bool Arith.
From SC Require Import Conc.ModulesCopyableModel Conc.ModulesCopyableSpec
  Conc.ModulesCopyableInv Conc.ModulesCopyableProofs.
Import ListNotations.
Open Scope Z_scope.

(* Whenever no thread is inside or entering/leaving a copy, the dispatch table
   holds for ModuleType exactly what it held initially: a user's registration
   is still there, the library's pass-through entry is gone.  Every number of
   threads, every program (nesting depth, aborted bodies), every interleaving,
   whether or not the singleton existed before. *)
Theorem C20_quiescent_restored : forall user created0 progs s,
  reachable false safe_abort (init_state user created0 progs) s ->
  quiescent (statuses s) ->
  tbl (sh s) = init_entry user.
Proof. exact quiescent_restored. Qed.

(* While some thread is inside a copy, an entry for ModuleType is present. *)
Theorem C20_entry_while_inside : forall user created0 progs s,
  reachable false safe_abort (init_state user created0 progs) s ->
  some_inside (statuses s) ->
  tbl (sh s) <> NoEntry.
Proof. exact entry_while_inside. Qed.

(* Hence no module copy made under the protection of the context manager ever
   raises, in any thread, under any interleaving. *)
Theorem C20_module_copies_succeed : forall user created0 progs s,
  Forall (fun p => guarded_prog p = true) progs ->
  reachable false safe_abort (init_state user created0 progs) s ->
  Forall (fun th => t_fails th = 0%nat) (ths s).
Proof. exact module_copies_succeed. Qed.

(* The reference count is the number of copies in flight (over all threads). *)
Theorem C20_refcount_counts_copies : forall user created0 progs s,
  reachable false safe_abort (init_state user created0 progs) s ->
  rc (sh s) = total (ths s) /\ 0 <= rc (sh s).
Proof. exact refcount_counts_copies. Qed.

(* As long as some thread has not finished, some thread can take a step: the
   two locks never deadlock. *)
Theorem C20_no_deadlock : forall user created0 progs s,
  reachable false safe_abort (init_state user created0 progs) s ->
  (exists t th, nth_error (ths s) t = Some th /\ ~ finished th) ->
  exists t s' lb, step false safe_abort s t = Some (s', lb).
Proof. exact no_deadlock. Qed.

(* non-vacuity: two threads, first use of the singleton; thread 0 is inside a
   nested copy (depth 2), thread 1 is in the middle of __enter__ *)
Example C20_reachable_nontrivial :
  let p := [Try [Nest None [Nest None [Yield; Use true]; Use true]]] in
  let s := run_sched false safe_abort (init_state false false [p; p])
             (repeat 0%nat 27 ++ repeat 1%nat 7) in
  reachable false safe_abort (init_state false false [p; p]) s /\
  statuses s = [Inside; Transit] /\ rc (sh s) = 3 /\ tbl (sh s) = Ours /\
  Forall (fun q => guarded_prog q = true) [p; p].
Proof.
  split; [apply run_sched_reachable; constructor|].
  vm_compute. repeat split; repeat constructor.
Qed.

(* The code as it was BEFORE the fix (__init__ re-run on every use): one
   thread, one copy of a value that contains a nested copy (a list holding a
   spec-class instance): the nested use resets counter and flag, both exits run,
   nothing is in flight — and the pass-through entry is still in the table. *)
Example C20_reinit_refuted :
  let p := [Try [Nest None [Nest None [Use true]]]] in
  exists s, reachable true no_abort (init_state false false [p]) s /\
            quiescent (statuses s) /\ Forall finished (ths s) /\
            tbl (sh s) = Ours /\ init_entry false = NoEntry.
Proof.
  exists (run_sched true no_abort (init_state false false [[Try [Nest None [Nest None [Use true]]]]])
            (repeat 0%nat 60)).
  split; [apply run_sched_reachable; constructor|].
  vm_compute. repeat split; repeat constructor.
Qed.

(* Why injections at the remaining protocol lines are excluded: an exception
   raised instead of the first line of __exit__ (id 17) means __exit__ does
   nothing; the count stays 1 and the entry stays — in the fixed code, and in
   any context manager written in Python. *)
Example C20_protocol_line_abort_refuted :
  let p := [Try [Nest (Some 17%nat) [Use true]]] in
  exists s, reachable false any_abort (init_state false false [p]) s /\
            quiescent (statuses s) /\ Forall finished (ths s) /\
            tbl (sh s) = Ours /\ rc (sh s) = 1.
Proof.
  exists (run_sched false any_abort (init_state false false [[Try [Nest (Some 17%nat) [Use true]]]])
            (repeat 0%nat 60)).
  split; [apply run_sched_reachable; constructor|].
  vm_compute. repeat split; repeat constructor.
Qed.

Print Assumptions C20_quiescent_restored.
Print Assumptions C20_entry_while_inside.
Print Assumptions C20_module_copies_succeed.
Print Assumptions C20_refcount_counts_copies.
Print Assumptions C20_no_deadlock.
Print Assumptions C20_reachable_nontrivial.
Print Assumptions C20_reinit_refuted.
Print Assumptions C20_protocol_line_abort_refuted.
