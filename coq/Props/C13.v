(* C13 — KeyedList is a list with unique keys and a coherent key index.
   Statements only; every proof is one `exact`.  The model is KL/Model.v
   (a transliteration of spec_classes/types/keyed.py:KeyedList and of the
   inherited collections.abc mixins), the specification is KL/Spec.v (a plain
   list).  Items, keys, the key function, ==, and the typed-container check
   are arbitrary. *)
From Coq Require Import List ZArith Bool Permutation.
From SC Require Import Base.Res Base.PyList KL.Model KL.Spec KL.Proofs Corr.KLCorr.
Import ListNotations.
Open Scope Z_scope.

Section C13.
  Context {item K : Type}.
  Variable key : item -> K.
  Variable keqb : K -> K -> bool.
  Variable ieqb : item -> item -> bool.
  Variable valid : item -> bool.
  Variable as_key : item -> option K.
  Variable as_item : K -> option item.
  Hypothesis keqb_eq : forall a b, keqb a b = true <-> a = b.

  Notation run := (run key keqb ieqb valid as_key as_item).
  Notation step := (step key keqb ieqb valid as_key as_item).
  Notation spec_run := (spec_run key keqb ieqb valid as_key as_item).
  Notation Inv := (Inv key).
  Notation out_equiv := (@out_equiv item K).

  (* Every sequence of operations, from every coherent state: each output is
     the plain-list output (dict views up to order), the list content is the
     plain-list content, and the key index stays coherent. *)
  Theorem C13_refines_plain_list : forall ops s,
    Inv s ->
    Forall2 out_equiv (fst (run s ops)) (fst (spec_run (lst s) ops)) /\
    lst (snd (run s ops)) = snd (spec_run (lst s) ops) /\
    Inv (snd (run s ops)) /\
    Forall (out_inv key) (fst (run s ops)).
  Proof. exact (run_refines key keqb ieqb valid as_key as_item keqb_eq). Qed.

  (* An operation that raises leaves {_list; _dict} exactly as it was. *)
  Theorem C13_failed_operation_changes_nothing : forall s o e,
    Inv s -> fst (step s o) = Err e -> snd (step s o) = s.
  Proof. exact (step_atomic key keqb ieqb valid as_key as_item keqb_eq). Qed.

  (* Key access agrees with a linear scan in every reachable state. *)
  Theorem C13_key_access_is_linear_scan : forall ops k,
    let s := snd (run (@empty item K) ops) in
    dict_get keqb k (dct s) = scan key keqb k (lst s) /\
    dict_mem keqb k (dct s) = has_key key keqb k (lst s).
  Proof. exact (reachable_key_access key keqb ieqb valid as_key as_item keqb_eq). Qed.

  (* No two items ever share a key. *)
  Theorem C13_keys_unique : forall ops,
    NoDup (map key (lst (snd (run (@empty item K) ops)))).
  Proof. exact (reachable_keys_unique key keqb ieqb valid as_key as_item keqb_eq). Qed.
End C13.

(* non-vacuity: a concrete non-trivial coherent state *)
Example C13_inv_holds_somewhere :
  Inv key_fst (mk [(1, 0); (2, 5)] [(2, (2, 5)); (1, (1, 0))]).
Proof.
  unfold Inv; simpl. repeat split.
  - repeat constructor; simpl; intuition discriminate.
  - repeat constructor; simpl; intuition discriminate.
  - destruct H as [H|[H|[]]]; inversion H; subst; auto.
  - destruct H as [H|[H|[]]]; inversion H; subst; auto.
  - intros [[H|[H|[]]] E]; subst; simpl; auto.
Qed.

(* regression evidence: the code before `fix: KeyedList.__setitem__ ...`
   (delete, then insert) lost the old item when the new one was rejected *)
Example C13_old_setitem_refuted :
  let s := mk [(1, 0); (2, 0)] [(1, (1, 0)); (2, (2, 0))] in
  exists s', setitem_idx_old key_fst Z.eqb (fun _ => true) s 0 (2, 7) = (Err ValueErr, s')
             /\ s' <> s.
Proof. eexists; split; [vm_compute; reflexivity | discriminate]. Qed.

Print Assumptions C13_refines_plain_list.
Print Assumptions C13_failed_operation_changes_nothing.
Print Assumptions C13_key_access_is_linear_scan.
Print Assumptions C13_keys_unique.
Print Assumptions C13_inv_holds_somewhere.
Print Assumptions C13_old_setitem_refuted.
