(* C15 — the run-time type check accepts a value exactly when it conforms
   structurally, and never raises within the annotation language.
   Statements only.  Specification: Ty/Conforms.v (conforms, in_language,
   subclass).  Model: Ty/CheckType.v (check_type, transliteration of
   spec_classes/utils/type_checking.py:check_type, check_subclass and of
   spec_classes/types/validated.py).  `false` selects the current code,
   `true` the code before the two `fix:` commits.  The meaning `psem` of the
   predicates given to validated() is arbitrary. *)
From Coq Require Import List ZArith Bool.
From SC Require Import Base.Res Ty.Ty Ty.Conforms Ty.Oracle Ty.CheckType Ty.Proofs
  Corr.TyCorr Ty.CorrProofs.
Import ListNotations.
Open Scope Z_scope.

Section C15.
  Variable psem : Z -> val -> res bool.

  (* Every annotation (any depth, in the language or not), every value:
     when the check returns, it returns True exactly for conforming values. *)
  Theorem C15_sound_complete : forall t v b,
    check_type psem false t v = Ok b -> (b = true <-> conforms psem v t).
  Proof. exact (check_type_sound_complete psem). Qed.

  (* Within the annotation language the check never raises. *)
  Theorem C15_total : forall t,
    in_language psem t -> forall v, exists b, check_type psem false t v = Ok b.
  Proof. exact (check_type_total psem). Qed.

  (* Both together: in the language, accepted <-> conforms, rejected <-> not. *)
  Theorem C15_accepts_exactly_the_conforming : forall t v,
    in_language psem t ->
    (check_type psem false t v = Ok true <-> conforms psem v t) /\
    (check_type psem false t v = Ok false <-> ~ conforms psem v t).
  Proof. exact (check_type_decides psem). Qed.

  (* The executable oracle used by the correspondence check IS the specification. *)
  Theorem C15_oracle_is_the_specification : forall t v,
    conformsb psem t v = true <-> conforms psem v t.
  Proof. exact (conformsb_iff psem). Qed.
End C15.

(* The issubclass table of the model (regenerated from the interpreter and
   compared on every run) is exactly the specification's class lattice. *)
Theorem C15_class_table_is_the_lattice : forall a b,
  issub a b = true <-> subclass a b.
Proof. exact issub_iff. Qed.

(* A correspondence case accepted inside the language is a case where the
   implementation did not raise and answered `conforms`. *)
Theorem C15_accepted_case_means_conforms : forall c,
  spec_accepts c = true -> in_languageb ptotal_pool (c_ty c) = true ->
  0 <= c_out c /\ (c_out c = 1 <-> conforms psem_pool (c_val c) (c_ty c)).
Proof. exact spec_accepts_sound. Qed.

(* ---------------------------------------------------------------- non-vacuity *)
(* Dict[str, List[Optional[Tuple[int, bounded(float, gt=0, le=1.5)]]]] | type[int | None]:
   depth 6, in the language, with a conforming and a non-conforming value *)
Definition ex_ty : ty :=
  TUnion UTyping
    [ TDict Typing (TCls CStr)
        (TList Builtin
           (TUnion UTyping
              [ TTuple Typing [TCls CInt; TBounded CFloat None (Some (NInt 0)) (Some (NHalf 3)) None];
                TCls CNoneType ]));
      TType Builtin (TUnion UPep604 [TCls CInt; TNone]) ].
Definition ex_good : val :=
  VDict [ (VStr 1, VList [VTuple [VBool true; VInt 1]; VNone]); (VStr 4, VList []) ].
Definition ex_bad : val :=       (* 0.0 is not > 0: fails at dict value / list item 0 / tuple position 1 *)
  VDict [ (VStr 1, VList [VTuple [VInt 7; VFloat 0]]) ].

Example C15_language_is_inhabited :
  in_language psem_pool ex_ty /\ (depth ex_ty = 6)%nat /\
  check_type psem_pool false ex_ty ex_good = Ok true /\ conforms psem_pool ex_good ex_ty /\
  check_type psem_pool false ex_ty ex_bad = Ok false /\ ~ conforms psem_pool ex_bad ex_ty /\
  check_type psem_pool false ex_ty (VClass CBool) = Ok true.
Proof.
  assert (L : in_language psem_pool ex_ty) by (apply in_languageb_pool_sound; vm_compute; reflexivity).
  split; [exact L|]. split; [reflexivity|].
  split; [vm_compute; reflexivity|].
  split; [apply conformsb_iff; vm_compute; reflexivity|].
  split; [vm_compute; reflexivity|].
  split; [|vm_compute; reflexivity].
  intro H. apply conformsb_iff in H. vm_compute in H. discriminate.
Qed.

(* ---------------------------------------------------------------- interpretation, made explicit *)
(* "equality with a Literal choice" is Python's ==, so True and 1.0 are
   accepted by Literal[1]; zero is an ordinary bound. *)
Example C15_literal_equality_is_python_eq :
  conforms psem_pool (VBool true) (TLit [KInt 1]) /\
  conforms psem_pool (VFloat 2) (TLit [KInt 1]) /\
  ~ conforms psem_pool (VStr 1) (TLit [KBytes 1]) /\
  check_type psem_pool false (TLit [KInt 1]) (VBool true) = Ok true.
Proof.
  split; [apply conformsb_iff; reflexivity|].
  split; [apply conformsb_iff; reflexivity|].
  split; [|reflexivity].
  intro H. apply conformsb_iff in H. discriminate.
Qed.

Example C15_zero_bounds :
  conforms psem_pool (VInt 0) (TBounded CInt (Some (NInt 0)) None None None) /\
  ~ conforms psem_pool (VInt 0) (TBounded CInt None (Some (NInt 0)) None None) /\
  ~ conforms psem_pool (VFloat 0) (TBounded CFloat None None None (Some (NHalf 0))) /\
  check_type psem_pool false (TBounded CFloat None (Some (NInt 0)) None None) (VFloat 0) = Ok false.
Proof.
  split; [apply conformsb_iff; reflexivity|].
  split; [intro H; apply conformsb_iff in H; discriminate|].
  split; [intro H; apply conformsb_iff in H; discriminate|reflexivity].
Qed.

(* ---------------------------------------------------------------- regression evidence *)
(* before `fix: check_type accepts every class for Type[Any]` *)
Example C15_type_any_refuted :
  in_language psem_pool (TType Typing TAny) /\
  conforms psem_pool (VClass CInt) (TType Typing TAny) /\
  check_type psem_pool true (TType Typing TAny) (VClass CInt) = Ok false.
Proof.
  split; [repeat constructor|]. split; [repeat constructor|reflexivity].
Qed.

(* before `fix: check_type reads a literal None annotation as NoneType` *)
Example C15_none_argument_refuted :
  in_language psem_pool (TList Builtin TNone) /\
  check_type psem_pool true (TList Builtin TNone) (VList [VNone]) = Err TypeErr.
Proof. split; [repeat constructor|reflexivity]. Qed.

Print Assumptions C15_sound_complete.
Print Assumptions C15_total.
Print Assumptions C15_accepts_exactly_the_conforming.
Print Assumptions C15_oracle_is_the_specification.
Print Assumptions C15_class_table_is_the_lattice.
Print Assumptions C15_accepted_case_means_conforms.
Print Assumptions C15_language_is_inhabited.
Print Assumptions C15_literal_equality_is_python_eq.
Print Assumptions C15_zero_bounds.
Print Assumptions C15_type_any_refuted.
Print Assumptions C15_none_argument_refuted.
