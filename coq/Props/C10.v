(* C10 — equality, copying and repr are coherent and total.
   Statements only; every proof is one `exact`.  Model: EqRepr/Model.v (transliteration
   of EqMethod.eq, DeepCopyMethod.deepcopy, InitMethod.init (flat) and ReprMethod.repr
   in spec_classes/methods/core.py as of the `fix:` commits d9fc1d7, eb53cc0, 8eda82e,
   with CPython's ==, rich-comparison operand order, getattr fallback and repr recursion
   guard).  Specification: EqRepr/Spec.v.

   Equality theorems speak about values as trees = all ACYCLIC object graphs (plus
   methods bound to their holder).  == on cyclic operands is outside the theorems:
   CPython raises RecursionError there, for plain lists too.  `n` is fuel; every n above
   the sizes of the operands gives the same, non-error answer (C10_eq_total).
   Repr theorems speak about arbitrary heaps, cyclic or not. *)
From Coq Require Import List ZArith Bool Arith Lia.
From SC Require Import Base.Res EqRepr.Model EqRepr.Spec EqRepr.Proofs EqRepr.ReprProofs.
Import ListNotations.

Section C10.
  Variable ct : ctable.              (* any class table: hierarchies, flags, kinds *)
  Hypothesis CT : wf_ct ct.

  (* == never fails on acyclic operands *)
  Theorem C10_eq_total : forall n a b,
    size a + size b < n -> exists r, py_eq ct n a b = Ok r.
  Proof. exact (py_eq_total ct CT). Qed.

  Theorem C10_eq_refl : forall n a,
    wf_field a -> size a + size a < n -> py_eq ct n a a = Ok true.
  Proof. exact (py_eq_refl ct CT). Qed.

  Theorem C10_eq_sym : forall n a b,
    wf_field a -> wf_field b -> size a + size b < n -> py_eq ct n a b = py_eq ct n b a.
  Proof. exact (py_eq_sym ct CT). Qed.

  Theorem C10_eq_trans : forall n a b c,
    wf_field a -> wf_field b -> wf_field c ->
    size a + size b < n -> size b + size c < n -> size a + size c < n ->
    py_eq ct n a b = Ok true -> py_eq ct n b c = Ok true -> py_eq ct n a c = Ok true.
  Proof. exact (py_eq_trans ct CT). Qed.

  (* a != b is the negation of a == b *)
  Theorem C10_ne_negates_eq : forall n a b r,
    py_eq ct n a b = Ok r -> py_ne ct n a b = Ok (negb r).
  Proof. exact (ne_negates_eq ct). Qed.

  (* == computes the specification (same class, all compare-enabled fields equal,
     nothing else), for instances nested at any depth in tuples, lists and dicts *)
  Theorem C10_eq_meets_spec : forall n a b,
    wf_field a -> wf_field b -> size a + size b < n ->
    py_eq ct n a b = Ok (spec_eqb ct n a b).
  Proof. exact (eq_meets_spec ct CT). Qed.

  (* the property text, one level: equal exactly when same class and every
     compare-enabled attribute is equal (missing equals only missing; two bound methods
     are equal fields iff they wrap the same function); compare=False attributes and
     the position or kind of an attribute do not occur in the right-hand side *)
  Theorem C10_eq_iff_attrs : forall n c1 d1 c2 d2,
    wf (VInst c1 d1) -> wf (VInst c2 d2) ->
    size (VInst c1 d1) + size (VInst c2 d2) < S n ->
    (py_eq ct (S n) (VInst c1 d1) (VInst c2 d2) = Ok true <->
     same_class (VInst c1 d1) (VInst c2 d2) /\
     forall a, In a (c_attrs (ct c1)) -> a_compare a = true ->
               field_eq ct n (getattr ct c1 d1 (a_name a)) (getattr ct c2 d2 (a_name a))).
  Proof. exact (eq_iff_attrs ct CT). Qed.

  Theorem C10_missing_only_missing : forall n v,
    py_eq ct (S n) VMissing v = Ok true <-> v = VMissing.
  Proof. exact (missing_only_missing ct). Qed.

  (* an instance of a class and an instance of any other class — its subclasses
     included — are never equal, in either operand order *)
  Theorem C10_eq_same_class : forall n c1 d1 c2 d2,
    py_eq ct n (VInst c1 d1) (VInst c2 d2) = Ok true -> c1 = c2.
  Proof. exact (eq_same_class ct CT). Qed.

  (* copy.deepcopy(x) == x *)
  Theorem C10_deepcopy_eq : forall n x,
    wf_field x -> size (deepcopy ct x) + size x < n ->
    py_eq ct n (deepcopy ct x) x = Ok true.
  Proof. exact (deepcopy_eq ct CT). Qed.

  (* re-constructing x from its own attribute values (keyword arguments a=getattr(x, a)
     for every init-enabled attribute a that x has) gives an instance equal to x, provided
     attributes the constructor does not set were not assigned on x and attributes
     missing on x have no default *)
  Theorem C10_rebuild_eq : forall n c d,
    wf (VInst c d) -> rebuildable ct c d ->
    size (rebuild ct (VInst c d)) + size (VInst c d) < S n ->
    size (VInst c d) + size (VInst c d) < S n ->
    py_eq ct (S n) (rebuild ct (VInst c d)) (VInst c d) = Ok true.
  Proof. exact (rebuild_eq ct CT). Qed.

  (* repr never raises: for every heap (any cycles through lists, tuples, dicts,
     instances, bound methods), any `indent` mode, whatever the length test decides *)
  Theorem C10_repr_total : forall h long n l md c d,
    wf_heap ct h -> nth_error h l = Some (OInst c d) -> repr_fuel h <= n ->
    exists r, repr ct h long n l md = Ok r.
  Proof. intros h long n l md c d W. exact (repr_total ct h long W n l md c d). Qed.

  (* ... and lists exactly the repr-enabled attributes, in declaration order *)
  Theorem C10_repr_names : forall h long n l md c d r,
    nth_error h l = Some (OInst c d) -> repr ct h long n l md = Ok r ->
    repr_names r = spec_repr_names ct c.
  Proof. intros h long n l md c d r. exact (repr_names_exact ct h long true n [] l md c d r). Qed.
End C10.

(* ------------------------------------------------------------------ non-vacuity *)
(* class 0: attrs m (holds methods), x, y (compare=False), z (no default);
   class 1: spec subclass of 0 with one more attribute; class 2: plain subclass of 0 *)
Definition ex_attrs : list attr :=
  [ mkattr 0 true true true false None (Some (CFun 7));
    mkattr 1 true true true false (Some (VInt 1)) None;
    mkattr 2 false false true false (Some (VList [])) None;
    mkattr 3 true true true false None None ].
Definition ex_ct : ctable := fun c =>
  match c with
  | 0 => mkcls [] ex_attrs false false None
  | 1 => mkcls [0] (ex_attrs ++ [mkattr 4 true true true false (Some VNone) None]) false false None
  | 2 => mkcls [0] ex_attrs false false None
  | _ => mkcls [] [] false false None
  end.

Example C10_ex_ct_wf : wf_ct ex_ct.
Proof.
  intro c. destruct c as [|[|[|c]]]; simpl;
    (split; [intros c' I; simpl in I; intuition lia|]);
    (split; [repeat constructor; simpl; intuition discriminate|]);
    split; intros a v I E; simpl in I;
      repeat (destruct I as [I|I]; [subst a; simpl in E; inversion E; subst; try reflexivity; repeat constructor|]);
      try contradiction.
Qed.

(* a: m = method bound to a itself, x = 1, y = [1], z missing;
   b: the same but y = [] (compare=False) : equal.  c: differs in x only: unequal.
   s: instance of the subclass with the same attribute values: unequal both ways. *)
Definition ex_a := VInst 0 [(0, VMeth 7 true); (1, VInt 1); (2, VList [VInt 1])].
Definition ex_b := VInst 0 [(1, VBool true); (2, VList [])].
Definition ex_c := VInst 0 [(0, VMeth 7 true); (1, VInt 2); (2, VList [VInt 1])].
Definition ex_s := VInst 1 [(0, VMeth 7 true); (1, VInt 1); (2, VList [VInt 1])].

Example C10_ex_values_wf : wf ex_a /\ wf ex_b /\ wf ex_c /\ wf ex_s.
Proof.
  repeat split; constructor; repeat constructor; simpl; auto;
    right; repeat constructor.
Qed.

Example C10_ex_eq :
  py_eq ex_ct 20 ex_a ex_b = Ok true /\ py_eq ex_ct 20 ex_b ex_a = Ok true /\
  py_eq ex_ct 20 ex_a ex_c = Ok false /\
  py_eq ex_ct 20 ex_a ex_s = Ok false /\ py_eq ex_ct 20 ex_s ex_a = Ok false /\
  py_eq ex_ct 20 (deepcopy ex_ct ex_a) ex_a = Ok true /\
  py_eq ex_ct 20 (rebuild ex_ct ex_a) ex_a = Ok true.
Proof. vm_compute. repeat split. Qed.

(* regression evidence: EqMethod.eq before `fix: __eq__ keeps comparing ...` returned at
   the first pair of bound methods — ex_a and ex_c (x = 1 vs x = 2) compared equal,
   although the specification says they differ *)
Example C10_eq_old_refuted :
  py_eq_old ex_ct 20 ex_a ex_c = Ok true /\ spec_eq ex_ct ex_a ex_c = false.
Proof. vm_compute. split; reflexivity. Qed.

(* DeepCopyMethod.deepcopy before `fix: __deepcopy__ re-binds ...` dropped the attribute
   holding a method bound to the instance; with a class that has no function `m` of its
   own the copy is unequal to the original *)
Definition ex_ct2 : ctable := fun _ =>
  mkcls [] [mkattr 0 true true true false None None; mkattr 1 true true true false None None]
        false false None.
Definition ex_d := VInst 0 [(0, VMeth 7 true); (1, VInt 1)].
Example C10_deepcopy_old_refuted :
  py_eq ex_ct2 20 (deepcopy_old ex_ct2 ex_d) ex_d = Ok false /\
  py_eq ex_ct2 20 (deepcopy ex_ct2 ex_d) ex_d = Ok true.
Proof. vm_compute. split; reflexivity. Qed.

(* ReprMethod.repr before `fix: indented __repr__ ...`: x.a = l, l = [l]; the indented
   rendering has no answer for any fuel (RecursionError); today it has one *)
Example C10_repr_old_refuted : forall long n,
  repr_old ct_demo heap_demo long n 0 MTrue = Err Fuel.
Proof. exact old_repr_diverges. Qed.

Example C10_repr_cyclic_ok :
  repr ct_demo heap_demo (fun _ _ => true) (repr_fuel heap_demo) 0 MNone
    = Ok (RFull 0 true [(0, RSeq [RCycle])]) /\
  (* x.a = x ; x.b = [x] *)
  repr (fun _ => mkcls [] [mkattr 0 true true true false None None;
                           mkattr 1 true false true false None None;
                           mkattr 2 true true true false None None] false false None)
       [OInst 0 [(0, HRef 0); (1, HLeaf)]; OList [HRef 0]] (fun _ _ => false) 40 0 MNone
    = Ok (RFull 0 false [(0, RSelf); (2, RMissing)]).
Proof. vm_compute. split; reflexivity. Qed.

Print Assumptions C10_eq_total.
Print Assumptions C10_eq_refl.
Print Assumptions C10_eq_sym.
Print Assumptions C10_eq_trans.
Print Assumptions C10_ne_negates_eq.
Print Assumptions C10_eq_meets_spec.
Print Assumptions C10_eq_iff_attrs.
Print Assumptions C10_missing_only_missing.
Print Assumptions C10_eq_same_class.
Print Assumptions C10_deepcopy_eq.
Print Assumptions C10_rebuild_eq.
Print Assumptions C10_repr_total.
Print Assumptions C10_repr_names.
Print Assumptions C10_ex_ct_wf.
Print Assumptions C10_ex_values_wf.
Print Assumptions C10_ex_eq.
Print Assumptions C10_eq_old_refuted.
Print Assumptions C10_deepcopy_old_refuted.
Print Assumptions C10_repr_old_refuted.
Print Assumptions C10_repr_cyclic_ok.
