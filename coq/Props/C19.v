(* C19 — lazy bootstrapping equals eager bootstrapping under every thread interleaving.
   Statements only.  Model: Conc/BootstrapModel.v (the protocol skeleton of
   spec_class.__call__ / the metadata placeholders / bootstrap / build_attr_spec /
   the __new__ wrapper; one step = one access to shared state), `run true` is the
   code after the fix (commit 4091aa5: lock + re-check), `run false` the code
   before it.  Specification: Conc/BootstrapSpec.v (seq_meta = the eager sequential
   metadata; good_obs = what a finished thread must have seen).
   Granularity (partial): an atomic step is a source line / one class-dictionary
   access; pre-emption inside a line at bytecode level, the correctness of
   threading.RLock and the GIL's atomicity of single dictionary writes are assumed. *)
From Coq Require Import List Arith Bool.
From SC Require Import Conc.BootstrapModel Conc.BootstrapSpec Conc.BootstrapProofs Conc.BootstrapTerm.
Import ListNotations.

(* For every class table, ANY number of threads each performing any first use
   (instantiation, __spec_class__ or __dataclass_fields__ lookup, on any class of
   the chain: the class itself, a subclass, a parent first) and EVERY schedule:
   every thread that has finished observed the eager sequential metadata, no
   exception, and - if it built an instance - a class whose generated methods were
   all registered; a finished thread always has an observation; whatever is
   published is the sequential metadata; no bootstrap body is entered twice. *)
Theorem C19_guarded_every_interleaving : forall ct ts sched,
  wf_table ct -> fresh_threads ct ts ->
  let r := run true ct sched (init_state ct ts) in
  (forall i t o, nth_error (threads (fst r)) i = Some t -> t_obs t = Some o -> good_obs ct t o) /\
  (forall i t, nth_error (threads (fst r)) i = Some t -> t_ph t = Done -> exists o, t_obs t = Some o) /\
  (forall c m, c < length ct -> pub (getc c (classes (fst r))) = Some m -> m = seq_meta ct c) /\
  (forall c, count_enter c (snd r) <= 1).
Proof. exact guarded_safe. Qed.

(* Exactly once: the bootstrap body of every class whose metadata is visible - in particular
   of the class used by any finished thread, whatever its trigger - was entered exactly once. *)
Theorem C19_body_exactly_once : forall ct ts sched,
  wf_table ct -> fresh_threads ct ts ->
  let r := run true ct sched (init_state ct ts) in
  (forall c, c < length ct -> pub (getc c (classes (fst r))) <> None -> count_enter c (snd r) = 1) /\
  (forall i t, nth_error (threads (fst r)) i = Some t -> t_ph t = Done ->
               count_enter (t_tgt t) (snd r) = 1).
Proof. exact guarded_exactly_once. Qed.

(* No reachable state is a deadlock: while some thread is unfinished, some thread can move. *)
Theorem C19_no_deadlock : forall ct ts sched,
  wf_table ct -> fresh_threads ct ts ->
  let s := fst (run true ct sched (init_state ct ts)) in
  (exists i t, nth_error (threads s) i = Some t /\ t_ph t <> Done) ->
  exists i, step true ct i s <> None.
Proof. exact guarded_progress. Qed.

(* No livelock: whatever the schedule, the threads together make at most Phi moves, a number
   fixed by the class table and the uses (every move strictly decreases a potential). *)
Theorem C19_no_livelock : forall ct ts sched,
  wf_table ct -> fresh_threads ct ts ->
  length (snd (run true ct sched (init_state ct ts))) <= Phi ct (init_state ct ts).
Proof. exact guarded_moves_bounded. Qed.

(* Every reachable state can be run to completion: all threads return. *)
Theorem C19_can_always_finish : forall ct ts sched,
  wf_table ct -> fresh_threads ct ts ->
  let s := fst (run true ct sched (init_state ct ts)) in
  exists more, forallb is_done (threads (fst (run true ct more s))) = true.
Proof. exact guarded_can_finish. Qed.

(* Trigger independence: two finished first uses of the same class, of whatever kind and
   in whatever order or interleaving with uses of parents / subclasses, saw the same
   metadata: the eager one. *)
Theorem C19_trigger_independent : forall ct ts sched,
  wf_table ct -> fresh_threads ct ts ->
  let r := run true ct sched (init_state ct ts) in
  forall i j ti tj oi oj,
    nth_error (threads (fst r)) i = Some ti -> nth_error (threads (fst r)) j = Some tj ->
    t_obs ti = Some oi -> t_obs tj = Some oj -> t_tgt ti = t_tgt tj ->
    o_meta oi = o_meta oj /\ o_meta oi = Some (seq_meta ct (t_tgt ti)).
Proof. exact trigger_independent. Qed.

(* Removing __new__ wrappers (any subset, any chain of user-defined / inherited __new__)
   leaves the __new__ that builds instances the one of the eagerly decorated classes. *)
Theorem C19_wrapper_removal_restores_new : forall es mask,
  resolve_new (lazy_chain es mask) = resolve_new (map eager es).
Proof. exact wrapper_transparent. Qed.

(* non-vacuity: each trigger kind alone (instantiate / __spec_class__ / __dataclass_fields__,
   through the subclass or the parent) finishes and runs each body exactly once *)
Example C19_every_trigger_finishes_once :
  wf_table ct_two /\
  forallb (fun u => finishes_once (fst (fst u)) (snd (fst u)) (snd u))
    [(true, false, 1); (false, false, 1); (false, true, 1); (true, false, 0); (false, false, 0); (false, true, 0)] = true.
Proof. split; [exact ct_two_wf|exact every_trigger_finishes]. Qed.

(* non-vacuity: three threads interleaved round-robin all finish; both bodies ran once *)
Example C19_three_threads_finish :
  let ts := [start true false 1; start false true 1; start false false 0] in
  let r := run true ct_two (flat_map (fun _ => [0; 1; 2]) (seq 0 90)) (init_state ct_two ts) in
  forallb (fun t => match t_ph t with Done => true | _ => false end) (threads (fst r)) = true /\
  count_enter 0 (snd r) = 1 /\ count_enter 1 (snd r) = 1.
Proof. exact three_threads_finish. Qed.

(* The code before the fix (no lock, no re-check): a schedule in which the second thread
   enters the body, reads the Attr declaration the first thread has already consumed, and
   publishes metadata without default_factory / init / repr / compare. *)
Example C19_unguarded_refuted :
  let r := run false ct_race sched_race (init_state ct_race ts_race) in
  count_enter 0 (snd r) = 2 /\
  (exists t o, nth_error (threads (fst r)) 1 = Some t /\ t_ph t = Done /\ t_obs t = Some o /\
               ~ good_obs ct_race t o) /\
  pub (getc 0 (classes (fst r))) = Some (mkM [(0, mkA 0 DNone true true true)] None false) /\
  seq_meta ct_race 0 = mkM [(0, mkA 0 DFactory false false false)] None false.
Proof. exact unguarded_refuted. Qed.

(* ... and the same schedule under the guarded protocol *)
Example C19_same_schedule_guarded :
  let r := run true ct_race sched_race (init_state ct_race ts_race) in
  count_enter 0 (snd r) = 1 /\ pub (getc 0 (classes (fst r))) = Some (seq_meta ct_race 0).
Proof. exact guarded_same_schedule. Qed.

Print Assumptions C19_guarded_every_interleaving.
Print Assumptions C19_body_exactly_once.
Print Assumptions C19_no_deadlock.
Print Assumptions C19_no_livelock.
Print Assumptions C19_can_always_finish.
Print Assumptions C19_trigger_independent.
Print Assumptions C19_wrapper_removal_restores_new.
Print Assumptions C19_every_trigger_finishes_once.
Print Assumptions C19_three_threads_finish.
Print Assumptions C19_unguarded_refuted.
Print Assumptions C19_same_schedule_guarded.
