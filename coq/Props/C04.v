(* C04 — an operation that raises leaves every pre-existing object unchanged.
   Model: coq/Inst/Model.v.

   Full statement (C04_atomic): for every operation op, class table, heap,
   argument vector and callback failure point,
       step ct roots op s = (Err e, s')  ->  frame (length (heap s)) s s'.
   It is FALSE of the code as it is: see C04_multi_keyword_inplace_update_refuted
   (recorded in KNOWN_FINDINGS.json: update/transform(_inplace=True) with two or
   more keywords commits the earlier ones before a later one fails).

   Proved (C04_atomic_partial), for every class table without do_not_copy=True
   classes, every heap, arguments, callback failure point and error:
   * every constructor call, every helper call without _inplace=True and every
     deepcopy — whether it raises or not — writes no pre-existing cell;
   * every in-place operation on a frozen instance writes no pre-existing cell.
   * obj.a = v, del obj.a, and every attribute-level and element-level helper called with
     _inplace=True (with_/update_/transform_/reset_<attr>, with_/update_/
     transform_/without_<item> on list, dict and set attributes), on any
     instance, frozen or not, when nothing is invalidated by the attribute: an
     exception leaves every pre-existing cell unchanged (everything before the
     first write to an old cell only allocates; the collection write is the last
     step of its phase that can fail; the final mutate_attr cannot fail).
   * the top-level update(a=v, _inplace=True) and transform(a=f, _inplace=True)
     with exactly one keyword, under the same condition.
   Not proved (correspondence and the C04 oracle only): in-place operations on
   attributes that have dependants (invalidation follows the write), and the
   top-level update/transform with two or more keywords and reset(_inplace=True),
   for which the statement is false (see the refutation below and
   KNOWN_FINDINGS.json). *)
From Coq Require Import List ZArith Bool Arith.
From SC Require Import Base.Res Inst.Heap Inst.ClassTable Inst.Model Inst.Framed Inst.FrameProofs
  Inst.FrozenProofs Inst.AtomicProofs Inst.AtomicElem Inst.AtomicTop Props.C01 Props.C07.
Import ListNotations.
Open Scope nat_scope.

Theorem C04_atomic_partial_cow_and_constructors :
  forall ct, no_dnc_classes ct ->
  forall roots o s e,
    cow_op o = true ->
    fst (step ct roots o s) = Err e ->
    frame (length (heap s)) s (snd (step ct roots o s)).
Proof.
  intros ct Hct roots o s e Hop _.
  exact (framed_run _ _ _ s (step_framed ct Hct (length (heap s)) roots o Hop) (le_n _)).
Qed.

Theorem C04_atomic_partial_frozen_inplace :
  forall ct, no_dnc_classes ct ->
  forall roots o s l e,
    inplace_op o -> nth (target o) roots VNone = VRef l ->
    l < length (heap s) -> frozen_at ct l s ->
    fst (step ct roots o s) = Err e ->
    frame (length (heap s)) s (snd (step ct roots o s)).
Proof.
  intros. eapply C07_inplace_operation_on_frozen_instance_writes_nothing; eauto.
Qed.

(* the constructor: a failed construction leaves the arguments untouched;
   a successful one returns a cell allocated by the call *)
Theorem C04_constructor_result_is_fresh :
  forall ct, no_dnc_classes ct ->
  forall c pos kw s,
    match fst (exec ct XFUEL (KConstruct c pos kw) s) with
    | Ok v => freshv (length (heap s)) v
    | Err _ => True
    end.
Proof.
  intros ct Hct c pos kw s.
  exact (proj2 (exec_framed ct Hct (length (heap s)) XFUEL (KConstruct c pos kw) I s (le_n _))).
Qed.

(* in-place assignment on ANY instance (frozen or not): when nothing is
   invalidated by the attribute, an exception leaves every pre-existing cell
   unchanged (everything before the single write only allocates; the write is
   the last thing that can happen).  With dependants the resets performed by
   invalidation follow the write; that case is covered by the correspondence. *)
Theorem C04_atomic_partial_assignment :
  forall ct, no_dnc_classes ct ->
  forall roots x a v s l c d k e,
    nth x roots VNone = VRef l -> l < length (heap s) ->
    nth_error (heap s) l = Some (OInst c d) -> lookup_cls ct c = Some k ->
    no_dependants k a ->
    fst (step ct roots (OpSetAttr x a v) s) = Err e ->
    frame (length (heap s)) s (snd (step ct roots (OpSetAttr x a v) s)).
Proof. intros ct Hct. intros. eapply setattr_op_err_frame; eauto. Qed.

Theorem C04_atomic_partial_inplace_with :
  forall ct, no_dnc_classes ct ->
  forall roots x a h s l c d k sp e,
    nth x roots VNone = VRef l -> l < length (heap s) ->
    nth_error (heap s) l = Some (OInst c d) -> lookup_cls ct c = Some k ->
    lookup_attr k a = Some sp -> a_name sp = a -> no_dependants k a ->
    h_inplace h = true -> h_if h = true ->
    fst (step ct roots (OpHelper x (HWith a) h) s) = Err e ->
    frame (length (heap s)) s (snd (step ct roots (OpHelper x (HWith a) h) s)).
Proof. intros ct Hct. intros. eapply inplace_with_op_err_frame; eauto. Qed.

(* del obj.a (restores the prepared default, or removes the attribute) *)
Theorem C04_atomic_partial_deletion :
  forall ct, no_dnc_classes ct ->
  forall roots x a s l c d k e,
    nth x roots VNone = VRef l -> l < length (heap s) ->
    nth_error (heap s) l = Some (OInst c d) -> lookup_cls ct c = Some k ->
    no_dependants k a ->
    fst (step ct roots (OpDelAttr x a) s) = Err e ->
    frame (length (heap s)) s (snd (step ct roots (OpDelAttr x a) s)).
Proof. intros ct Hct. intros. eapply delattr_op_err_frame; eauto. Qed.

(* every attribute-level / element-level helper with _inplace=True *)
Theorem C04_atomic_partial_inplace_attribute_and_element_helpers :
  forall ct, no_dnc_classes ct ->
  forall roots x hp a h s l c d k e,
    inplace_attr_helper hp = Some a ->
    nth x roots VNone = VRef l -> l < length (heap s) ->
    nth_error (heap s) l = Some (OInst c d) -> lookup_cls ct c = Some k ->
    no_dependants k a -> h_inplace h = true ->
    fst (step ct roots (OpHelper x hp h) s) = Err e ->
    frame (length (heap s)) s (snd (step ct roots (OpHelper x hp h) s)).
Proof. intros ct Hct. intros. eapply inplace_attr_helper_op_err_frame; eauto. Qed.

(* top-level update / transform with _inplace=True and exactly ONE keyword
   (with two or more the statement is false: see the refutation below) *)
Theorem C04_atomic_partial_inplace_update_single_keyword :
  forall ct, no_dnc_classes ct ->
  forall roots x a v h s l c d k e,
    nth x roots VNone = VRef l -> l < length (heap s) ->
    nth_error (heap s) l = Some (OInst c d) -> lookup_cls ct c = Some k ->
    no_dependants k a ->
    h_inplace h = true -> h_pos h = [] -> h_kw h = Some [(a, v)] ->
    fst (step ct roots (OpHelper x HUpdateTop h) s) = Err e ->
    frame (length (heap s)) s (snd (step ct roots (OpHelper x HUpdateTop h) s)).
Proof. intros ct Hct. intros. eapply inplace_update_top_single_op_err_frame; eauto. Qed.

Theorem C04_atomic_partial_inplace_transform_single_keyword :
  forall ct, no_dnc_classes ct ->
  forall roots x a f h s l c d k e,
    nth x roots VNone = VRef l -> l < length (heap s) ->
    nth_error (heap s) l = Some (OInst c d) -> lookup_cls ct c = Some k ->
    no_dependants k a ->
    h_inplace h = true -> h_fn h = None -> h_kwfn h = [(a, f)] ->
    fst (step ct roots (OpHelper x HTransformTop h) s) = Err e ->
    frame (length (heap s)) s (snd (step ct roots (OpHelper x HTransformTop h) s)).
Proof. intros ct Hct. intros. eapply inplace_transform_top_single_op_err_frame; eauto. Qed.

(* the known finding, as a theorem about the faithful model *)
Definition kf_ct : ctable :=
  [mkcls 1 [mkattr 2 TStr VMissing None 1 true false None None [];
            mkattr 1 TInt (VInt 0) None 1 true false None None []]
         false false None [1] 1 [] None None].
Definition kf_state : state := mkst [OInst 1 [(2, VStr 7); (1, VInt 0)]] 0 None.
Definition kf_call : op :=
  OpHelper 0 HUpdateTop (mkh [] true true VMissing false None (Some [(2, VStr 0); (1, VStr 7)]) [] None).

Example C04_multi_keyword_inplace_update_refuted :
  exists s', step kf_ct [VRef 0] kf_call kf_state = (Err TypeErr, s') /\
             nth_error (heap s') 0 <> nth_error (heap kf_state) 0.
Proof. eexists. split; [vm_compute; reflexivity|]. simpl. discriminate. Qed.

(* non-vacuity of the partial theorem: a failing copy-on-write call *)
Example C04_nonvacuous :
  cow_op (OpHelper 0 (HWith 1) (mkh [VStr 7] false true VMissing false None None [] None)) = true /\
  step kf_ct [VRef 0] (OpHelper 0 (HWith 1) (mkh [VStr 7] false true VMissing false None None [] None)) kf_state
    = (Err TypeErr, kf_state).
Proof. split; vm_compute; reflexivity. Qed.

(* non-vacuity of the in-place element theorem: with_item(_inplace=True) of an
   ill-typed element on a list attribute raises after the item was prepared,
   and the heap is as it was *)
Definition el_ct : ctable :=
  [mkcls 1 [mkattr 1 (TList TInt) VMissing None 1 true false None None []]
         false false None [1] 1 [] None None].
Definition el_state : state := mkst [OList [VInt 1]; OInst 1 [(1, VRef 0)]] 0 None.
Definition el_call : op :=
  OpHelper 0 (HWithItem 1) (mkh [VStr 7] true true VMissing false None None [] None).
Example C04_inplace_element_nonvacuous :
  inplace_attr_helper (HWithItem 1) = Some 1 /\
  (exists k, lookup_cls el_ct 1 = Some k /\ no_dependants k 1) /\
  exists e, step el_ct [VRef 1] el_call el_state = (Err e, el_state).
Proof.
  split; [reflexivity|]. split; [eexists; split; [reflexivity|reflexivity]|].
  eexists. vm_compute. reflexivity.
Qed.

Print Assumptions C04_atomic_partial_cow_and_constructors.
Print Assumptions C04_atomic_partial_frozen_inplace.
Print Assumptions C04_constructor_result_is_fresh.
Print Assumptions C04_atomic_partial_assignment.
Print Assumptions C04_atomic_partial_inplace_with.
Print Assumptions C04_atomic_partial_deletion.
Print Assumptions C04_atomic_partial_inplace_attribute_and_element_helpers.
Print Assumptions C04_atomic_partial_inplace_update_single_keyword.
Print Assumptions C04_atomic_partial_inplace_transform_single_keyword.
Print Assumptions C04_inplace_element_nonvacuous.
Print Assumptions C04_multi_keyword_inplace_update_refuted.
Print Assumptions C04_nonvacuous.
