(* C03 — managed attributes always satisfy their declared type on every
   mutation route.  Model: coq/Inst/Model.v (owned by the instance model);
   proofs: coq/Inst/TypeProofs.v, TypeCopy.v, Own*.v.

   Conformance is the model's executable `check_type FUEL` (its agreement with
   a declarative relation is C15's business).  `check_type` recurses on the
   ANNOTATION, so fuel only bounds annotation depth (FUEL = 64):
   C03_fuel_irrelevant.

   FULL STATEMENT (DESIGN §4 C03), kept here for reference:

     Theorem C03_step_preserves : forall ct roots o s,
       flat_table ct -> defaults_ok ct s -> args_fresh s o ->
       TypeInv ct s -> TypeInv ct (snd (step ct roots o s)).

   where TypeInv covers every managed attribute (collections included) and
   args_fresh says that mutable argument objects are not already held by a
   managed attribute (C03_alias_counterexample shows the statement is false
   without it).  What is proved:
   * C03_step_preserves_partial: the statement for EVERY operation and EVERY
     class table, for the attributes whose annotation has no container
     constructor (int/str/bool/None/Any, nested spec classes, Optional/Union of
     those) — these need neither args_fresh nor defaults_ok — and hence the full
     TypeInv for tables made of such attributes (C03_step_preserves_scalar_tables);
   * for List/Dict/Set attributes: every write route checks first
     (C03_checked_before_stored, C03_bad_value_rejected, C03_bad_element_rejected,
     C03_bad_key_or_value_rejected), each inserter keeps the written cell
     conforming (C03_*_inserter_keeps) and preserves the FULL TypeInv of a flat
     table provided the written cell is viewed only under the attribute's own
     annotation (C03_*_insert_preserves_TypeInv); element removal preserves it
     under every view (C03_remove_preserves_TypeInv); the single instance write
     preserves it when the stored value conforms (C03_store_preserves_TypeInv).
   * with the ownership invariant `Owned` (sections 6-9 below, coq/Inst/Own*.v):
     C03_step_preserves_owned_partial, the statement with TypeInv /\ Owned as
     the invariant for the operations selected by the computable predicate
     owned_opg_b — constructor, assignment, del, with_/update_/transform_/reset_
     helpers, the element helpers of the three collection families, reset(),
     deepcopy; in place and copy-on-write — on leaf attributes (scalar, or
     List/Set/Dict of scalars; preparers quiet callbacks) of flat classes in
     tables without invalidated_by.
   Missing for the full statement: nested spec classes / Any as elements,
   invalidated_by, do_not_copy, inheritance, keyword attributes and attribute
   transforms, top-level update / transform; see docs/C03.md. *)
From Coq Require Import List ZArith Bool Arith.
From SC Require Import Base.Res Base.PyList Inst.Heap Inst.ClassTable Inst.Model Inst.TypeProofs Inst.TypeCopy
  Inst.OwnProofs Inst.OwnProofs2 Inst.OwnProofs3 Inst.OwnColl Inst.OwnCopy Inst.OwnCow Inst.OwnInit Inst.OwnMore Inst.OwnInval Inst.OwnAll Inst.OwnHist.
Import ListNotations.
Open Scope nat_scope.

(* ---------------- 1. checked before stored ---------------- *)
Theorem C03_checked_before_stored :
  forall ct rec s l a v inplace force skip c d k sp r s',
    nth_error (heap s) l = Some (OInst c d) -> lookup_cls ct c = Some k ->
    lookup_attr k a = Some sp -> is_sentinel v = false ->
    mutate_attr ct rec l a v inplace true force skip s = (Ok r, s') ->
    check_type FUEL ct (heap s) v (a_ty sp) = true.
Proof. exact mutate_attr_checked. Qed.

Theorem C03_bad_value_rejected :
  forall ct rec s l a v inplace force skip c d k sp,
    nth_error (heap s) l = Some (OInst c d) -> lookup_cls ct c = Some k ->
    lookup_attr k a = Some sp -> is_sentinel v = false ->
    check_type FUEL ct (heap s) v (a_ty sp) = false ->
    exists e, mutate_attr ct rec l a v inplace true force skip s = (Err e, s)
              /\ (e = TypeErr \/ e = FrozenErr).
Proof. exact mutate_attr_rejects. Qed.

Theorem C03_bad_element_rejected :
  forall ct s sp coll index item,
    check_type FUEL ct (heap s) item (item_type (a_ty sp)) = false ->
    (forall ins, seq_inserter ct sp coll index item ins s = (Err ValueErr, s)) /\
    set_inserter ct sp coll index item s = (Err ValueErr, s).
Proof.
  intros. split; [intro; now apply seq_inserter_rejects|now apply set_inserter_rejects].
Qed.

Theorem C03_bad_key_or_value_rejected :
  forall ct s sp coll key item,
    check_type FUEL ct (heap s) key (key_type (a_ty sp)) = false \/
    check_type FUEL ct (heap s) item (item_type (a_ty sp)) = false ->
    map_inserter ct sp coll key item s = (Err ValueErr, s).
Proof. exact map_inserter_rejects. Qed.

Theorem C03_element_checked_before_stored :
  forall ct s sp coll index item,
    (forall ins u s', seq_inserter ct sp coll index item ins s = (Ok u, s') ->
       check_type FUEL ct (heap s) item (item_type (a_ty sp)) = true) /\
    (forall u s', set_inserter ct sp coll index item s = (Ok u, s') ->
       check_type FUEL ct (heap s) item (item_type (a_ty sp)) = true) /\
    (forall u s', map_inserter ct sp coll index item s = (Ok u, s') ->
       check_type FUEL ct (heap s) index (key_type (a_ty sp)) = true /\
       check_type FUEL ct (heap s) item (item_type (a_ty sp)) = true).
Proof.
  intros. split; [|split]; intros.
  - eapply seq_inserter_checked; eauto.
  - eapply set_inserter_checked; eauto.
  - eapply map_inserter_checked; eauto.
Qed.

(* ---------------- 2. the invariant ---------------- *)
(* every operation, every table: attributes with container-free annotations *)
Theorem C03_step_preserves_partial :
  forall ct roots o s,
    no_reserved_names ct -> op_plain o ->
    TInvP simple ct (heap s) -> TInvP simple ct (heap (snd (step ct roots o s))).
Proof. intros ct roots o s Hr Hp T. apply (step_preserves_TS ct roots o s Hr Hp T). Qed.

(* hence the full invariant for tables made of such attributes *)
Theorem C03_step_preserves_scalar_tables :
  forall ct roots o s,
    all_simple ct -> no_reserved_names ct -> op_plain o ->
    TypeInv ct s -> TypeInv ct (snd (step ct roots o s)).
Proof.
  intros ct roots o s Ha Hr Hp T. apply (TS_all_simple ct _ Ha). apply (TS_all_simple ct _ Ha) in T.
  apply (step_preserves_TS ct roots o s Hr Hp T).
Qed.

(* cells are never dropped and keep their kind and class (used above; also says
   that in-place mutation of a nested instance cannot invalidate a container
   holding it: TSpec only looks at the class) *)
Theorem C03_cells_keep_their_class :
  forall ct roots o s,
    no_reserved_names ct -> op_plain o -> TInvP simple ct (heap s) ->
    ext (heap s) (heap (snd (step ct roots o s))).
Proof. intros ct roots o s Hr Hp T. apply (step_preserves_TS ct roots o s Hr Hp T). Qed.

(* the copy made by deepcopy has the class of the original, so it conforms to
   every container-free annotation the original conforms to *)
Theorem C03_copy_conforms :
  forall ct v s r s' t,
    TInvP simple ct (heap s) -> deepcopy ct v s = (Ok r, s') -> simple t = true ->
    check_type FUEL ct (heap s) v t = true -> check_type FUEL ct (heap s') r t = true.
Proof.
  intros ct v s r s' t T H St C.
  destruct (deepcopy_hoare ct v s I T) as [E [_ R]]. rewrite H in E, R. cbn [fst snd] in E, R.
  eapply rsame_check; eauto. eapply check_simple_ext; eauto.
Qed.

(* ... and to every FLAT annotation (List/Dict/Set of container-free elements):
   the copy is built element by element from copies of the elements *)
Theorem C03_copy_conforms_flat :
  forall ct v s r s' t,
    TInvP simple ct (heap s) -> deepcopy ct v s = (Ok r, s') -> flat t = true ->
    check_type FUEL ct (heap s) v t = true -> check_type FUEL ct (heap s') r t = true.
Proof. intros ct v s r s' t T H Ft C. eapply copy_conforms_flat; eauto. Qed.

(* ---------------- 3. collections: single writes and the full invariant ---------------- *)
Theorem C03_list_inserter_keeps :
  forall ct s sp c index item ins u s' e,
    a_ty sp = TList e -> simple e = true -> shallow (a_ty sp) ->
    check_type FUEL ct (heap s) (VRef c) (TList e) = true ->
    seq_inserter ct sp (VRef c) index item ins s = (Ok u, s') ->
    check_type FUEL ct (heap s') (VRef c) (TList e) = true.
Proof. exact seq_inserter_keeps. Qed.

Theorem C03_dict_inserter_keeps :
  forall ct s sp c key item u s' k e,
    a_ty sp = TDict k e -> simple k = true -> simple e = true -> shallow (a_ty sp) ->
    check_type FUEL ct (heap s) (VRef c) (TDict k e) = true ->
    map_inserter ct sp (VRef c) key item s = (Ok u, s') ->
    check_type FUEL ct (heap s') (VRef c) (TDict k e) = true.
Proof. exact map_inserter_keeps. Qed.

Theorem C03_set_inserter_keeps :
  forall ct s sp c index item u s' e,
    a_ty sp = TSet e -> simple e = true -> shallow (a_ty sp) ->
    check_type FUEL ct (heap s) (VRef c) (TSet e) = true ->
    set_inserter ct sp (VRef c) index item s = (Ok u, s') ->
    check_type FUEL ct (heap s') (VRef c) (TSet e) = true.
Proof. exact set_inserter_keeps. Qed.

Theorem C03_list_insert_preserves_TypeInv :
  forall ct, flat_table ct -> forall s sp c index item ins r s' e,
    a_ty sp = TList e -> simple e = true -> shallow (a_ty sp) ->
    TI ct (heap s) -> check_type FUEL ct (heap s) (VRef c) (TList e) = true ->
    only_view ct (heap s) c (TList e) ->
    seq_inserter ct sp (VRef c) index item ins s = (r, s') -> TI ct (heap s').
Proof. exact seq_inserter_preserves_TI. Qed.

Theorem C03_dict_insert_preserves_TypeInv :
  forall ct, flat_table ct -> forall s sp c key item r s' k e,
    a_ty sp = TDict k e -> simple k = true -> simple e = true -> shallow (a_ty sp) ->
    TI ct (heap s) -> check_type FUEL ct (heap s) (VRef c) (TDict k e) = true ->
    only_view ct (heap s) c (TDict k e) ->
    map_inserter ct sp (VRef c) key item s = (r, s') -> TI ct (heap s').
Proof. exact map_inserter_preserves_TI. Qed.

Theorem C03_set_insert_preserves_TypeInv :
  forall ct, flat_table ct -> forall s sp c index item r s' e,
    a_ty sp = TSet e -> simple e = true -> shallow (a_ty sp) ->
    TI ct (heap s) -> check_type FUEL ct (heap s) (VRef c) (TSet e) = true ->
    only_view ct (heap s) c (TSet e) ->
    set_inserter ct sp (VRef c) index item s = (r, s') -> TI ct (heap s').
Proof. exact set_inserter_preserves_TI. Qed.

Theorem C03_remove_preserves_TypeInv :
  forall ct, flat_table ct -> forall h c,
    TI ct h ->
    (forall xs n, nth_error h c = Some (OList xs) -> TI ct (set_nth c (OList (remove_at n xs)) h)) /\
    (forall xs g, nth_error h c = Some (ODict xs) -> TI ct (set_nth c (ODict (filter g xs)) h)) /\
    (forall xs g, nth_error h c = Some (OSet xs) -> TI ct (set_nth c (OSet (filter g xs)) h)).
Proof.
  intros ct Hf h c T. split; [|split]; intros.
  - eapply TI_shrink_list; eauto. intros; now apply forallb_remove_at.
  - eapply TI_shrink_dict; eauto. intros; now apply forallb_filter.
  - eapply TI_shrink_set; eauto. intros; now apply forallb_filter.
Qed.

Theorem C03_store_preserves_TypeInv :
  forall ct, flat_table ct -> forall s l a v c d r s',
    nth_error (heap s) l = Some (OInst c d) -> TI ct (heap s) ->
    (forall k sp, lookup_cls ct c = Some k -> lookup_attr k a = Some sp ->
                  check_type FUEL ct (heap s) v (a_ty sp) = true) ->
    raw_setattr l a v s = (r, s') -> TI ct (heap s').
Proof. exact raw_setattr_preserves_TI. Qed.

Theorem C03_delete_preserves_TypeInv :
  forall ct, flat_table ct -> forall s l a r s',
    TI ct (heap s) -> raw_delattr l a s = (r, s') -> TI ct (heap s').
Proof. exact raw_delattr_preserves_TI. Qed.

(* ---------------- 4. fuel ---------------- *)
Theorem C03_fuel_irrelevant :
  forall ct h t v f f', ty_depth t < f -> f <= f' ->
    check_type f' ct h v t = check_type f ct h v t.
Proof. intros. now apply check_fuel_mono. Qed.

(* ---------------- 5. non-vacuity ---------------- *)
Definition exA1 := mkattr 1 TInt VMissing None 1 true false None None [].
Definition exA50 := mkattr 50 (TList TInt) VMissing None 1 true false None None [].
Definition exA60 := mkattr 60 (TList TStr) VMissing None 1 true false None None [].
Definition exCT : ctable := [mkcls 1 [exA1; exA50; exA60] false false None [1] 1 [] None None].
Definition exH : list obj := [OInst 1 [(1, VInt 3%Z); (50, VRef 1)]; OList [VInt 1%Z]].
Definition exS := mkst exH 0 None.
Definition exArgs (pos : list val) (inplace : bool) := mkh pos inplace true VMissing false None None [] None.
Definition exRun (ops : list op) (s : state) : state :=
  fold_left (fun s o => snd (step exCT [VRef 0] o s)) ops s.

(* a conforming assignment succeeds and the invariant holds before and after *)
Example C03_conforming_assignment :
  let r := step exCT [VRef 0] (OpSetAttr 0 1 (VInt 5%Z)) exS in
  ti_b exCT exH = true /\ fst r = Ok VNone /\
  heap (snd r) = [OInst 1 [(1, VInt 5%Z); (50, VRef 1)]; OList [VInt 1%Z]] /\
  ti_b exCT (heap (snd r)) = true.
Proof. vm_compute. repeat split. Qed.

(* a conforming element goes in through the copy-on-write helper *)
Example C03_conforming_element :
  let r := step exCT [VRef 0] (OpHelper 0 (HWithItem 50) (exArgs [VInt 7%Z] false)) exS in
  fst r = Ok (VRef 3) /\ nth_error (heap (snd r)) 2 = Some (OList [VInt 1%Z; VInt 7%Z]) /\
  ti_b exCT (heap (snd r)) = true.
Proof. vm_compute. repeat split. Qed.

(* an ill-typed element is rejected with ValueError and the heap is unchanged *)
Example C03_ill_typed_element_rejected :
  let r := step exCT [VRef 0] (OpHelper 0 (HWithItem 50) (exArgs [VStr 7%Z] true)) exS in
  fst r = Err ValueErr /\ heap (snd r) = exH.
Proof. vm_compute. split; reflexivity. Qed.

(* an ill-typed scalar is rejected with TypeError and the heap is unchanged *)
Example C03_ill_typed_value_rejected :
  let r := step exCT [VRef 0] (OpSetAttr 0 1 (VStr 7%Z)) exS in
  fst r = Err TypeErr /\ heap (snd r) = exH.
Proof. vm_compute. split; reflexivity. Qed.

(* why args_fresh is needed: ONE empty list assigned to a List[int] and to a
   List[str] attribute (both assignments are accepted, the invariant still
   holds), then extended in place through the first: the second attribute
   now holds [7] although every check of the library passed *)
Example C03_alias_counterexample :
  let h1 := [OInst 1 [(1, VInt 3%Z)]; OList []] in
  let s2 := exRun [OpSetAttr 0 50 (VRef 1); OpSetAttr 0 60 (VRef 1)] (mkst h1 0 None) in
  let r := step exCT [VRef 0] (OpHelper 0 (HWithItem 50) (exArgs [VInt 7%Z] true)) s2 in
  ti_b exCT (heap s2) = true /\ fst r = Ok (VRef 0) /\
  heap (snd r) = [OInst 1 [(1, VInt 3%Z); (50, VRef 1); (60, VRef 1)]; OList [VInt 7%Z]] /\
  ti_b exCT (heap (snd r)) = false.
Proof. vm_compute. repeat split. Qed.

Corollary C03_full_statement_needs_args_fresh :
  exists ct roots o s, flat_table ct /\ TypeInv ct s /\ ~ TypeInv ct (snd (step ct roots o s)).
Proof.
  exists exCT, [VRef 0], (OpHelper 0 (HWithItem 50) (exArgs [VInt 7%Z] true)),
    (exRun [OpSetAttr 0 50 (VRef 1); OpSetAttr 0 60 (VRef 1)] (mkst [OInst 1 [(1, VInt 3%Z)]; OList []] 0 None)).
  split; [|split].
  - intros c k sp Hk Hi. unfold lookup_cls in Hk. apply find_some in Hk. destruct Hk as [Hin _].
    simpl in Hin. destruct Hin as [<-|[]]. simpl in Hi.
    destruct Hi as [<-|[<-|[<-|[]]]]; reflexivity.
  - apply ti_b_iff. vm_compute. reflexivity.
  - intro H. apply ti_b_iff in H. vm_compute in H. discriminate.
Qed.

(* ---------------- 6. ownership (coq/Inst/OwnProofs.v, OwnProofs2.v) ----------------
   `Owned ct h`: the heap has no dangling reference, instance dicts have unique
   keys, and every container cell held by a managed List/Set/Dict attribute has
   reference count 1 in the whole heap: it is referenced from exactly that
   slot (no second slot, managed or not; no element position).  This is the
   provenance invariant the full statement needs: it discharges `only_view`. *)
Theorem C03_owned_computable : forall ct h, owned_b ct h = true <-> Owned ct h.
Proof. exact owned_b_iff. Qed.

(* a state that satisfies it ... *)
Example C03_owned_example : owned_b exCT exH = true /\ Owned exCT exH /\ ti_b exCT exH = true.
Proof. split; [vm_compute; reflexivity|]. split; [apply owned_b_iff; vm_compute; reflexivity|vm_compute; reflexivity]. Qed.

(* ... and the aliased state of C03_alias_counterexample (one list held by two
   attributes, reached through two accepted assignments) violates it although
   it satisfies the type invariant *)
Example C03_alias_not_owned :
  let s2 := exRun [OpSetAttr 0 50 (VRef 1); OpSetAttr 0 60 (VRef 1)]
                  (mkst [OInst 1 [(1, VInt 3%Z)]; OList []] 0 None) in
  ti_b exCT (heap s2) = true /\ ~ Owned exCT (heap s2).
Proof.
  cbv zeta. split; [vm_compute; reflexivity|]. intro H. apply owned_b_iff in H. vm_compute in H. discriminate.
Qed.

(* under Owned the slot that holds a collection cell is the only view of it:
   the side condition of C03_*_insert_preserves_TypeInv *)
Theorem C03_owned_only_view :
  forall ct h l cl d k a c sp,
    Owned ct h -> nth_error h l = Some (OInst cl d) -> lookup_cls ct cl = Some k ->
    In (a, VRef c) d -> lookup_attr k a = Some sp -> flat_coll (a_ty sp) = true ->
    only_view ct h c (a_ty sp).
Proof. exact Owned_only_view. Qed.

(* the single writes of the library preserve TypeInv /\ Owned (`Inv`): *)
Theorem C03_owned_store :             (* a value nobody references is stored in attribute a *)
  forall ct, flat_table ct -> forall h l cl (d : list (nat * val)) a v,
    Inv ct h -> nth_error h l = Some (OInst cl d) ->
    (forall k sp, lookup_cls ct cl = Some k -> lookup_attr k a = Some sp ->
                  check_type FUEL ct h v (a_ty sp) = true) ->
    loose h v -> Inv ct (set_nth l (OInst cl (assoc_set a v d)) h).
Proof. exact Inv_store. Qed.

Theorem C03_owned_container_write :   (* a container write that adds no reference *)
  forall ct, flat_table ct -> forall h c o0 o,
    Inv ct h -> nth_error h c = Some o0 -> shape o = shape o0 -> shape o0 < 3 ->
    (forall c', orefs c' o <= orefs c' o0) ->
    (forall t, viewed ct h c t -> flat_coll t = true ->
               check_type FUEL ct (set_nth c o h) (VRef c) t = true) ->
    Inv ct (set_nth c o h).
Proof. exact Inv_write_container. Qed.

Theorem C03_owned_delete :
  forall ct, flat_table ct -> forall h l cl (d : list (nat * val)) a,
    Inv ct h -> nth_error h l = Some (OInst cl d) -> Inv ct (set_nth l (OInst cl (assoc_del a d)) h).
Proof. exact Inv_delete. Qed.

(* the recursive mutate_value calls made for leaf collection attributes are quiet:
   they allocate at most one empty collection, for every fuel *)
Theorem C03_mutate_value_quiet :
  forall ct, flat_table ct -> forall fuel m F, astable F -> mv_plain m ->
    T (IF ct F) (exec ct fuel (KMutateValue m)) (fun r h => IF ct F h /\ mv_res m r h) (IF ct F).
Proof. exact exec_mv_quiet. Qed.

(* Whole operations.  A LEAF COLLECTION ATTRIBUTE (leaf_coll) is annotated List[e], Set[e]
   or Dict[k,e] with scalar k, e (int/str/bool/None, Optional/Union of those) and has no
   _prepare_<attr> / _prepare_<item> callback; the table has no invalidated_by
   (no_inval_table).  `loose h v`: v is not a reference, or refers to a cell nobody
   references (args_fresh).  Conforming or not: an ill-typed container is normalised element
   by element into a fresh collection (add_items) and rejected by the inserter; a dict for a
   List attribute, a scalar, another instance ... are handled by the same statement. *)
Theorem C03_setattr_preserves_owned :
  forall ct, flat_table ct -> inval_spec ct -> forall roots x a v s,
    Inv ct (heap s) -> loose (heap s) v ->
    (forall l, nth x roots VNone = VRef l -> recv_leafc ct l a (heap s)) ->
    Inv ct (heap (snd (step ct roots (OpSetAttr x a v) s))).
Proof. exact step_setattr_coll. Qed.

Theorem C03_with_inplace_preserves_owned :
  forall ct, flat_table ct -> inval_spec ct -> forall roots x a hh s,
    Inv ct (heap s) -> loose (heap s) (pos0 hh) -> h_inplace hh = true -> h_kw hh = None ->
    (forall l, nth x roots VNone = VRef l -> recv_leafc ct l a (heap s)) ->
    Inv ct (heap (snd (step ct roots (OpHelper x (HWith a) hh) s))).
Proof. exact step_with_inplace_coll. Qed.

(* the in-place element helpers, three families: ANY item / key / index (no freshness
   condition: the inserter checks the item against a scalar annotation before it writes, so
   a reference is never inserted); the attribute holds a collection (then Owned gives
   only_view for the inserter write) or holds nothing and has no class-level default (a
   fresh collection is created, filled and stored) *)
Theorem C03_with_item_inplace_preserves_owned :
  forall ct, flat_table ct -> inval_spec ct -> forall roots x a hh s,
    h_inplace hh = true -> h_kw hh = None -> Inv ct (heap s) ->
    (forall l, nth x roots VNone = VRef l -> recv_leafc ct l a (heap s) /\ dflt_missingc ct l a (heap s)) ->
    Inv ct (heap (snd (step ct roots (OpHelper x (HWithItem a) hh) s))).
Proof. exact step_with_item_inplace_coll. Qed.

Theorem C03_without_item_inplace_preserves_owned :
  forall ct, flat_table ct -> inval_spec ct -> forall roots x a hh s,
    h_inplace hh = true -> Inv ct (heap s) ->
    (forall l, nth x roots VNone = VRef l -> recv_leafc ct l a (heap s) /\ dflt_missingc ct l a (heap s)) ->
    Inv ct (heap (snd (step ct roots (OpHelper x (HWithoutItem a) hh) s))).
Proof. exact step_without_item_inplace_coll. Qed.

(* ---------------- 7. deepcopy and the copy-on-write forms (OwnCopy.v, OwnCow.v) ----------------
   A FLAT INSTANCE (FI): every reference held by its dict is to a container of non-references
   that nobody else references (reference count 1) and is not do_not_copy; its class is copied
   normally.  An instance of a flat class (scalar and scalar-collection attributes only, no
   do_not_copy, no __post_copy__) with managed keys is flat as soon as TypeInv /\ Owned holds
   (FI_of_Inv). *)
(* the deep copy of a flat instance: TypeInv /\ Owned is preserved, the copy is a fresh flat
   instance nobody references, and the cells that existed keep their content AND their
   reference counts (frame_rel): the copy shares nothing with the original *)
Theorem C03_deepcopy_flat_instance :
  forall ct, flat_table ct -> forall f l s cl (d : list (nat * val)) k,
    Inv ct (heap s) -> FI ct (heap s) l cl d k ->
    match dc ct (S (S (S f))) (VRef l) [] s with
    | (Ok r, s') =>
        exists new d', fst r = VRef new /\ length (heap s) <= new /\
          frame_rel (length (heap s)) (heap s) (heap s') /\ Inv ct (heap s') /\
          FI ct (heap s') new cl d' k /\ map fst d' = map fst d /\ refcount (heap s') new = 0
    | (Err _, s') => CE ct (heap s) (heap s')
    end.
Proof. exact dc_instance. Qed.

(* mutate_attr(..., inplace=False): deep copy of the receiver, _thawed(copy) (frozen classes
   included), store into the copy *)
Theorem C03_mutate_attr_copy_on_write :
  forall ct, flat_table ct -> inval_spec ct -> no_reserved_names ct ->
  forall fuel l a v tc s cl (d : list (nat * val)) k,
    Inv ct (heap s) -> FI ct (heap s) l cl d k -> loose (heap s) v ->
    (tc = false -> forall sp, lookup_attr k a = Some sp -> check_type FUEL ct (heap s) v (a_ty sp) = true) ->
    Inv ct (heap (snd (mutate_attr ct (exec ct fuel) l a v false tc false false s))).
Proof. exact mutate_attr_cow. Qed.

Theorem C03_with_copy_on_write :
  forall ct, flat_table ct -> inval_spec ct -> no_reserved_names ct ->
  forall l a hh s cl d k,
    h_inplace hh = false -> h_kw hh = None ->
    Inv ct (heap s) -> loose (heap s) (pos0 hh) -> flat_recv ct l (heap s) cl d k ->
    (forall sp, lookup_attr k a = Some sp -> leaf_attr sp) ->
    Inv ct (heap (snd (run_helper ct l (HWith a) hh s))).
Proof. exact with_cow. Qed.

Theorem C03_with_item_copy_on_write :
  forall ct, flat_table ct -> inval_spec ct -> no_reserved_names ct ->
  forall l a hh s cl d k,
    h_inplace hh = false -> h_kw hh = None ->
    Inv ct (heap s) -> flat_recv ct l (heap s) cl d k ->
    (forall sp, lookup_attr k a = Some sp -> exists fam, leaf_coll sp fam) ->
    (assoc a d = None -> class_default k a = VMissing) ->
    Inv ct (heap (snd (run_helper ct l (HWithItem a) hh s))).
Proof. exact with_item_cow. Qed.

Theorem C03_without_item_copy_on_write :
  forall ct, flat_table ct -> inval_spec ct -> no_reserved_names ct ->
  forall l a hh s cl d k,
    h_inplace hh = false ->
    Inv ct (heap s) -> flat_recv ct l (heap s) cl d k ->
    (forall sp, lookup_attr k a = Some sp -> exists fam, leaf_coll sp fam) ->
    (assoc a d = None -> class_default k a = VMissing) ->
    Inv ct (heap (snd (run_helper ct l (HWithoutItem a) hh s))).
Proof. exact without_item_cow. Qed.

(* ---------------- 8. constructor, del, reset_<a> (OwnInit.v) ----------------
   ctor_class: a flat class (or a plain subclass of one, possibly overriding scalar defaults)
   without spec parent, leaf attributes whose default is a non-reference or a factory of
   scalars, __post_init__ (if any) a quiet callback.  The keyword values are
   copied by InitMethod (protect_via_deepcopy), so they need not be fresh: it is enough that
   they are flat (a non-reference, or a container of non-references). *)
Theorem C03_constructor_preserves_owned :
  forall ct, flat_table ct -> inval_spec ct -> no_reserved_names ct ->
  forall roots c k pos kw s,
    ctor_class ct c k -> Inv ct (heap s) -> kw_flat kw (heap s) ->
    match pos with Some v => flat_val (heap s) v | None => True end ->
    Inv ct (heap (snd (step ct roots (OpConstruct c pos kw) s))).
Proof. exact step_construct. Qed.

Theorem C03_del_preserves_owned :
  forall ct, flat_table ct -> inval_spec ct -> forall roots x a s,
    Inv ct (heap s) ->
    (forall l, nth x roots VNone = VRef l -> exists cl k, is_inst l cl (heap s) /\ lookup_cls ct cl = Some k /\
       forall sp, lookup_attr k a = Some sp -> leaf_attr sp /\ default_ok k sp) ->
    Inv ct (heap (snd (step ct roots (OpDelAttr x a) s))).
Proof. exact step_delattr. Qed.

Theorem C03_reset_inplace_preserves_owned :
  forall ct, flat_table ct -> inval_spec ct -> forall roots x a hh s,
    h_inplace hh = true -> Inv ct (heap s) ->
    (forall l, nth x roots VNone = VRef l -> exists cl k, is_inst l cl (heap s) /\ lookup_cls ct cl = Some k /\
       forall sp, lookup_attr k a = Some sp -> leaf_attr sp /\ default_ok k sp) ->
    Inv ct (heap (snd (step ct roots (OpHelper x (HReset a) hh) s))).
Proof. exact step_reset_inplace. Qed.

Theorem C03_reset_copy_on_write :
  forall ct, flat_table ct -> inval_spec ct -> no_reserved_names ct ->
  forall l a hh s cl d k,
    h_inplace hh = false -> Inv ct (heap s) -> flat_recv ct l (heap s) cl d k ->
    (forall sp, lookup_attr k a = Some sp -> leaf_attr sp /\ default_ok k sp) ->
    Inv ct (heap (snd (run_helper ct l (HReset a) hh s))).
Proof. exact reset_cow. Qed.

(* obj.reset(), in place and copy-on-write: every attribute is deleted / reset in turn, an
   AttributeError of one of them is swallowed and the loop goes on (the frame survives
   failures) *)
Theorem C03_reset_all_preserves_owned :
  forall ct, flat_table ct -> inval_spec ct -> no_reserved_names ct ->
  forall l hh s cl d k,
    Inv ct (heap s) -> flat_recv ct l (heap s) cl d k ->
    (forall a sp, lookup_attr k a = Some sp -> leaf_attr sp /\ default_ok k sp) ->
    Inv ct (heap (snd (run_helper ct l HResetTop hh s))).
Proof. exact reset_all. Qed.

(* ---------------- 9. update_ / transform_ helpers (OwnMore.v) ----------------
   qfn f: the callback reads nothing from the heap and allocates at most one container of
   non-references (identity, x + n, constant, fresh list / dict of scalars, raise; FAppended,
   which copies the elements of its argument, is excluded).  Preparers of leaf attributes
   are such callbacks. *)
Theorem C03_update_item_preserves_owned :
  forall ct, flat_table ct -> inval_spec ct -> no_reserved_names ct ->
  (forall l a hh s, h_inplace hh = true -> h_kw hh = None ->
     Inv ct (heap s) -> recv_leafc ct l a (heap s) -> dflt_missingc ct l a (heap s) ->
     Inv ct (heap (snd (run_helper ct l (HUpdateItem a) hh s)))) /\
  (forall l a hh s cl d k, h_inplace hh = false -> h_kw hh = None ->
     Inv ct (heap s) -> flat_recv ct l (heap s) cl d k ->
     (forall sp, lookup_attr k a = Some sp -> exists fam, leaf_coll sp fam) ->
     (assoc a d = None -> class_default k a = VMissing) ->
     Inv ct (heap (snd (run_helper ct l (HUpdateItem a) hh s)))).
Proof. intros ct Hf Hn Hr. split; [apply update_item_inplace|apply update_item_cow]; auto. Qed.

Theorem C03_transform_item_preserves_owned :
  forall ct, flat_table ct -> inval_spec ct -> no_reserved_names ct ->
  (forall l a hh s, h_inplace hh = true -> h_kwfn hh = [] -> oqfn (h_fn hh) ->
     Inv ct (heap s) -> recv_leafc ct l a (heap s) -> dflt_missingc ct l a (heap s) ->
     Inv ct (heap (snd (run_helper ct l (HTransformItem a) hh s)))) /\
  (forall l a hh s cl d k, h_inplace hh = false -> h_kwfn hh = [] -> oqfn (h_fn hh) ->
     Inv ct (heap s) -> flat_recv ct l (heap s) cl d k ->
     (forall sp, lookup_attr k a = Some sp -> exists fam, leaf_coll sp fam) ->
     (assoc a d = None -> class_default k a = VMissing) ->
     Inv ct (heap (snd (run_helper ct l (HTransformItem a) hh s)))).
Proof. intros ct Hf Hn Hr. split; [apply transform_item_inplace|apply transform_item_cow]; auto. Qed.

Theorem C03_update_preserves_owned :
  forall ct, flat_table ct -> inval_spec ct -> no_reserved_names ct ->
  (forall l a hh s, h_inplace hh = true -> h_kw hh = None -> is_sentinel (pos0 hh) = false ->
     Inv ct (heap s) -> loose (heap s) (pos0 hh) -> recv_leafa ct l a (heap s) ->
     Inv ct (heap (snd (run_helper ct l (HUpdate a) hh s)))) /\
  (forall l a hh s cl d k, h_inplace hh = false -> h_kw hh = None -> is_sentinel (pos0 hh) = false ->
     Inv ct (heap s) -> loose (heap s) (pos0 hh) -> flat_recv ct l (heap s) cl d k ->
     (forall sp, lookup_attr k a = Some sp -> leaf_attr sp) ->
     Inv ct (heap (snd (run_helper ct l (HUpdate a) hh s)))).
Proof. intros ct Hf Hn Hr. split; [apply update_inplace|apply update_cow]; auto. Qed.

Theorem C03_transform_copy_on_write :
  forall ct, flat_table ct -> inval_spec ct -> no_reserved_names ct ->
  forall l a hh s cl d k,
    h_inplace hh = false -> h_kwfn hh = [] -> oqfn (h_fn hh) ->
    Inv ct (heap s) -> flat_recv ct l (heap s) cl d k ->
    (forall sp, lookup_attr k a = Some sp -> leaf_attr sp) ->
    (assoc a d = None -> nonref (class_default k a)) ->
    Inv ct (heap (snd (run_helper ct l (HTransform a) hh s))).
Proof. exact transform_cow. Qed.

(* transform_<a>(f, _inplace=True) and update_<a>(_inplace=True) without a new value: the value
   the attribute holds is prepared again (third provenance next to "argument" and "fresh":
   "held by this slot"; the collection is returned as it is, or copied and normalised when
   there is an item preparer) and stored back *)
Theorem C03_transform_inplace_preserves_owned :
  forall ct, flat_table ct -> inval_spec ct ->
  forall l a hh s cl d k,
    h_inplace hh = true -> h_kwfn hh = [] -> oqfn (h_fn hh) ->
    Inv ct (heap s) -> nth_error (heap s) l = Some (OInst cl d) -> lookup_cls ct cl = Some k ->
    (forall sp, lookup_attr k a = Some sp -> leaf_attr sp) ->
    (assoc a d = None -> nonref (class_default k a)) ->
    Inv ct (heap (snd (run_helper ct l (HTransform a) hh s))).
Proof. exact transform_inplace. Qed.

(* ---------------- 10. invalidated_by (OwnInval.v) ----------------
   All the operation theorems above are stated for `inval_spec ct`: invalidate_attrs preserves
   TypeInv /\ Owned and every frame.  Tables without invalidated_by satisfy it trivially
   (no_inval_spec); so do the tables in which every class that declares invalidated_by has only
   leaf attributes with a scalar / factory-of-scalars default (inval_ok): every transitive
   dependant is deleted or reset by the leaf machinery, AttributeError swallowed. *)
Theorem C03_invalidation_preserves_owned :
  forall ct, flat_table ct ->
    (no_inval_table ct -> inval_spec ct) /\ (inval_ok ct -> inval_spec ct).
Proof. intros ct Hf. split; [apply no_inval_spec|apply inval_ok_spec; auto]. Qed.

(* the combined statement, with the operations covered as a computable predicate (owned_opi_b,
   coq/Inst/OwnAll.v).  Leaf attribute: annotation scalar or List/Set/Dict of scalars, preparers
   (if any) quiet callbacks.  Covered: the constructor of a flat class (keyword and positional
   values flat); obj.a = v, with_<a>(v), update_<a>(v) in place and copy-on-write (fresh
   argument); transform_<a>(f) and update_<a>() in place and copy-on-write; with_<item>, update_<item>, transform_<item>,
   without_<item> in place and copy-on-write (any arguments); del obj.a, reset_<a>() and
   reset() in place and copy-on-write; copy.deepcopy of flat values; the caller building a
   container of scalars.  Tables: inval_ok_b (invalidated_by allowed in classes whose
   attributes are all leaf attributes with simple defaults).
   PARTIAL: the full statement quantifies over every operation (top-level update / transform,
   keyword attributes and attribute transforms) and every flat table
   (nested spec classes / Any as elements, do_not_copy, inheritance,
   __post_init__ / __post_copy__, callbacks that copy their argument). *)
Theorem C03_step_preserves_owned_partial :
  forall ct roots o s,
    flat_table ct -> inval_ok_b ct = true -> no_reserved_b ct = true ->
    owned_opi_b ct (heap s) roots o = true ->
    TypeInv ct s -> Owned ct (heap s) ->
    TypeInv ct (snd (step ct roots o s)) /\ Owned ct (heap (snd (step ct roots o s))).
Proof. exact step_preserves_owned_i. Qed.

(* ... and hence, by induction, for histories: every operation covered in the state in which
   it starts (hist_covered, computable; the result of each operation is appended to the roots,
   the callback counter is reset and the failure point set as in the correspondence driver) *)
Theorem C03_history_preserves_owned :
  forall ct, flat_table ct -> inval_ok_b ct = true -> no_reserved_b ct = true ->
  forall ops s roots,
    hist_covered ct s roots ops = true ->
    TypeInv ct s -> Owned ct (heap s) ->
    TypeInv ct (fst (run_hist ct s roots ops)) /\ Owned ct (heap (fst (run_hist ct s roots ops))).
Proof. exact history_preserves_owned. Qed.

(* non-vacuity: a table with an int, a List[int], a List[str], a Set[int], a Dict[str,int]
   attribute and a List[int] attribute with default_factory; the guards hold; conforming and
   ill-typed arguments; construction; element insertion and removal in the three families, in
   place and copy-on-write; del / reset; deepcopy *)
Definition exA70 := mkattr 70 (TSet TInt) VMissing None 1 true false None None [].
Definition exA80 := mkattr 80 (TDict TStr TInt) VMissing None 1 true false None None [].
Definition exA90 := mkattr 90 (TList TInt) VMissing (Some (FacList [VInt 1%Z])) 1 true false None None [].
(* a List[int] attribute with _prepare_<attr> = identity and _prepare_<item> = lambda x: x + 1 *)
Definition exA100 := mkattr 100 (TList TInt) VMissing None 1 true false (Some FId) (Some (FAddInt 1%Z)) [].
Definition exCT2 : ctable :=
  [mkcls 1 [exA1; exA50; exA60; exA70; exA80; exA90; exA100] false false None [1] 1 [] None None].
Definition exH2 : list obj :=
  [OInst 1 [(1, VInt 3%Z); (50, VRef 1); (70, VRef 2); (80, VRef 3)];
   OList [VInt 1%Z]; OSet [VInt 4%Z]; ODict [(VStr 1%Z, VInt 2%Z)];
   OList [VInt 5%Z]; OList [VStr 5%Z]; OSet [VInt 6%Z]; ODict [(VInt 1%Z, VInt 2%Z)]].
Definition exRun2 (o : op) := step exCT2 [VRef 0] o (mkst exH2 0 None).
Definition exGood (o : op) : bool :=
  owned_opi_b exCT2 exH2 [VRef 0] o && owned_b exCT2 (heap (snd (exRun2 o))) && ti_b exCT2 (heap (snd (exRun2 o))).

Example C03_owned_guards_hold :
  no_inval_b exCT2 = true /\ no_reserved_b exCT2 = true /\ owned_b exCT2 exH2 = true /\ ti_b exCT2 exH2 = true /\
  (* construction: the list argument is copied (cell 9), the factory default is built (cell 10) *)
  exGood (OpConstruct 1 None [(1, VInt 2%Z); (50, VRef 4)]) = true /\
  fst (exRun2 (OpConstruct 1 None [(1, VInt 2%Z); (50, VRef 4)])) = Ok (VRef 8) /\
  nth_error (heap (snd (exRun2 (OpConstruct 1 None [(1, VInt 2%Z); (50, VRef 4)])))) 8
    = Some (OInst 1 [(1, VInt 2%Z); (50, VRef 9); (90, VRef 10)]) /\
  exGood (OpConstruct 1 None [(50, VRef 5)]) = true /\
  fst (exRun2 (OpConstruct 1 None [(50, VRef 5)])) = Err ValueErr /\
  exGood (OpConstruct 1 None [(1, VStr 2%Z)]) = true /\
  fst (exRun2 (OpConstruct 1 None [(1, VStr 2%Z)])) = Err TypeErr /\
  (* assignments: conforming list, ill-typed list (rejected), set, ill-keyed dict (rejected), scalars *)
  exGood (OpSetAttr 0 50 (VRef 4)) = true /\ fst (exRun2 (OpSetAttr 0 50 (VRef 4))) = Ok VNone /\
  exGood (OpSetAttr 0 50 (VRef 5)) = true /\ fst (exRun2 (OpSetAttr 0 50 (VRef 5))) = Err ValueErr /\
  exGood (OpSetAttr 0 70 (VRef 6)) = true /\ fst (exRun2 (OpSetAttr 0 70 (VRef 6))) = Ok VNone /\
  exGood (OpSetAttr 0 80 (VRef 7)) = true /\ fst (exRun2 (OpSetAttr 0 80 (VRef 7))) = Err ValueErr /\
  exGood (OpSetAttr 0 1 (VInt 9%Z)) = true /\ fst (exRun2 (OpSetAttr 0 1 (VInt 9%Z))) = Ok VNone /\
  exGood (OpSetAttr 0 1 (VStr 9%Z)) = true /\ fst (exRun2 (OpSetAttr 0 1 (VStr 9%Z))) = Err TypeErr /\
  exGood (OpHelper 0 (HWith 50) (exArgs [VRef 4] true)) = true /\
  (* copy-on-write with_<a>: the receiver is copied (cells 8..11), the argument goes into the copy *)
  exGood (OpHelper 0 (HWith 50) (exArgs [VRef 4] false)) = true /\
  fst (exRun2 (OpHelper 0 (HWith 50) (exArgs [VRef 4] false))) = Ok (VRef 8) /\
  nth_error (heap (snd (exRun2 (OpHelper 0 (HWith 50) (exArgs [VRef 4] false))))) 8
    = Some (OInst 1 [(1, VInt 3%Z); (50, VRef 4); (70, VRef 10); (80, VRef 11)]) /\
  exGood (OpHelper 0 (HWith 50) (exArgs [VRef 5] false)) = true /\
  (* element helpers in place *)
  exGood (OpHelper 0 (HWithItem 50) (exArgs [VInt 7%Z] true)) = true /\
  nth_error (heap (snd (exRun2 (OpHelper 0 (HWithItem 50) (exArgs [VInt 7%Z] true))))) 1
    = Some (OList [VInt 1%Z; VInt 7%Z]) /\
  exGood (OpHelper 0 (HWithItem 50) (exArgs [VStr 7%Z] true)) = true /\
  fst (exRun2 (OpHelper 0 (HWithItem 50) (exArgs [VStr 7%Z] true))) = Err ValueErr /\
  exGood (OpHelper 0 (HWithItem 60) (exArgs [VStr 7%Z] true)) = true /\
  exGood (OpHelper 0 (HWithItem 70) (exArgs [VInt 9%Z] true)) = true /\
  exGood (OpHelper 0 (HWithItem 80) (exArgs [VStr 5%Z; VInt 6%Z] true)) = true /\
  exGood (OpHelper 0 (HWithItem 90) (exArgs [VInt 7%Z] true)) = true /\
  exGood (OpHelper 0 (HWithoutItem 50) (exArgs [VInt 1%Z] true)) = true /\
  exGood (OpHelper 0 (HWithoutItem 70) (exArgs [VInt 4%Z] true)) = true /\
  exGood (OpHelper 0 (HWithoutItem 80) (exArgs [VStr 1%Z] true)) = true /\
  (* element helpers copy-on-write: the original list (cell 1) is untouched *)
  exGood (OpHelper 0 (HWithItem 50) (exArgs [VInt 7%Z] false)) = true /\
  nth_error (heap (snd (exRun2 (OpHelper 0 (HWithItem 50) (exArgs [VInt 7%Z] false))))) 1
    = Some (OList [VInt 1%Z]) /\
  exGood (OpHelper 0 (HWithItem 50) (exArgs [VStr 7%Z] false)) = true /\
  exGood (OpHelper 0 (HWithItem 60) (exArgs [VStr 7%Z] false)) = true /\
  exGood (OpHelper 0 (HWithItem 70) (exArgs [VInt 9%Z] false)) = true /\
  exGood (OpHelper 0 (HWithItem 80) (exArgs [VStr 5%Z; VInt 6%Z] false)) = true /\
  exGood (OpHelper 0 (HWithoutItem 50) (exArgs [VInt 1%Z] false)) = true /\
  exGood (OpHelper 0 (HWithoutItem 70) (exArgs [VInt 4%Z] false)) = true /\
  exGood (OpHelper 0 (HWithoutItem 80) (exArgs [VStr 1%Z] false)) = true /\
  (* del: the attribute without default is removed, the one with a factory is rebuilt *)
  exGood (OpDelAttr 0 50) = true /\
  nth_error (heap (snd (exRun2 (OpDelAttr 0 50)))) 0
    = Some (OInst 1 [(1, VInt 3%Z); (70, VRef 2); (80, VRef 3)]) /\
  exGood (OpDelAttr 0 90) = true /\
  nth_error (heap (snd (exRun2 (OpDelAttr 0 90)))) 0
    = Some (OInst 1 [(1, VInt 3%Z); (50, VRef 1); (70, VRef 2); (80, VRef 3); (90, VRef 8)]) /\
  exGood (OpHelper 0 (HReset 90) (exArgs [] true)) = true /\
  exGood (OpHelper 0 (HReset 50) (exArgs [] false)) = true /\
  exGood (OpHelper 0 (HReset 90) (exArgs [] false)) = true /\
  exGood (OpHelper 0 HResetTop (exArgs [] true)) = true /\
  nth_error (heap (snd (exRun2 (OpHelper 0 HResetTop (exArgs [] true))))) 0 = Some (OInst 1 [(90, VRef 8)]) /\
  exGood (OpHelper 0 HResetTop (exArgs [] false)) = true /\
  (* preparers: the assigned list is copied and every element goes through the item preparer *)
  exGood (OpSetAttr 0 100 (VRef 4)) = true /\
  nth_error (heap (snd (exRun2 (OpSetAttr 0 100 (VRef 4))))) 8 = Some (OList [VInt 6%Z]) /\
  exGood (OpSetAttr 0 100 (VRef 5)) = true /\
  exGood (OpHelper 0 (HWithItem 100) (exArgs [VInt 7%Z] true)) = true /\
  nth_error (heap (snd (exRun2 (OpHelper 0 (HWithItem 100) (exArgs [VInt 7%Z] true))))) 8 = Some (OList [VInt 8%Z]) /\
  exGood (OpHelper 0 (HWithItem 100) (exArgs [VStr 7%Z] false)) = true /\
  exGood (OpDeepCopy 0) = true /\
  (* update_ / transform_ helpers *)
  exGood (OpHelper 0 (HUpdateItem 50) (exArgs [VInt 1%Z; VInt 8%Z] true)) = true /\
  nth_error (heap (snd (exRun2 (OpHelper 0 (HUpdateItem 50) (exArgs [VInt 1%Z; VInt 8%Z] true))))) 1
    = Some (OList [VInt 8%Z]) /\
  exGood (OpHelper 0 (HUpdateItem 50) (exArgs [VInt 1%Z; VStr 8%Z] false)) = true /\
  exGood (OpHelper 0 (HUpdateItem 80) (exArgs [VStr 1%Z; VInt 8%Z] false)) = true /\
  exGood (OpHelper 0 (HTransformItem 50) (mkh [VInt 1%Z] true true VMissing false None None [] (Some (FAddInt 4%Z)))) = true /\
  nth_error (heap (snd (exRun2 (OpHelper 0 (HTransformItem 50)
      (mkh [VInt 1%Z] true true VMissing false None None [] (Some (FAddInt 4%Z))))))) 1
    = Some (OList [VInt 5%Z]) /\
  exGood (OpHelper 0 (HTransformItem 50) (mkh [VInt 1%Z] false true VMissing false None None [] (Some (FConst (VStr 4%Z))))) = true /\
  exGood (OpHelper 0 (HUpdate 50) (exArgs [VRef 4] true)) = true /\
  exGood (OpHelper 0 (HUpdate 50) (exArgs [VRef 5] false)) = true /\
  exGood (OpHelper 0 (HUpdate 1) (exArgs [VInt 4%Z] false)) = true /\
  exGood (OpHelper 0 (HTransform 50) (mkh [] false true VMissing false None None [] (Some (FNewList [VInt 2%Z])))) = true /\
  exGood (OpHelper 0 (HTransform 1) (mkh [] false true VMissing false None None [] (Some (FAddInt 2%Z)))) = true /\
  exGood (OpHelper 0 (HTransform 1) (mkh [] false true VMissing false None None [] (Some (FConst (VStr 2%Z))))) = true /\
  (* in place on the held value: identity keeps the list, the item preparer of attribute 100 is re-applied *)
  exGood (OpHelper 0 (HTransform 50) (mkh [] true true VMissing false None None [] (Some FId))) = true /\
  nth_error (heap (snd (exRun2 (OpHelper 0 (HTransform 50) (mkh [] true true VMissing false None None [] (Some FId)))))) 0
    = Some (OInst 1 [(1, VInt 3%Z); (50, VRef 1); (70, VRef 2); (80, VRef 3)]) /\
  exGood (OpHelper 0 (HTransform 50) (mkh [] true true VMissing false None None [] (Some (FNewList [VStr 2%Z])))) = true /\
  exGood (OpHelper 0 (HTransform 1) (mkh [] true true VMissing false None None [] (Some (FAddInt 2%Z)))) = true /\
  exGood (OpHelper 0 (HUpdate 50) (exArgs [] true)) = true /\
  exGood (OpHelper 0 (HUpdate 70) (exArgs [] true)) = true /\
  (* the aliasing assignment of the counterexample is NOT covered: the argument is referenced *)
  owned_opi_b exCT [OInst 1 [(1, VInt 3%Z); (50, VRef 1)]; OList []] [VRef 0] (OpSetAttr 0 60 (VRef 1)) = false.
Proof. vm_compute. repeat split. Qed.

(* invalidated_by: ys (List[str]) is invalidated by xs (List[int]); assigning xs deletes ys *)
Definition exA60i := mkattr 60 (TList TStr) VMissing None 1 true false None None [50].
(* ... with __post_init__ = identity and __post_copy__ = lambda: [1] *)
Definition exCT3 : ctable :=
  [mkcls 1 [exA1; exA50; exA60i] false false None [1] 1 [] (Some FId) (Some (FNewList [VInt 1%Z]))].
Definition exH3 : list obj :=
  [OInst 1 [(50, VRef 1); (60, VRef 2)]; OList [VInt 1%Z]; OList [VStr 2%Z]; OList [VInt 5%Z]].
Example C03_invalidation_example :
  no_inval_b exCT3 = false /\ inval_ok_b exCT3 = true /\ no_reserved_b exCT3 = true /\
  owned_b exCT3 exH3 = true /\ ti_b exCT3 exH3 = true /\
  owned_opi_b exCT3 exH3 [VRef 0] (OpSetAttr 0 50 (VRef 3)) = true /\
  (let r := step exCT3 [VRef 0] (OpSetAttr 0 50 (VRef 3)) (mkst exH3 0 None) in
   fst r = Ok VNone /\ nth_error (heap (snd r)) 0 = Some (OInst 1 [(50, VRef 3)]) /\
   owned_b exCT3 (heap (snd r)) = true /\ ti_b exCT3 (heap (snd r)) = true) /\
  owned_opi_b exCT3 exH3 [VRef 0] (OpHelper 0 (HWithItem 50) (exArgs [VInt 7%Z] false)) = true /\
  (let r := step exCT3 [VRef 0] (OpHelper 0 (HWithItem 50) (exArgs [VInt 7%Z] false)) (mkst exH3 0 None) in
   owned_b exCT3 (heap (snd r)) = true /\ ti_b exCT3 (heap (snd r)) = true) /\
  (* a history: build a list, construct, insert copy-on-write, update in place, reset, deepcopy *)
  (let ops := [(OpAlloc (OList [VInt 8%Z]), None);
               (OpConstruct 1 None [(50, VRef 4); (1, VInt 0%Z)], None);
               (OpHelper 2 (HWithItem 50) (exArgs [VInt 9%Z] false), None);
               (OpHelper 3 (HUpdateItem 50) (exArgs [VInt 9%Z; VStr 0%Z] true), None);
               (OpSetAttr 3 60 (VRef 4), None);
               (OpHelper 3 HResetTop (exArgs [] false), Some 1);
               (OpDeepCopy 3, None)] in
   hist_covered exCT3 (mkst exH3 0 None) [VRef 0] ops = true /\
   owned_b exCT3 (heap (fst (run_hist exCT3 (mkst exH3 0 None) [VRef 0] ops))) = true /\
   ti_b exCT3 (heap (fst (run_hist exCT3 (mkst exH3 0 None) [VRef 0] ops))) = true).
Proof. vm_compute. repeat split. Qed.

(* a plain subclass (class 2 uses the metadata of class 1) overriding the default of x *)
Definition exCT4 : ctable :=
  [mkcls 1 [exA1; exA50] false false None [1] 1 [] None None;
   mkcls 2 [exA1; exA50] false false None [1] 1 [(1, VInt 7%Z)] None None].
Example C03_plain_subclass_example :
  let h := [OList [VInt 5%Z]] in
  inval_ok_b exCT4 = true /\ no_reserved_b exCT4 = true /\
  owned_opi_b exCT4 h [] (OpConstruct 2 None [(50, VRef 0)]) = true /\
  (let r := step exCT4 [] (OpConstruct 2 None [(50, VRef 0)]) (mkst h 0 None) in
   fst r = Ok (VRef 1) /\ nth_error (heap (snd r)) 1 = Some (OInst 2 [(1, VInt 7%Z); (50, VRef 2)]) /\
   owned_b exCT4 (heap (snd r)) = true /\ ti_b exCT4 (heap (snd r)) = true).
Proof. vm_compute. repeat split. Qed.

Print Assumptions C03_checked_before_stored.
Print Assumptions C03_bad_value_rejected.
Print Assumptions C03_bad_element_rejected.
Print Assumptions C03_bad_key_or_value_rejected.
Print Assumptions C03_element_checked_before_stored.
Print Assumptions C03_step_preserves_partial.
Print Assumptions C03_step_preserves_scalar_tables.
Print Assumptions C03_cells_keep_their_class.
Print Assumptions C03_copy_conforms.
Print Assumptions C03_copy_conforms_flat.
Print Assumptions C03_list_inserter_keeps.
Print Assumptions C03_dict_inserter_keeps.
Print Assumptions C03_set_inserter_keeps.
Print Assumptions C03_list_insert_preserves_TypeInv.
Print Assumptions C03_dict_insert_preserves_TypeInv.
Print Assumptions C03_set_insert_preserves_TypeInv.
Print Assumptions C03_remove_preserves_TypeInv.
Print Assumptions C03_store_preserves_TypeInv.
Print Assumptions C03_delete_preserves_TypeInv.
Print Assumptions C03_fuel_irrelevant.
Print Assumptions C03_conforming_assignment.
Print Assumptions C03_conforming_element.
Print Assumptions C03_ill_typed_element_rejected.
Print Assumptions C03_ill_typed_value_rejected.
Print Assumptions C03_alias_counterexample.
Print Assumptions C03_full_statement_needs_args_fresh.
Print Assumptions C03_owned_computable.
Print Assumptions C03_owned_example.
Print Assumptions C03_alias_not_owned.
Print Assumptions C03_owned_only_view.
Print Assumptions C03_owned_store.
Print Assumptions C03_owned_container_write.
Print Assumptions C03_owned_delete.
Print Assumptions C03_mutate_value_quiet.
Print Assumptions C03_setattr_preserves_owned.
Print Assumptions C03_with_inplace_preserves_owned.
Print Assumptions C03_with_item_inplace_preserves_owned.
Print Assumptions C03_without_item_inplace_preserves_owned.
Print Assumptions C03_deepcopy_flat_instance.
Print Assumptions C03_mutate_attr_copy_on_write.
Print Assumptions C03_with_copy_on_write.
Print Assumptions C03_with_item_copy_on_write.
Print Assumptions C03_without_item_copy_on_write.
Print Assumptions C03_constructor_preserves_owned.
Print Assumptions C03_del_preserves_owned.
Print Assumptions C03_reset_inplace_preserves_owned.
Print Assumptions C03_reset_copy_on_write.
Print Assumptions C03_reset_all_preserves_owned.
Print Assumptions C03_update_item_preserves_owned.
Print Assumptions C03_transform_item_preserves_owned.
Print Assumptions C03_update_preserves_owned.
Print Assumptions C03_transform_copy_on_write.
Print Assumptions C03_transform_inplace_preserves_owned.
Print Assumptions C03_invalidation_preserves_owned.
Print Assumptions C03_step_preserves_owned_partial.
Print Assumptions C03_history_preserves_owned.
Print Assumptions C03_owned_guards_hold.
Print Assumptions C03_invalidation_example.
Print Assumptions C03_plain_subclass_example.
