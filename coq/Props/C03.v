(* C03 — managed attributes always satisfy their declared type on every
   mutation route.  Model: coq/Inst/Model.v; proofs: coq/Inst/TypeProofs.v. *)
From Coq Require Import List ZArith Bool Arith.
From SC Require Import Base.Res Inst.Heap Inst.ClassTable Inst.Model Inst.TypeProofs.
Import ListNotations.
Open Scope nat_scope.

(* Every operation of the API preserves: each instance cell maps every managed
   attribute with a simple annotation (int/str/bool/None/Any, nested spec class,
   Optional/Union of those) to a conforming value.  All routes, all tables, no
   freshness hypothesis (the check on such annotations is alias-insensitive). *)
Theorem C03_step_preserves_simple :
  forall ct roots o s,
    no_reserved_names ct -> op_plain o ->
    TS ct (heap s) -> TS ct (heap (snd (step ct roots o s))).
Proof. intros ct roots o s Hr Hp T. apply (step_preserves_TS ct roots o s Hr Hp T). Qed.

Print Assumptions C03_step_preserves_simple.
