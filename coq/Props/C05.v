(* C05 — scalar and top-level helpers compute exactly the documented new state.

   Specification: Inst/SpecHelpers.v (spec_helper: spec_with, spec_update,
   spec_transform, spec_reset_attr, spec_reset, spec_update_top,
   spec_transform_top over abstract values of Inst/Abs.v).  The
   correspondence check evaluates it on the implementation's observations.

   Theorems about the executable model (Inst/Model.v) in this file:
   - the calls the property names as no-ops change nothing and hand back the
     receiver (for every class table, state, receiver, argument vector);
   - in-place calls hand back the receiver itself;
   - obj.a = v IS with_a(v, _inplace=True): one and the same computation;
   - update(_inplace=True, keywords) IS the keywords assigned one after the other.
   - refinement of whole calls to spec_helper (C05_refines_partial,
     C05_setattr_refines_partial): proved for the guard stated there; the full
     statement is kept in the comment above them. *)
From Coq Require Import List ZArith Bool Arith Lia.
From SC Require Import Base.Res Base.PyList Inst.Heap Inst.ClassTable Inst.Model Inst.Canon
  Inst.Abs Inst.SpecHelpers Inst.RefineProofs Inst.CopyProofs Inst.CopyStore Inst.RefineMore Inst.RefineMore2 Inst.RefineMore3 Inst.RefineMore4 Inst.RefineMore5 Inst.RefineMore6 Inst.RefineMore7 Inst.RefineMore8 Inst.RefineMore9 Inst.RefineMore10 Inst.RefineMore11 Inst.RefineMore12.
Import ListNotations.
Open Scope nat_scope.

(* ---------------- no-ops ---------------- *)

(* _if=False: every helper, every flag, every argument *)
Theorem C05_noop_if_false : forall ct l hp h s,
  h_if h = false -> run_helper ct l hp h s = (Ok (VRef l), s).
Proof. exact if_false_noop. Qed.

(* with_<a>(UNCHANGED), copy or in place: the receiver comes back, the state is untouched *)
Theorem C05_noop_with_unchanged : forall ct l a h s v s',
  pos0 h = VUnchanged ->
  run_helper ct l (HWith a) h s = (Ok v, s') -> v = VRef l /\ s' = s.
Proof. exact with_unchanged_noop. Qed.

(* update_<a>(UNCHANGED) *)
Theorem C05_noop_update_unchanged : forall ct l a h s,
  pos0 h = VUnchanged -> run_helper ct l (HUpdate a) h s = (Ok (VRef l), s).
Proof. exact update_unchanged_noop. Qed.

(* update(UNCHANGED, ...), update(), update(MISSING) *)
Theorem C05_noop_update_top : forall ct l h s,
  pos0 h = VUnchanged \/
  ((pos0 h = VMissing \/ pos0 h = VEmpty) /\ (h_kw h = None \/ h_kw h = Some [])) ->
  run_helper ct l HUpdateTop h s = (Ok (VRef l), s).
Proof. exact update_top_noop. Qed.

(* obj.a = UNCHANGED *)
Theorem C05_noop_setattr_unchanged : forall ct roots x a s l,
  nth x roots VNone = VRef l ->
  forall r s', step ct roots (OpSetAttr x a VUnchanged) s = (Ok r, s') -> s' = s.
Proof. exact setattr_unchanged_noop. Qed.

(* ---------------- in place: the receiver itself is returned ---------------- *)
(* (update/transform return _new_value / f(self) by documentation and are excluded) *)
Theorem C05_inplace_returns_receiver : forall ct l hp h s r s',
  h_inplace h = true ->
  match hp with HUpdateTop | HTransformTop => False | _ => True end ->
  run_helper ct l hp h s = (Ok r, s') -> r = VRef l.
Proof. exact inplace_returns_receiver. Qed.

(* ---------------- obj.a = v  is  obj.with_a(v, _inplace=True) ---------------- *)
(* For every recursion oracle `rec` the assignment and the in-place helper are
   the same computation on every state where `a` is a managed attribute of the
   receiver's class (the helper only exists for managed attributes): same
   result state, same outcome (errors included). *)
Theorem C05_setattr_is_with_inplace : forall ct rec l a v s,
  (forall c d k, nth_error (heap s) l = Some (OInst c d) -> lookup_cls ct c = Some k ->
                 lookup_attr k a <> None) ->
  setattr_ ct rec l a v false false s = with_inplace_gen ct rec l a v s.
Proof. exact setattr_is_with_inplace. Qed.

(* how the two entry points instantiate it: the generated helper with
   rec := exec ct XFUEL, the assignment statement with rec := exec ct (XFUEL-1)
   (the dispatcher `exec` spends one unit of recursion budget on the
   assignment; budgets are never exhausted in the correspondence runs) *)
Theorem C05_with_inplace_entry : forall ct l a v s,
  run_helper ct l (HWith a) (mkh [v] true true VMissing false None None [] None) s =
  with_inplace_gen ct (exec ct XFUEL) l a v s.
Proof. exact run_helper_with_inplace. Qed.
Theorem C05_setattr_entry : forall ct roots x a v l s,
  nth x roots VNone = VRef l ->
  step ct roots (OpSetAttr x a v) s =
  bind (setattr_ ct (exec ct 39) l a v false false) (fun _ => ret VNone) s.
Proof. exact step_setattr. Qed.

(* ---------------- update with keywords  is  iterated assignment ---------------- *)
(* in place, at least one keyword, receiver an instance of a known class: the
   call is exactly `for (a, v) in kws: if v is not MISSING: self.a = v` followed
   by `return self` — the same `KSetAttr` that the assignment statement runs *)
Theorem C05_update_is_iterated_with : forall ct l p0 ps s c d k,
  nth_error (heap s) l = Some (OInst c d) -> lookup_cls ct c = Some k ->
  run_helper ct l HUpdateTop (mkh [] true true VMissing false None (Some (p0 :: ps)) [] None) s =
  bind (assign_all (exec ct 39) l (p0 :: ps)) (fun _ => ret (VRef l)) s.
Proof. exact update_inplace_is_iterated_setattr. Qed.

(* ---------------- refinement to the documentation ---------------- *)
(* FULL STATEMENT (property C05, kept visible; NOT proved in this generality):

     Theorem C05_refines : forall ct h0 l hp h s r' s',
       wf ct h0 s ->                           (* closed, acyclic heap; class defaults intact *)
       run_helper ct l hp h s = (Ok (VRef r'), s') ->
       spec_helper ct h0 (absv (heap s) (VRef l)) (shelper_of hp) (abs_args (heap s) h)
         = SOk (absv (heap s') (VRef r'))
       /\ (h_inplace h = true -> r' = l)
     and, for Err e outcomes, spec_helper ... = SErr e (or SAnyErr) with the old cells unchanged.

   PROVED below (C05_refines_partial / C05_setattr_refines_partial), for every
   class table, every heap and every receiver, both outcomes (Ok and every Err):
     helper      with_<a>(v, _inplace=True)  and the assignment  obj.a = v
     receiver    any instance (its other attribute values arbitrary: nested
                 instances, shared containers, ...) whose graph is acyclic
                 (aok), with duplicate-free __dict__ keys, of an unfrozen class
                 declaring no invalidated_by
     attribute   not a collection (int/str/bool/None/Optional/Union/Any/spec
                 annotations of nesting depth < 64), with NO preparer or a
                 preparer from the pool {identity, +z, constant scalar}
                 (layers (i) and (ii) of the plan)
     value       a proper scalar (None, bool, int, str, atom; not a sentinel)
     callbacks   no injected callback failure (fail_at = None)
   and, COPY-ON-WRITE (C05_refines_copy_partial): with_<a>(v) without _inplace on
   a FLAT receiver (every attribute value a scalar or a list/dict/set of
   scalars, sharing allowed), frozen or not, not being initialised: the result
   is a fresh instance whose abstraction is the specification's, no
   pre-existing cell is changed, and the copy is not left in the
   "initializing" state (the _thawed window is closed again).
   MISSING for the full statement: copy-on-write for nested receivers (deepcopy
   preserves abs is proved for flat instances: CopyProofs.deepcopy_flat_abs),
   the Err outcomes of the copy-on-write call, invalidation cascades, collection-typed attributes
   (normalisation), nested spec values / keywords / dict-as-arguments (layer
   (iii)), update_/transform_/reset_ and the top-level helpers (their no-op,
   identity and "is iterated assignment" parts are proved above in full
   generality).  The correspondence check exercises all of these against the
   implementation on every run.
   ADDED LATER (below C05_examples; proofs in Inst/RefineMore{,2,3,4}.v), still for
   scalar attributes with pool preparers / transforms and literal defaults:
   transform_<a>, reset_<a>, del obj.a in place; update(a=v, ...), transform(a=f, ...),
   reset() as wholes (final state and first error class); the copy-on-write
   forms on flat receivers incl. the Err outcomes (error class of the
   specification, fresh-only footprint; reset_/update/transform/reset() copy
   forms for unfrozen classes only); invalidation of direct dependants with
   literal defaults for with_<a> in place and obj.a = v.  STILL MISSING: nested
   receivers for copy-on-write, frozen classes for the whole-call copy forms,
   chains of invalidation and '*', default factories / mutable defaults,
   transform_<a> on an attribute holding nothing, collections, nested spec
   values / keywords / dict-as-arguments. *)
Theorem C05_refines_partial : forall ct h0 l a c d k sp s v,
  nth_error (heap s) l = Some (OInst c d) -> lookup_cls ct c = Some k -> lookup_attr k a = Some sp ->
  NoDup (map fst d) -> aok (absv (heap s) (VRef l)) = true ->
  c_frozen k = false -> no_inval k -> fail_at s = None ->
  ty_depth (a_ty sp) < FUEL -> ty_is_collection (a_ty sp) = false ->
  vscalar v = true ->
  match a_prepare sp with Some f => scalar_fn f = true | None => True end ->
  let h := mkh [v] true true VMissing false None None [] None in
  let ah := mkah [abs0 v] true true AMissing false None None [] None in
  match run_helper ct l (HWith a) h s with
  | (Ok r, s') => r = VRef l /\
                  spec_helper ct h0 (absv (heap s) (VRef l)) (SWith a) ah = SOk (absv (heap s') (VRef l))
  | (Err e, s') => spec_helper ct h0 (absv (heap s) (VRef l)) (SWith a) ah = SErr e /\ heap s' = heap s
  end.
Proof.
  intros ct h0 l a c d k sp s v Hl Hc Ha Hd Hok Hfz Hni Hfa Hty Hnc Hv Hp.
  exact (with_scalar_inplace_refines ct h0 l a c d k sp s Hl Hc Ha Hd Hok Hfz Hni Hfa Hty Hnc v Hv Hp).
Qed.

Theorem C05_setattr_refines_partial : forall ct h0 l a c d k sp s roots x v,
  nth_error (heap s) l = Some (OInst c d) -> lookup_cls ct c = Some k -> lookup_attr k a = Some sp ->
  NoDup (map fst d) -> aok (absv (heap s) (VRef l)) = true ->
  c_frozen k = false -> no_inval k -> fail_at s = None ->
  ty_depth (a_ty sp) < FUEL -> ty_is_collection (a_ty sp) = false ->
  nth x roots VNone = VRef l -> vscalar v = true ->
  match a_prepare sp with Some f => scalar_fn f = true | None => True end ->
  let ah := mkah [abs0 v] true true AMissing false None None [] None in
  match step ct roots (OpSetAttr x a v) s with
  | (Ok r, s') => spec_helper ct h0 (absv (heap s) (VRef l)) (SSetAttrOp a) ah = SOk (absv (heap s') (VRef l))
  | (Err e, s') => spec_helper ct h0 (absv (heap s) (VRef l)) (SSetAttrOp a) ah = SErr e /\ heap s' = heap s
  end.
Proof.
  intros ct h0 l a c d k sp s roots x v Hl Hc Ha Hd Hok Hfz Hni Hfa Hty Hnc Hx Hv Hp.
  exact (setattr_scalar_refines ct h0 l a c d k sp s Hl Hc Ha Hd Hok Hfz Hni Hfa Hty Hnc roots x v Hx Hv Hp).
Qed.

Theorem C05_refines_copy_partial : forall ct h0 l a c d k sp s v r s',
  nth_error (heap s) l = Some (OInst c d) -> lookup_cls ct c = Some k -> lookup_attr k a = Some sp ->
  NoDup (map fst d) -> flat_fields (heap s) d ->
  c_dnc k = false -> no_inval k -> fail_at s = None ->
  ty_depth (a_ty sp) < FUEL -> ty_is_collection (a_ty sp) = false ->
  assoc A_INITIALIZING d = None -> a <> A_INITIALIZING ->
  vscalar v = true ->
  match a_prepare sp with Some f => scalar_fn f = true | None => True end ->
  run_helper ct l (HWith a) (mkh [v] false true VMissing false None None [] None) s = (Ok r, s') ->
  exists l' dfin,
    r = VRef l' /\ length (heap s) <= l' /\
    (forall i, i < length (heap s) -> nth_error (heap s') i = nth_error (heap s) i) /\
    spec_helper ct h0 (absv (heap s) (VRef l)) (SWith a)
                (mkah [abs0 v] false true AMissing false None None [] None) = SOk (absv (heap s') (VRef l')) /\
    nth_error (heap s') l' = Some (OInst c dfin) /\ assoc A_INITIALIZING dfin = None.
Proof.
  intros ct h0 l a c d k sp s v r s' Hl Hc Ha Hd Hflat Hdnc Hni Hfa Hty Hnc Hinit Ha0 Hv Hp H.
  exact (with_scalar_copy_refines ct h0 l a c d k sp s Hl Hc Ha Hd Hflat Hdnc Hni Hfa Hty Hnc Hinit Ha0 v r s' Hv Hp H).
Qed.

(* ... and the copy-on-write call does succeed whenever the specification is SOk
   (class without __post_copy__ hook): no spurious error, in particular no
   FrozenInstanceError on a frozen receiver *)
Theorem C05_copy_total_partial : forall ct h0 l a c d k sp s v x,
  nth_error (heap s) l = Some (OInst c d) -> lookup_cls ct c = Some k -> lookup_attr k a = Some sp ->
  flat_fields (heap s) d -> c_dnc k = false -> no_inval k -> fail_at s = None ->
  ty_depth (a_ty sp) < FUEL -> ty_is_collection (a_ty sp) = false ->
  assoc A_INITIALIZING d = None ->
  vscalar v = true ->
  match a_prepare sp with Some f => scalar_fn f = true | None => True end ->
  c_post_copy k = None ->
  spec_helper ct h0 (absv (heap s) (VRef l)) (SWith a)
              (mkah [abs0 v] false true AMissing false None None [] None) = SOk x ->
  exists r s', run_helper ct l (HWith a) (mkh [v] false true VMissing false None None [] None) s = (Ok r, s').
Proof.
  intros ct h0 l a c d k sp s v x Hl Hc Ha Hflat Hdnc Hni Hfa Hty Hnc Hinit Hv Hp Hpc Hs.
  exact (with_scalar_copy_total ct h0 l a c d k sp s Hl Hc Ha Hflat Hdnc Hni Hfa Hty Hnc Hinit v x Hv Hp Hpc Hs).
Qed.

(* update_<a>(v) with a proper scalar v IS with_<a>(v): the same run of the model
   and the same specification, for both values of _inplace — so every theorem
   above about with_<a>(scalar) holds verbatim for update_<a>(scalar) *)
Theorem C05_update_scalar_is_with : forall ct h0 l a c d k sp s v inp,
  nth_error (heap s) l = Some (OInst c d) -> lookup_cls ct c = Some k -> lookup_attr k a = Some sp ->
  vscalar v = true ->
  run_helper ct l (HUpdate a) (mkh [v] inp true VMissing false None None [] None) s =
  run_helper ct l (HWith a) (mkh [v] inp true VMissing false None None [] None) s /\
  spec_helper ct h0 (absv (heap s) (VRef l)) (SUpdate a) (mkah [abs0 v] inp true AMissing false None None [] None) =
  spec_helper ct h0 (absv (heap s) (VRef l)) (SWith a) (mkah [abs0 v] inp true AMissing false None None [] None).
Proof.
  intros ct h0 l a c d k sp s v inp Hl Hc Ha Hv. split.
  - exact (update_scalar_model ct l a c d k sp s Hl Hc Ha v inp Hv).
  - exact (update_scalar_spec ct h0 l a c d k sp s Hl Hc Ha v inp Hv).
Qed.

(* copy-run vs in-place-run: deepcopy of a flat instance is abstractly the instance *)
Theorem C05_deepcopy_preserves_abs_flat : forall ct l s c d k r s' n,
  nth_error (heap s) l = Some (OInst c d) -> lookup_cls ct c = Some k -> c_dnc k = false ->
  flat_fields (heap s) d ->
  deepcopy ct (VRef l) s = (Ok r, s') ->
  exists l' d',
    r = VRef l' /\ length (heap s) <= l' /\
    nth_error (heap s') l' = Some (OInst c d') /\ map fst d' = map fst d /\ flat_fields (heap s') d' /\
    abs (S (S n)) (heap s') (VRef l') = abs (S (S n)) (heap s) (VRef l) /\
    fail_at s' = fail_at s /\
    (forall i, i < length (heap s) -> nth_error (heap s') i = nth_error (heap s) i).
Proof. exact deepcopy_flat_abs. Qed.

(* what an instance refers to never reaches the instance in an acyclic graph:
   the lemma that lets the theorems above hold for ARBITRARY other attribute
   values (nested instances, shared containers) *)
Theorem C05_acyclic_fields_independent : forall h l c d n o a w,
  nth_error h l = Some (OInst c d) -> aok (abs (S n) h (VRef l)) = true -> In (a, w) d ->
  abs n (set_nth l o h) w = abs n h w.
Proof. exact abs_indep_field. Qed.

(* non-vacuity: a concrete class, state and calls *)
Definition ex_ct : ctable :=
  [mkcls 2 [mkattr 1 TInt (VInt 3) None 2 true false (Some (FAddInt 1)) None [];
            mkattr 3 (TOpt TInt) VNone None 2 true false None None [1]]
         false false None [2] 2 [] None None].
Definition ex_state : state := mkst [OInst 2 [(1, VInt 4); (3, VInt 9)]] 0 None.

Example C05_examples :
  (* with_a1(5): prepared (5+1), a3 invalidated back to its default None, on a copy *)
  (let '(r, s') := run_helper ex_ct 0 (HWith 1) (mkh [VInt 5] false true VMissing false None None [] None) ex_state in
   r = Ok (VRef 1) /\ nth_error (heap s') 1 = Some (OInst 2 [(1, VInt 6); (3, VNone)])
   /\ nth_error (heap s') 0 = nth_error (heap ex_state) 0) /\
  (* the specification says the same *)
  spec_helper ex_ct [] (absv (heap ex_state) (VRef 0)) (SWith 1)
              (mkah [AInt 5] false true AMissing false None None [] None)
    = SOk (AInst 2 [(1, AInt 6); (3, ANone)]) /\
  (* update(a3=7, _inplace=True) is the assignment a3 = 7 *)
  (let '(r, s') := run_helper ex_ct 0 HUpdateTop (mkh [] true true VMissing false None (Some [(3, VInt 7)]) [] None) ex_state in
   r = Ok (VRef 0) /\ nth_error (heap s') 0 = Some (OInst 2 [(1, VInt 4); (3, VInt 7)])).
Proof. vm_compute. repeat split. Qed.

(* ---------------- more helpers, in place (Inst/RefineMore.v) ---------------- *)
(* transform_<a>(f, _inplace=True): the model refines spec_helper (Ok state and every Err
   class), under the guard of C05_refines_partial plus: f from the pool {identity, +z,
   constant scalar}, and the value currently read for the attribute -- the instance's own,
   else the class-level one: `cur_val` -- is a proper scalar.  What is stored is
   prepare(f(old)); an error raised by f or by the preparer, or a result of the wrong type,
   leaves the heap untouched.  STILL MISSING for transform_<a>: attribute holding nothing
   (builds type()), per-attribute transforms (nested values), collections. *)
Theorem C05_transform_refines_partial : forall ct h0 l a c d k sp s f,
  nth_error (heap s) l = Some (OInst c d) -> lookup_cls ct c = Some k -> lookup_attr k a = Some sp ->
  NoDup (map fst d) -> aok (absv (heap s) (VRef l)) = true ->
  c_frozen k = false -> no_inval k -> fail_at s = None ->
  ty_depth (a_ty sp) < FUEL -> ty_is_collection (a_ty sp) = false ->
  match a_prepare sp with Some g => scalar_fn g = true | None => True end ->
  scalar_fn f = true -> vscalar (cur_val a d k) = true ->
  let h := mkh [] true true VMissing false None None [] (Some f) in
  let ah := mkah [] true true AMissing false None None [] (Some f) in
  match run_helper ct l (HTransform a) h s with
  | (Ok r, s') => r = VRef l /\
                  spec_helper ct h0 (absv (heap s) (VRef l)) (STransform a) ah = SOk (absv (heap s') (VRef l)) /\
                  (forall i, i <> l -> nth_error (heap s') i = nth_error (heap s) i)
  | (Err e, s') => spec_helper ct h0 (absv (heap s) (VRef l)) (STransform a) ah = SErr e /\ heap s' = heap s
  end.
Proof.
  intros ct h0 l a c d k sp s f Hl Hc Ha Hd Hok Hfz Hni Hfa Hty Hnc Hp Hf Hcur.
  exact (transform_scalar_inplace_refines ct h0 l a c d k sp s Hl Hc Ha Hd Hok Hfz Hni Hfa Hty Hnc Hp f Hf Hcur).
Qed.

(* reset_<a>(_inplace=True): the class-level default is a literal (`literal_default`: an
   override in a plain subclass, else the declared default, no default_factory) which is
   either a proper scalar -- the attribute then holds the PREPARED default, exactly what
   with_<a>(default) stores -- or absent (MISSING) -- the attribute is removed, and
   AttributeError with the heap untouched when it holds nothing.  STILL MISSING:
   default_factory, mutable defaults, invalidation. *)
Theorem C05_reset_refines_partial : forall ct h0 l a c d k sp s,
  nth_error (heap s) l = Some (OInst c d) -> lookup_cls ct c = Some k -> lookup_attr k a = Some sp ->
  NoDup (map fst d) -> aok (absv (heap s) (VRef l)) = true ->
  c_frozen k = false -> no_inval k -> fail_at s = None ->
  ty_depth (a_ty sp) < FUEL -> ty_is_collection (a_ty sp) = false ->
  match a_prepare sp with Some g => scalar_fn g = true | None => True end ->
  literal_default a k sp ->
  vscalar (class_default k a) = true \/ class_default k a = VMissing ->
  let h := mkh [] true true VMissing false None None [] None in
  let ah := mkah [] true true AMissing false None None [] None in
  match run_helper ct l (HReset a) h s with
  | (Ok r, s') => r = VRef l /\
                  spec_helper ct h0 (absv (heap s) (VRef l)) (SReset a) ah = SOk (absv (heap s') (VRef l)) /\
                  (forall i, i <> l -> nth_error (heap s') i = nth_error (heap s) i)
  | (Err e, s') => spec_helper ct h0 (absv (heap s) (VRef l)) (SReset a) ah = SErr e /\ heap s' = heap s
  end.
Proof.
  intros ct h0 l a c d k sp s Hl Hc Ha Hd Hok Hfz Hni Hfa Hty Hnc Hp Hlit Hdv.
  exact (reset_scalar_inplace_refines ct h0 l a c d k sp s Hl Hc Ha Hd Hok Hfz Hni Hfa Hty Hnc Hp Hlit Hdv).
Qed.

(* non-vacuity of the two guards: a class without invalidated_by, attribute 1 with default 3
   and preparer +1, attribute 3 Optional[int] without default *)
Definition ex_ct2 : ctable :=
  [mkcls 2 [mkattr 1 TInt (VInt 3) None 2 true false (Some (FAddInt 1)) None [];
            mkattr 3 (TOpt TInt) VMissing None 2 true false None None []]
         false false None [2] 2 [] None None].
Definition ex_k2 : cls := nth 0 ex_ct2 (mkcls 0 [] false false None [] 0 [] None None).
Definition ex_state2 : state := mkst [OInst 2 [(1, VInt 7); (3, VInt 9)]] 0 None.

Example C05_examples_more :
  (* the guard *)
  (lookup_cls ex_ct2 2 = Some ex_k2 /\ c_frozen ex_k2 = false /\ no_inval ex_k2 /\
   aok (absv (heap ex_state2) (VRef 0)) = true /\
   vscalar (cur_val 1 [(1, VInt 7); (3, VInt 9)] ex_k2) = true /\
   vscalar (class_default ex_k2 1) = true /\ class_default ex_k2 3 = VMissing /\
   (forall sp, In sp (c_attrs ex_k2) -> literal_default (a_name sp) ex_k2 sp)) /\
  (* transform_a1(x+10, _inplace=True): 7 -> prepare(17) = 18 *)
  (let '(r, s') := run_helper ex_ct2 0 (HTransform 1) (mkh [] true true VMissing false None None [] (Some (FAddInt 10))) ex_state2 in
   r = Ok (VRef 0) /\ nth_error (heap s') 0 = Some (OInst 2 [(1, VInt 18); (3, VInt 9)])) /\
  spec_helper ex_ct2 [] (absv (heap ex_state2) (VRef 0)) (STransform 1)
              (mkah [] true true AMissing false None None [] (Some (FAddInt 10)))
    = SOk (AInst 2 [(1, AInt 18); (3, AInt 9)]) /\
  (* reset_a1(_inplace=True): the prepared default 3+1; reset_a3: removed *)
  (let '(r, s') := run_helper ex_ct2 0 (HReset 1) (mkh [] true true VMissing false None None [] None) ex_state2 in
   r = Ok (VRef 0) /\ nth_error (heap s') 0 = Some (OInst 2 [(1, VInt 4); (3, VInt 9)])) /\
  (let '(r, s') := run_helper ex_ct2 0 (HReset 3) (mkh [] true true VMissing false None None [] None) ex_state2 in
   r = Ok (VRef 0) /\ nth_error (heap s') 0 = Some (OInst 2 [(1, VInt 7)])) /\
  spec_helper ex_ct2 [] (absv (heap ex_state2) (VRef 0)) (SReset 3)
              (mkah [] true true AMissing false None None [] None)
    = SOk (AInst 2 [(1, AInt 7)]).
Proof.
  split; [|vm_compute; repeat split].
  split; [reflexivity|]. split; [reflexivity|]. split.
  { intros sp [<-|[<-|[]]]; reflexivity. }
  split; [vm_compute; reflexivity|]. split; [reflexivity|]. split; [reflexivity|]. split; [reflexivity|].
  intros sp [<-|[<-|[]]] _; reflexivity.
Qed.

(* update(_inplace=True, a=v, b=w, ...) AS A WHOLE: for every non-empty keyword list whose
   keywords are covered by `kw_ok` (managed non-collection attribute with a pool preparer,
   value a proper scalar or MISSING), the model's final state is the specification's fold
   over the keywords (each keyword an assignment seeing the result of the previous ones),
   and when the call fails, it fails with the error class of the FIRST keyword the
   specification rejects.  Only the receiver's cell is written (the failing call is not
   atomic: earlier keywords stay assigned -- the specification only gives the error class). *)
Theorem C05_update_top_refines_partial : forall ct h0 l c d k s p0 ps,
  nth_error (heap s) l = Some (OInst c d) -> lookup_cls ct c = Some k ->
  NoDup (map fst d) -> aok (absv (heap s) (VRef l)) = true ->
  c_frozen k = false -> no_inval k -> fail_at s = None ->
  forallb (kw_ok k) (p0 :: ps) = true ->
  let h := mkh [] true true VMissing false None (Some (p0 :: ps)) [] None in
  let ah := mkah [] true true AMissing false None (Some (akw (p0 :: ps))) [] None in
  match run_helper ct l HUpdateTop h s with
  | (Ok r, s') => r = VRef l /\
                  spec_helper ct h0 (absv (heap s) (VRef l)) SUpdateTop ah = SOk (absv (heap s') (VRef l)) /\
                  (forall i, i <> l -> nth_error (heap s') i = nth_error (heap s) i) /\
                  length (heap s') = length (heap s)
  | (Err e, s') => spec_helper ct h0 (absv (heap s) (VRef l)) SUpdateTop ah = SErr e /\
                   (forall i, i <> l -> nth_error (heap s') i = nth_error (heap s) i) /\
                   length (heap s') = length (heap s)
  end.
Proof.
  intros ct h0 l c d k s p0 ps Hl Hc Hd Hok Hfz Hni Hfa Hkws.
  exact (update_top_inplace_refines ct h0 l c k Hc Hfz Hni d s p0 ps Hl Hd Hok Hfa Hkws).
Qed.

Example C05_example_update_top :
  forallb (kw_ok ex_k2) [(1, VInt 5); (3, VNone); (1, VBool true)] = true /\
  (let '(r, s') := run_helper ex_ct2 0 HUpdateTop
                     (mkh [] true true VMissing false None (Some [(1, VInt 5); (3, VNone); (1, VBool true)]) [] None) ex_state2 in
   r = Ok (VRef 0) /\ nth_error (heap s') 0 = Some (OInst 2 [(1, VInt 2); (3, VNone)])) /\
  spec_helper ex_ct2 [] (absv (heap ex_state2) (VRef 0)) SUpdateTop
              (mkah [] true true AMissing false None (Some (akw [(1, VInt 5); (3, VNone); (1, VBool true)])) [] None)
    = SOk (AInst 2 [(1, AInt 2); (3, ANone)]) /\
  (* the first rejected keyword decides the error class: a3 = "x" is a TypeError *)
  (let '(r, s') := run_helper ex_ct2 0 HUpdateTop
                     (mkh [] true true VMissing false None (Some [(1, VInt 5); (3, VStr 7); (1, VNone)]) [] None) ex_state2 in
   r = Err TypeErr /\ nth_error (heap s') 0 = Some (OInst 2 [(1, VInt 6); (3, VInt 9)])) /\
  spec_helper ex_ct2 [] (absv (heap ex_state2) (VRef 0)) SUpdateTop
              (mkah [] true true AMissing false None (Some (akw [(1, VInt 5); (3, VStr 7); (1, VNone)])) [] None)
    = SErr TypeErr.
Proof. vm_compute. repeat split. Qed.

(* ---------------- copy-on-write forms (Inst/RefineMore2.v) ---------------- *)
(* the Err outcomes of with_<a>(v) without _inplace on a flat receiver (frozen or not, no
   __post_copy__ hook): the error class is the specification's and nothing at all was
   written -- together with C05_refines_copy_partial and C05_copy_total_partial the call is
   characterised completely under this guard *)
Theorem C05_with_copy_err_partial : forall ct h0 l a c d k sp s v e s',
  nth_error (heap s) l = Some (OInst c d) -> lookup_cls ct c = Some k -> lookup_attr k a = Some sp ->
  flat_fields (heap s) d -> c_dnc k = false -> no_inval k -> fail_at s = None ->
  ty_depth (a_ty sp) < FUEL -> ty_is_collection (a_ty sp) = false ->
  assoc A_INITIALIZING d = None ->
  match a_prepare sp with Some f => scalar_fn f = true | None => True end ->
  vscalar v = true -> c_post_copy k = None ->
  run_helper ct l (HWith a) (mkh [v] false true VMissing false None None [] None) s = (Err e, s') ->
  spec_helper ct h0 (absv (heap s) (VRef l)) (SWith a)
              (mkah [abs0 v] false true AMissing false None None [] None) = SErr e /\ heap s' = heap s.
Proof.
  intros ct h0 l a c d k sp s v e s' Hl Hc Ha Hflat Hdnc Hni Hfa Hty Hnc Hinit Hp Hv Hpc H.
  exact (with_scalar_copy_err ct h0 l a c d k sp s Hl Hc Ha Hflat Hdnc Hni Hfa Hty Hnc Hinit Hp v e s' Hv Hpc H).
Qed.

(* transform_<a>(f) without _inplace on a flat receiver, frozen or not: fresh result whose
   abstraction is the specification's, no old cell changed, copy not left initializing *)
Theorem C05_transform_copy_refines_partial : forall ct h0 l a c d k sp s f r s',
  nth_error (heap s) l = Some (OInst c d) -> lookup_cls ct c = Some k -> lookup_attr k a = Some sp ->
  NoDup (map fst d) -> flat_fields (heap s) d ->
  c_dnc k = false -> no_inval k -> fail_at s = None ->
  ty_depth (a_ty sp) < FUEL -> ty_is_collection (a_ty sp) = false ->
  assoc A_INITIALIZING d = None -> a <> A_INITIALIZING ->
  match a_prepare sp with Some g => scalar_fn g = true | None => True end ->
  scalar_fn f = true -> vscalar (cur_val a d k) = true ->
  run_helper ct l (HTransform a) (mkh [] false true VMissing false None None [] (Some f)) s = (Ok r, s') ->
  exists l' dfin,
    r = VRef l' /\ length (heap s) <= l' /\
    (forall i, i < length (heap s) -> nth_error (heap s') i = nth_error (heap s) i) /\
    spec_helper ct h0 (absv (heap s) (VRef l)) (STransform a)
                (mkah [] false true AMissing false None None [] (Some f)) = SOk (absv (heap s') (VRef l')) /\
    nth_error (heap s') l' = Some (OInst c dfin) /\ assoc A_INITIALIZING dfin = None.
Proof.
  intros ct h0 l a c d k sp s f r s' Hl Hc Ha Hd Hflat Hdnc Hni Hfa Hty Hnc Hinit Ha0 Hp Hf Hcur H.
  exact (transform_scalar_copy_refines ct h0 l a c d k sp s Hl Hc Ha Hd Hflat Hdnc Hni Hfa Hty Hnc Hinit Ha0 Hp f r s' Hf Hcur H).
Qed.

Theorem C05_transform_copy_err_partial : forall ct h0 l a c d k sp s f e s',
  nth_error (heap s) l = Some (OInst c d) -> lookup_cls ct c = Some k -> lookup_attr k a = Some sp ->
  NoDup (map fst d) -> flat_fields (heap s) d ->
  c_dnc k = false -> no_inval k -> fail_at s = None ->
  ty_depth (a_ty sp) < FUEL -> ty_is_collection (a_ty sp) = false ->
  assoc A_INITIALIZING d = None ->
  match a_prepare sp with Some g => scalar_fn g = true | None => True end ->
  scalar_fn f = true -> vscalar (cur_val a d k) = true -> c_post_copy k = None ->
  run_helper ct l (HTransform a) (mkh [] false true VMissing false None None [] (Some f)) s = (Err e, s') ->
  spec_helper ct h0 (absv (heap s) (VRef l)) (STransform a)
              (mkah [] false true AMissing false None None [] (Some f)) = SErr e /\ heap s' = heap s.
Proof.
  intros ct h0 l a c d k sp s f e s' Hl Hc Ha Hd Hflat Hdnc Hni Hfa Hty Hnc Hinit Hp Hf Hcur Hpc H.
  exact (transform_scalar_copy_err ct h0 l a c d k sp s Hl Hc Ha Hd Hflat Hdnc Hni Hfa Hty Hnc Hinit Hp f e s' Hf Hcur Hpc H).
Qed.

(* reset_<a>() and update(a=v, ...) WITHOUT _inplace on a flat receiver of an unfrozen class
   (no __post_copy__ hook): the call is a deep copy followed by the in-place call on the copy
   (which the theorems above characterise), so: the result is a fresh instance whose
   abstraction is the specification's; an Err outcome has the specification's error class;
   in BOTH cases no pre-existing cell is changed (fresh-only footprint -- after a failing
   update(...) the half-updated copy is garbage). *)
Theorem C05_reset_copy_refines_partial : forall ct h0 l a c d k sp s,
  nth_error (heap s) l = Some (OInst c d) -> lookup_cls ct c = Some k -> lookup_attr k a = Some sp ->
  NoDup (map fst d) -> flat_fields (heap s) d ->
  c_dnc k = false -> c_frozen k = false -> no_inval k -> fail_at s = None -> c_post_copy k = None ->
  ty_depth (a_ty sp) < FUEL -> ty_is_collection (a_ty sp) = false ->
  match a_prepare sp with Some g => scalar_fn g = true | None => True end ->
  literal_default a k sp ->
  vscalar (class_default k a) = true \/ class_default k a = VMissing ->
  let h := mkh [] false true VMissing false None None [] None in
  let ah := mkah [] false true AMissing false None None [] None in
  match run_helper ct l (HReset a) h s with
  | (Ok r, s') => exists l', r = VRef l' /\ length (heap s) <= l' /\
                  spec_helper ct h0 (absv (heap s) (VRef l)) (SReset a) ah = SOk (absv (heap s') (VRef l')) /\
                  (forall i, i < length (heap s) -> nth_error (heap s') i = nth_error (heap s) i)
  | (Err e, s') => spec_helper ct h0 (absv (heap s) (VRef l)) (SReset a) ah = SErr e /\
                   (forall i, i < length (heap s) -> nth_error (heap s') i = nth_error (heap s) i)
  end.
Proof.
  intros ct h0 l a c d k sp s Hl Hc Ha Hd Hflat Hdnc Hfz Hni Hfa Hpc Hty Hnc Hp Hlit Hdv.
  exact (reset_scalar_copy_unfrozen ct h0 l c d k s Hl Hc Hd Hflat Hdnc Hfz Hni Hfa Hpc a sp Ha Hty Hnc Hp Hlit Hdv).
Qed.

Theorem C05_update_top_copy_refines_partial : forall ct h0 l c d k s p0 ps,
  nth_error (heap s) l = Some (OInst c d) -> lookup_cls ct c = Some k ->
  NoDup (map fst d) -> flat_fields (heap s) d ->
  c_dnc k = false -> c_frozen k = false -> no_inval k -> fail_at s = None -> c_post_copy k = None ->
  forallb (kw_ok k) (p0 :: ps) = true ->
  let h := mkh [] false true VMissing false None (Some (p0 :: ps)) [] None in
  let ah := mkah [] false true AMissing false None (Some (akw (p0 :: ps))) [] None in
  match run_helper ct l HUpdateTop h s with
  | (Ok r, s') => exists l', r = VRef l' /\ length (heap s) <= l' /\
                  spec_helper ct h0 (absv (heap s) (VRef l)) SUpdateTop ah = SOk (absv (heap s') (VRef l')) /\
                  (forall i, i < length (heap s) -> nth_error (heap s') i = nth_error (heap s) i)
  | (Err e, s') => spec_helper ct h0 (absv (heap s) (VRef l)) SUpdateTop ah = SErr e /\
                   (forall i, i < length (heap s) -> nth_error (heap s') i = nth_error (heap s) i)
  end.
Proof.
  intros ct h0 l c d k s p0 ps Hl Hc Hd Hflat Hdnc Hfz Hni Hfa Hpc Hkws.
  exact (update_top_copy_unfrozen ct h0 l c d k s Hl Hc Hd Hflat Hdnc Hfz Hni Hfa Hpc p0 ps Hkws).
Qed.

Example C05_example_copy :
  flat_fields (heap ex_state2) [(1, VInt 7); (3, VInt 9)] /\ c_post_copy ex_k2 = None /\ c_dnc ex_k2 = false /\
  (* update(a1=5, a3=None): a fresh instance, the receiver untouched *)
  (let '(r, s') := run_helper ex_ct2 0 HUpdateTop
                     (mkh [] false true VMissing false None (Some [(1, VInt 5); (3, VNone)]) [] None) ex_state2 in
   r = Ok (VRef 1) /\ nth_error (heap s') 1 = Some (OInst 2 [(1, VInt 6); (3, VNone)]) /\
   nth_error (heap s') 0 = nth_error (heap ex_state2) 0) /\
  (* a failing update(a1=5, a3="x"): TypeError, receiver untouched, the copy is garbage *)
  (let '(r, s') := run_helper ex_ct2 0 HUpdateTop
                     (mkh [] false true VMissing false None (Some [(1, VInt 5); (3, VStr 7)]) [] None) ex_state2 in
   r = Err TypeErr /\ nth_error (heap s') 0 = nth_error (heap ex_state2) 0) /\
  (* reset_a3(): attribute removed on a copy;  transform_a1(x+10) on a copy *)
  (let '(r, s') := run_helper ex_ct2 0 (HReset 3) (mkh [] false true VMissing false None None [] None) ex_state2 in
   r = Ok (VRef 1) /\ nth_error (heap s') 1 = Some (OInst 2 [(1, VInt 7)])) /\
  (let '(r, s') := run_helper ex_ct2 0 (HTransform 1) (mkh [] false true VMissing false None None [] (Some (FAddInt 10))) ex_state2 in
   r = Ok (VRef 1) /\ nth_error (heap s') 1 = Some (OInst 2 [(1, VInt 18); (3, VInt 9)])).
Proof.
  split.
  { intros p [<-|[<-|[]]]; left; reflexivity. }
  vm_compute. repeat split.
Qed.

(* ---------------- invalidation (Inst/RefineMore3.v) ---------------- *)
(* The "no invalidated_by" guard of C05_refines_partial / C05_setattr_refines_partial lifted:
   `inval_flat k a` -- attribute names are unique, the attributes invalidated by `a` are
   DIRECT dependants (they invalidate nothing themselves, `a` is not among them) and each of
   them is covered by `dep_ok` (non-collection type, pool preparer, literal default that is a
   proper scalar or absent).  Then with_<a>(v, _inplace=True) and obj.a = v store the prepared
   value and reset every dependant once, in declaration order, to its PREPARED default (or
   remove it) -- the abstraction of the final receiver is exactly the specification's
   store-then-invalidate; an error (from the preparer of `a`, the type check, or the reset of
   a dependant) has the specification's class; only the receiver's cell is written.  (The
   Err case no longer says "heap untouched": a dependant's reset may fail after `a` was
   written -- the specification only names the class.)  STILL MISSING: chains of
   invalidation and '*' dependants, dependants with factories / mutable defaults. *)
Theorem C05_refines_inval_partial : forall ct h0 l a c d k sp s v,
  nth_error (heap s) l = Some (OInst c d) -> lookup_cls ct c = Some k -> lookup_attr k a = Some sp ->
  NoDup (map fst d) -> aok (absv (heap s) (VRef l)) = true ->
  c_frozen k = false -> inval_flat k a -> fail_at s = None ->
  ty_depth (a_ty sp) < FUEL -> ty_is_collection (a_ty sp) = false ->
  match a_prepare sp with Some f => scalar_fn f = true | None => True end ->
  vscalar v = true ->
  let h := mkh [v] true true VMissing false None None [] None in
  let ah := mkah [abs0 v] true true AMissing false None None [] None in
  match run_helper ct l (HWith a) h s with
  | (Ok r, s') => r = VRef l /\
                  spec_helper ct h0 (absv (heap s) (VRef l)) (SWith a) ah = SOk (absv (heap s') (VRef l)) /\
                  (forall i, i <> l -> nth_error (heap s') i = nth_error (heap s) i)
  | (Err e, s') => spec_helper ct h0 (absv (heap s) (VRef l)) (SWith a) ah = SErr e /\
                   (forall i, i <> l -> nth_error (heap s') i = nth_error (heap s) i)
  end.
Proof.
  intros ct h0 l a c d k sp s v Hl Hc Ha Hd Hok Hfz Hflat Hfa Hty Hnc Hp Hv.
  exact (with_scalar_inplace_inval_refines ct h0 l a c d k sp s Hl Hc Ha Hd Hok Hfz Hflat Hfa Hty Hnc Hp v Hv).
Qed.

Theorem C05_setattr_refines_inval_partial : forall ct h0 l a c d k sp s roots x v,
  nth_error (heap s) l = Some (OInst c d) -> lookup_cls ct c = Some k -> lookup_attr k a = Some sp ->
  NoDup (map fst d) -> aok (absv (heap s) (VRef l)) = true ->
  c_frozen k = false -> inval_flat k a -> fail_at s = None ->
  ty_depth (a_ty sp) < FUEL -> ty_is_collection (a_ty sp) = false ->
  match a_prepare sp with Some f => scalar_fn f = true | None => True end ->
  nth x roots VNone = VRef l -> vscalar v = true ->
  let ah := mkah [abs0 v] true true AMissing false None None [] None in
  match step ct roots (OpSetAttr x a v) s with
  | (Ok r, s') => spec_helper ct h0 (absv (heap s) (VRef l)) (SSetAttrOp a) ah = SOk (absv (heap s') (VRef l)) /\
                  (forall i, i <> l -> nth_error (heap s') i = nth_error (heap s) i)
  | (Err e, s') => spec_helper ct h0 (absv (heap s) (VRef l)) (SSetAttrOp a) ah = SErr e /\
                   (forall i, i <> l -> nth_error (heap s') i = nth_error (heap s) i)
  end.
Proof.
  intros ct h0 l a c d k sp s roots x v Hl Hc Ha Hd Hok Hfz Hflat Hfa Hty Hnc Hp Hx Hv.
  exact (setattr_scalar_inval_refines ct h0 l a c d k sp s Hl Hc Ha Hd Hok Hfz Hflat Hfa Hty Hnc Hp roots x v Hx Hv).
Qed.

(* non-vacuity: the class of C05_examples (a3 is invalidated by a1) meets inval_flat for a1 *)
Definition ex_k : cls := nth 0 ex_ct (mkcls 0 [] false false None [] 0 [] None None).
Example C05_example_inval :
  lookup_cls ex_ct 2 = Some ex_k /\ inval_flat ex_k 1 /\ dependants ex_k 1 = [3] /\
  (let '(r, s') := run_helper ex_ct 0 (HWith 1) (mkh [VInt 5] true true VMissing false None None [] None) ex_state in
   r = Ok (VRef 0) /\ nth_error (heap s') 0 = Some (OInst 2 [(1, VInt 6); (3, VNone)])) /\
  spec_helper ex_ct [] (absv (heap ex_state) (VRef 0)) (SWith 1)
              (mkah [AInt 5] true true AMissing false None None [] None)
    = SOk (AInst 2 [(1, AInt 6); (3, ANone)]).
Proof.
  split; [reflexivity|]. split.
  { split; [vm_compute; repeat constructor; simpl; intuition discriminate|].
    split; [vm_compute; intuition discriminate|]. split.
    - intros b Hb. vm_compute in Hb. destruct Hb as [<-|[]]. reflexivity.
    - intros sp [<-|[<-|[]]] Hdep; [discriminate Hdep|vm_compute; reflexivity]. }
  vm_compute. repeat split.
Qed.

(* ---------------- reset() as a whole (Inst/RefineMore4.v) ---------------- *)
(* every managed attribute of the class is covered by `dep_ok` (non-collection, pool
   preparer, literal default: proper scalar or none), names unique, no invalidated_by:
   reset(_inplace=True) leaves exactly the state the specification's fold over the
   attributes computes (prepared defaults; attributes without default removed; an attribute
   that has no default and holds nothing is skipped), or fails with its first error class *)
Theorem C05_reset_top_refines_partial : forall ct h0 l c d k s,
  nth_error (heap s) l = Some (OInst c d) -> lookup_cls ct c = Some k ->
  NoDup (map fst d) -> aok (absv (heap s) (VRef l)) = true ->
  c_frozen k = false -> no_inval k -> fail_at s = None ->
  NoDup (map a_name (c_attrs k)) -> forallb (dep_ok k) (c_attrs k) = true ->
  let h := mkh [] true true VMissing false None None [] None in
  let ah := mkah [] true true AMissing false None None [] None in
  match run_helper ct l HResetTop h s with
  | (Ok r, s') => r = VRef l /\
                  spec_helper ct h0 (absv (heap s) (VRef l)) SResetTop ah = SOk (absv (heap s') (VRef l)) /\
                  (forall i, i <> l -> nth_error (heap s') i = nth_error (heap s) i)
  | (Err e, s') => spec_helper ct h0 (absv (heap s) (VRef l)) SResetTop ah = SErr e /\
                   (forall i, i <> l -> nth_error (heap s') i = nth_error (heap s) i)
  end.
Proof.
  intros ct h0 l c d k s Hl Hc Hd Hok Hfz Hni Hfa Hnames Hall.
  exact (reset_top_inplace_refines ct h0 l c d k s Hl Hc Hd Hok Hfz Hni Hfa Hnames Hall).
Qed.

(* ... and without _inplace on a flat receiver (unfrozen class, no __post_copy__ hook) *)
Theorem C05_reset_top_copy_refines_partial : forall ct h0 l c d k s,
  nth_error (heap s) l = Some (OInst c d) -> lookup_cls ct c = Some k ->
  NoDup (map fst d) -> flat_fields (heap s) d ->
  c_dnc k = false -> c_frozen k = false -> no_inval k -> fail_at s = None -> c_post_copy k = None ->
  NoDup (map a_name (c_attrs k)) -> forallb (dep_ok k) (c_attrs k) = true ->
  let h := mkh [] false true VMissing false None None [] None in
  let ah := mkah [] false true AMissing false None None [] None in
  match run_helper ct l HResetTop h s with
  | (Ok r, s') => exists l', r = VRef l' /\ length (heap s) <= l' /\
                  spec_helper ct h0 (absv (heap s) (VRef l)) SResetTop ah = SOk (absv (heap s') (VRef l')) /\
                  (forall i, i < length (heap s) -> nth_error (heap s') i = nth_error (heap s) i)
  | (Err e, s') => spec_helper ct h0 (absv (heap s) (VRef l)) SResetTop ah = SErr e /\
                   (forall i, i < length (heap s) -> nth_error (heap s') i = nth_error (heap s) i)
  end.
Proof.
  intros ct h0 l c d k s Hl Hc Hd Hflat Hdnc Hfz Hni Hfa Hpc Hnames Hall.
  exact (reset_top_copy_unfrozen ct h0 l c d k s Hl Hc Hd Hflat Hdnc Hfz Hni Hfa Hpc Hnames Hall).
Qed.

Example C05_example_reset_top :
  forallb (dep_ok ex_k2) (c_attrs ex_k2) = true /\ NoDup (map a_name (c_attrs ex_k2)) /\
  (let '(r, s') := run_helper ex_ct2 0 HResetTop (mkh [] true true VMissing false None None [] None) ex_state2 in
   r = Ok (VRef 0) /\ nth_error (heap s') 0 = Some (OInst 2 [(1, VInt 4)])) /\
  spec_helper ex_ct2 [] (absv (heap ex_state2) (VRef 0)) SResetTop (mkah [] true true AMissing false None None [] None)
    = SOk (AInst 2 [(1, AInt 4)]) /\
  (* a second reset(): a3 holds nothing and has no default -- skipped, not an error *)
  (let '(r, s') := run_helper ex_ct2 0 HResetTop (mkh [] true true VMissing false None None [] None)
                     (mkst [OInst 2 [(1, VInt 4)]] 0 None) in
   r = Ok (VRef 0) /\ nth_error (heap s') 0 = Some (OInst 2 [(1, VInt 4)])).
Proof.
  split; [vm_compute; reflexivity|]. split; [vm_compute; repeat constructor; simpl; intuition discriminate|].
  vm_compute. repeat split.
Qed.

(* ---------------- transform(a=f, b=g, ...) as a whole (Inst/RefineMore4.v) ---------------- *)
(* every per-attribute transform is covered by `kwfn_ok` in the receiver's state: managed
   non-collection attribute with a pool preparer, f from the pool, current value (the
   instance's or the class-level one) a proper scalar.  The model's final state is the
   specification's fold (each transform reads the value left by the previous ones, stores
   prepare(f(old))); a failure has the class of the first failing step. *)
Theorem C05_transform_top_refines_partial : forall ct h0 l c d k s p0 ps,
  nth_error (heap s) l = Some (OInst c d) -> lookup_cls ct c = Some k ->
  NoDup (map fst d) -> aok (absv (heap s) (VRef l)) = true ->
  c_frozen k = false -> no_inval k -> fail_at s = None ->
  forallb (kwfn_ok k d) (p0 :: ps) = true ->
  let h := mkh [] true true VMissing false None None (p0 :: ps) None in
  let ah := mkah [] true true AMissing false None None (p0 :: ps) None in
  match run_helper ct l HTransformTop h s with
  | (Ok r, s') => r = VRef l /\
                  spec_helper ct h0 (absv (heap s) (VRef l)) STransformTop ah = SOk (absv (heap s') (VRef l)) /\
                  (forall i, i <> l -> nth_error (heap s') i = nth_error (heap s) i)
  | (Err e, s') => spec_helper ct h0 (absv (heap s) (VRef l)) STransformTop ah = SErr e /\
                   (forall i, i <> l -> nth_error (heap s') i = nth_error (heap s) i)
  end.
Proof.
  intros ct h0 l c d k s p0 ps Hl Hc Hd Hok Hfz Hni Hfa Hkws.
  exact (transform_top_inplace_refines ct h0 l c d k s Hl Hc Hd Hfz Hni Hfa p0 ps Hok Hkws).
Qed.

Theorem C05_transform_top_copy_refines_partial : forall ct h0 l c d k s p0 ps,
  nth_error (heap s) l = Some (OInst c d) -> lookup_cls ct c = Some k ->
  NoDup (map fst d) -> flat_fields (heap s) d ->
  c_dnc k = false -> c_frozen k = false -> no_inval k -> fail_at s = None -> c_post_copy k = None ->
  forallb (kwfn_ok k d) (p0 :: ps) = true ->
  let h := mkh [] false true VMissing false None None (p0 :: ps) None in
  let ah := mkah [] false true AMissing false None None (p0 :: ps) None in
  match run_helper ct l HTransformTop h s with
  | (Ok r, s') => exists l', r = VRef l' /\ length (heap s) <= l' /\
                  spec_helper ct h0 (absv (heap s) (VRef l)) STransformTop ah = SOk (absv (heap s') (VRef l')) /\
                  (forall i, i < length (heap s) -> nth_error (heap s') i = nth_error (heap s) i)
  | (Err e, s') => spec_helper ct h0 (absv (heap s) (VRef l)) STransformTop ah = SErr e /\
                   (forall i, i < length (heap s) -> nth_error (heap s') i = nth_error (heap s) i)
  end.
Proof.
  intros ct h0 l c d k s p0 ps Hl Hc Hd Hflat Hdnc Hfz Hni Hfa Hpc Hkws.
  exact (transform_top_copy_unfrozen ct h0 l c d k s Hl Hc Hd Hfz Hni Hfa p0 ps Hflat Hdnc Hpc Hkws).
Qed.

Example C05_example_transform_top :
  forallb (kwfn_ok ex_k2 [(1, VInt 7); (3, VInt 9)]) [(1, FAddInt 10); (3, FConst VNone); (1, FId)] = true /\
  (* a1: 7 -> 18 -> prepare(18) = 19 (the second transform of a1 sees the first one's result) *)
  (let '(r, s') := run_helper ex_ct2 0 HTransformTop
                     (mkh [] true true VMissing false None None [(1, FAddInt 10); (3, FConst VNone); (1, FId)] None) ex_state2 in
   r = Ok (VRef 0) /\ nth_error (heap s') 0 = Some (OInst 2 [(1, VInt 19); (3, VNone)])) /\
  spec_helper ex_ct2 [] (absv (heap ex_state2) (VRef 0)) STransformTop
              (mkah [] true true AMissing false None None [(1, FAddInt 10); (3, FConst VNone); (1, FId)] None)
    = SOk (AInst 2 [(1, AInt 19); (3, ANone)]).
Proof. vm_compute. repeat split. Qed.

(* del obj.a : the same computation as reset_<a>(_inplace=True) up to the value handed back,
   hence the same refinement (SDelAttrOp is specified as reset_<a> in place) *)
Theorem C05_delattr_refines_partial : forall ct h0 l a c d k sp s roots x,
  nth_error (heap s) l = Some (OInst c d) -> lookup_cls ct c = Some k -> lookup_attr k a = Some sp ->
  NoDup (map fst d) -> aok (absv (heap s) (VRef l)) = true ->
  c_frozen k = false -> no_inval k -> fail_at s = None ->
  ty_depth (a_ty sp) < FUEL -> ty_is_collection (a_ty sp) = false ->
  match a_prepare sp with Some g => scalar_fn g = true | None => True end ->
  nth x roots VNone = VRef l ->
  literal_default a k sp ->
  vscalar (class_default k a) = true \/ class_default k a = VMissing ->
  let ah := mkah [] true true AMissing false None None [] None in
  match step ct roots (OpDelAttr x a) s with
  | (Ok r, s') => spec_helper ct h0 (absv (heap s) (VRef l)) (SDelAttrOp a) ah = SOk (absv (heap s') (VRef l)) /\
                  (forall i, i <> l -> nth_error (heap s') i = nth_error (heap s) i)
  | (Err e, s') => spec_helper ct h0 (absv (heap s) (VRef l)) (SDelAttrOp a) ah = SErr e /\ heap s' = heap s
  end.
Proof.
  intros ct h0 l a c d k sp s roots x Hl Hc Ha Hd Hok Hfz Hni Hfa Hty Hnc Hp Hx Hlit Hdv.
  exact (delattr_op_refines ct h0 l a c d k sp s Hl Hc Ha Hd Hok Hfz Hni Hfa Hty Hnc Hp roots x Hx Hlit Hdv).
Qed.

(* ---------------- copy-run vs in-place-run (Inst/RefineMore5.v) ---------------- *)
(* "With _inplace=True the identical resulting state appears on the receiver itself":
   `same_outcome l rc ri` says of the copy-on-write run rc and the in-place run ri of one
   call on one receiver l in one state: both succeed, rc returns a reference l', ri returns
   l itself and absv(l' after rc) = absv(l after ri); or both fail with the same error class.
   Proved for a flat receiver of an unfrozen class without invalidated_by and without
   __post_copy__ hook, for the six call forms characterised above (both runs refine the same
   specification, which does not look at _inplace). *)
Theorem C05_copy_vs_inplace_with_partial : forall ct l c d k s a sp v,
  nth_error (heap s) l = Some (OInst c d) -> lookup_cls ct c = Some k ->
  NoDup (map fst d) -> flat_fields (heap s) d ->
  c_dnc k = false -> c_frozen k = false -> no_inval k -> fail_at s = None -> c_post_copy k = None ->
  assoc A_INITIALIZING d = None ->
  lookup_attr k a = Some sp -> ty_depth (a_ty sp) < FUEL -> ty_is_collection (a_ty sp) = false ->
  match a_prepare sp with Some f => scalar_fn f = true | None => True end ->
  a <> A_INITIALIZING -> vscalar v = true ->
  same_outcome l (run_helper ct l (HWith a) (mkh [v] false true VMissing false None None [] None) s)
                 (run_helper ct l (HWith a) (mkh [v] true true VMissing false None None [] None) s).
Proof.
  intros ct l c d k s a sp v Hl Hc Hd Hflat Hdnc Hfz Hni Hfa Hpc Hinit.
  exact (with_copy_vs_inplace ct [] l c d k s Hl Hc Hd Hflat Hdnc Hfz Hni Hfa Hpc Hinit a sp v).
Qed.

Theorem C05_copy_vs_inplace_transform_partial : forall ct l c d k s a sp f,
  nth_error (heap s) l = Some (OInst c d) -> lookup_cls ct c = Some k ->
  NoDup (map fst d) -> flat_fields (heap s) d ->
  c_dnc k = false -> c_frozen k = false -> no_inval k -> fail_at s = None -> c_post_copy k = None ->
  assoc A_INITIALIZING d = None ->
  lookup_attr k a = Some sp -> ty_depth (a_ty sp) < FUEL -> ty_is_collection (a_ty sp) = false ->
  match a_prepare sp with Some g => scalar_fn g = true | None => True end ->
  a <> A_INITIALIZING -> scalar_fn f = true -> vscalar (cur_val a d k) = true ->
  same_outcome l (run_helper ct l (HTransform a) (mkh [] false true VMissing false None None [] (Some f)) s)
                 (run_helper ct l (HTransform a) (mkh [] true true VMissing false None None [] (Some f)) s).
Proof.
  intros ct l c d k s a sp f Hl Hc Hd Hflat Hdnc Hfz Hni Hfa Hpc Hinit.
  exact (transform_copy_vs_inplace ct [] l c d k s Hl Hc Hd Hflat Hdnc Hfz Hni Hfa Hpc Hinit a sp f).
Qed.

Theorem C05_copy_vs_inplace_reset_partial : forall ct l c d k s a sp,
  nth_error (heap s) l = Some (OInst c d) -> lookup_cls ct c = Some k ->
  NoDup (map fst d) -> flat_fields (heap s) d ->
  c_dnc k = false -> c_frozen k = false -> no_inval k -> fail_at s = None -> c_post_copy k = None ->
  lookup_attr k a = Some sp -> ty_depth (a_ty sp) < FUEL -> ty_is_collection (a_ty sp) = false ->
  match a_prepare sp with Some g => scalar_fn g = true | None => True end ->
  literal_default a k sp -> vscalar (class_default k a) = true \/ class_default k a = VMissing ->
  same_outcome l (run_helper ct l (HReset a) (mkh [] false true VMissing false None None [] None) s)
                 (run_helper ct l (HReset a) (mkh [] true true VMissing false None None [] None) s).
Proof.
  intros ct l c d k s a sp Hl Hc Hd Hflat Hdnc Hfz Hni Hfa Hpc.
  exact (reset_copy_vs_inplace ct [] l c d k s Hl Hc Hd Hflat Hdnc Hfz Hni Hfa Hpc a sp).
Qed.

Theorem C05_copy_vs_inplace_toplevel_partial : forall ct l c d k s,
  nth_error (heap s) l = Some (OInst c d) -> lookup_cls ct c = Some k ->
  NoDup (map fst d) -> flat_fields (heap s) d ->
  c_dnc k = false -> c_frozen k = false -> no_inval k -> fail_at s = None -> c_post_copy k = None ->
  (* update(a=v, ...) *)
  (forall p0 ps, forallb (kw_ok k) (p0 :: ps) = true ->
     same_outcome l (run_helper ct l HUpdateTop (mkh [] false true VMissing false None (Some (p0 :: ps)) [] None) s)
                    (run_helper ct l HUpdateTop (mkh [] true true VMissing false None (Some (p0 :: ps)) [] None) s)) /\
  (* transform(a=f, ...) *)
  (forall p0 ps, forallb (kwfn_ok k d) (p0 :: ps) = true ->
     same_outcome l (run_helper ct l HTransformTop (mkh [] false true VMissing false None None (p0 :: ps) None) s)
                    (run_helper ct l HTransformTop (mkh [] true true VMissing false None None (p0 :: ps) None) s)) /\
  (* reset() *)
  (NoDup (map a_name (c_attrs k)) -> forallb (dep_ok k) (c_attrs k) = true ->
     same_outcome l (run_helper ct l HResetTop (mkh [] false true VMissing false None None [] None) s)
                    (run_helper ct l HResetTop (mkh [] true true VMissing false None None [] None) s)).
Proof.
  intros ct l c d k s Hl Hc Hd Hflat Hdnc Hfz Hni Hfa Hpc. split; [|split].
  - exact (update_top_copy_vs_inplace ct [] l c d k s Hl Hc Hd Hflat Hdnc Hfz Hni Hfa Hpc).
  - exact (transform_top_copy_vs_inplace ct [] l c d k s Hl Hc Hd Hflat Hdnc Hfz Hni Hfa Hpc).
  - exact (reset_top_copy_vs_inplace ct [] l c d k s Hl Hc Hd Hflat Hdnc Hfz Hni Hfa Hpc).
Qed.

(* ---------------- invalidation for the other in-place helpers (Inst/RefineMore6.v) ---------------- *)
(* `inval_flat k a` instead of `no_inval k` (see C05_refines_inval_partial) for
   transform_<a>(f, _inplace=True), reset_<a>(_inplace=True) -- resetting `a` invalidates
   its dependants too -- and update(_inplace=True, a=v, ...) as a whole, where every keyword
   that is not MISSING names an attribute with direct dependants (`kw_inval_ok`); the
   building block is `assign_inval_closed` (store with invalidation: outcome, specification,
   and the receiver is a well-formed cell again). *)
Theorem C05_transform_refines_inval_partial : forall ct h0 l a c d k sp s f,
  nth_error (heap s) l = Some (OInst c d) -> lookup_cls ct c = Some k -> lookup_attr k a = Some sp ->
  NoDup (map fst d) -> aok (absv (heap s) (VRef l)) = true ->
  c_frozen k = false -> inval_flat k a -> fail_at s = None ->
  ty_depth (a_ty sp) < FUEL -> ty_is_collection (a_ty sp) = false ->
  match a_prepare sp with Some g => scalar_fn g = true | None => True end ->
  scalar_fn f = true -> vscalar (cur_val a d k) = true ->
  let h := mkh [] true true VMissing false None None [] (Some f) in
  let ah := mkah [] true true AMissing false None None [] (Some f) in
  match run_helper ct l (HTransform a) h s with
  | (Ok r, s') => r = VRef l /\
                  spec_helper ct h0 (absv (heap s) (VRef l)) (STransform a) ah = SOk (absv (heap s') (VRef l)) /\
                  (forall i, i <> l -> nth_error (heap s') i = nth_error (heap s) i)
  | (Err e, s') => spec_helper ct h0 (absv (heap s) (VRef l)) (STransform a) ah = SErr e /\
                   (forall i, i <> l -> nth_error (heap s') i = nth_error (heap s) i)
  end.
Proof.
  intros ct h0 l a c d k sp s f Hl Hc Ha Hd Hok Hfz Hflat Hfa Hty Hnc Hp Hf Hcur.
  exact (transform_scalar_inplace_inval_refines ct h0 l a c d k sp s Hl Hc Ha Hd Hok Hfz Hflat Hfa Hty Hnc Hp f Hf Hcur).
Qed.

Theorem C05_reset_refines_inval_partial : forall ct h0 l a c d k sp s,
  nth_error (heap s) l = Some (OInst c d) -> lookup_cls ct c = Some k -> lookup_attr k a = Some sp ->
  NoDup (map fst d) -> aok (absv (heap s) (VRef l)) = true ->
  c_frozen k = false -> inval_flat k a -> fail_at s = None ->
  ty_depth (a_ty sp) < FUEL -> ty_is_collection (a_ty sp) = false ->
  match a_prepare sp with Some g => scalar_fn g = true | None => True end ->
  literal_default a k sp ->
  vscalar (class_default k a) = true \/ class_default k a = VMissing ->
  let h := mkh [] true true VMissing false None None [] None in
  let ah := mkah [] true true AMissing false None None [] None in
  match run_helper ct l (HReset a) h s with
  | (Ok r, s') => r = VRef l /\
                  spec_helper ct h0 (absv (heap s) (VRef l)) (SReset a) ah = SOk (absv (heap s') (VRef l)) /\
                  (forall i, i <> l -> nth_error (heap s') i = nth_error (heap s) i)
  | (Err e, s') => spec_helper ct h0 (absv (heap s) (VRef l)) (SReset a) ah = SErr e /\
                   (forall i, i <> l -> nth_error (heap s') i = nth_error (heap s) i)
  end.
Proof.
  intros ct h0 l a c d k sp s Hl Hc Ha Hd Hok Hfz Hflat Hfa Hty Hnc Hp Hlit Hdv.
  exact (reset_scalar_inplace_inval_refines ct h0 l a c d k sp s Hl Hc Ha Hd Hok Hfz Hflat Hfa Hty Hnc Hp Hlit Hdv).
Qed.

Theorem C05_update_top_refines_inval_partial : forall ct h0 l c d k s p0 ps,
  nth_error (heap s) l = Some (OInst c d) -> lookup_cls ct c = Some k ->
  NoDup (map fst d) -> aok (absv (heap s) (VRef l)) = true ->
  c_frozen k = false -> fail_at s = None ->
  Forall (kw_inval_ok k) (p0 :: ps) ->
  let h := mkh [] true true VMissing false None (Some (p0 :: ps)) [] None in
  let ah := mkah [] true true AMissing false None (Some (akw (p0 :: ps))) [] None in
  match run_helper ct l HUpdateTop h s with
  | (Ok r, s') => r = VRef l /\
                  spec_helper ct h0 (absv (heap s) (VRef l)) SUpdateTop ah = SOk (absv (heap s') (VRef l)) /\
                  (forall i, i <> l -> nth_error (heap s') i = nth_error (heap s) i)
  | (Err e, s') => spec_helper ct h0 (absv (heap s) (VRef l)) SUpdateTop ah = SErr e /\
                   (forall i, i <> l -> nth_error (heap s') i = nth_error (heap s) i)
  end.
Proof.
  intros ct h0 l c d k s p0 ps Hl Hc Hd Hok Hfz Hfa Hkws.
  exact (update_top_inplace_inval_refines ct h0 l c k Hc Hfz d s p0 ps Hl Hd Hok Hfa Hkws).
Qed.

(* non-vacuity: on the class of C05_examples the order of the keywords matters --
   update(a3=7, a1=5): a3 := 7, then a1 := prepare(5) = 6 resets a3 to None *)
Example C05_example_update_top_inval :
  Forall (kw_inval_ok ex_k) [(3, VInt 7); (1, VInt 5)] /\
  (let '(r, s') := run_helper ex_ct 0 HUpdateTop
                     (mkh [] true true VMissing false None (Some [(3, VInt 7); (1, VInt 5)]) [] None) ex_state in
   r = Ok (VRef 0) /\ nth_error (heap s') 0 = Some (OInst 2 [(1, VInt 6); (3, VNone)])) /\
  spec_helper ex_ct [] (absv (heap ex_state) (VRef 0)) SUpdateTop
              (mkah [] true true AMissing false None (Some (akw [(3, VInt 7); (1, VInt 5)])) [] None)
    = SOk (AInst 2 [(1, AInt 6); (3, ANone)]) /\
  (let '(r, s') := run_helper ex_ct 0 HUpdateTop
                     (mkh [] true true VMissing false None (Some [(1, VInt 5); (3, VInt 7)]) [] None) ex_state in
   r = Ok (VRef 0) /\ nth_error (heap s') 0 = Some (OInst 2 [(1, VInt 6); (3, VInt 7)])).
Proof.
  split; [|vm_compute; repeat split].
  constructor; [|constructor; [|constructor]].
  - split; [vm_compute; reflexivity|]. intros _. cbn [fst].
    split; [vm_compute; repeat constructor; simpl; intuition discriminate|].
    split; [vm_compute; intuition|]. split.
    + intros b Hb. vm_compute in Hb. destruct Hb.
    + intros sp [<-|[<-|[]]] Hdep; discriminate Hdep.
  - split; [vm_compute; reflexivity|]. intros _. exact (proj1 (proj2 C05_example_inval)).
Qed.

(* ---------------- values built from nothing (Inst/RefineMore7.v) ---------------- *)
(* with_<a>(_inplace=True) without a value (or with MISSING): an empty value of the declared
   type is stored -- type(): 0, '', False, None (`empty_val`) -- and the preparer is NOT run;
   Optional / Union / Any cannot be instantiated: TypeError, heap untouched.  `plain_ty`: the
   annotation is neither a collection nor (optionally) a spec class.  Interpretation
   decision (1) of docs/C05.md, now also a theorem about the model. *)
Theorem C05_with_nothing_refines_partial : forall ct h0 l a c d k sp s,
  nth_error (heap s) l = Some (OInst c d) -> lookup_cls ct c = Some k -> lookup_attr k a = Some sp ->
  NoDup (map fst d) -> aok (absv (heap s) (VRef l)) = true ->
  c_frozen k = false -> no_inval k -> fail_at s = None ->
  ty_depth (a_ty sp) < FUEL -> plain_ty (a_ty sp) = true ->
  let h := mkh [] true true VMissing false None None [] None in
  let ah := mkah [] true true AMissing false None None [] None in
  match run_helper ct l (HWith a) h s with
  | (Ok r, s') => r = VRef l /\
                  spec_helper ct h0 (absv (heap s) (VRef l)) (SWith a) ah = SOk (absv (heap s') (VRef l)) /\
                  (forall i, i <> l -> nth_error (heap s') i = nth_error (heap s) i)
  | (Err e, s') => spec_helper ct h0 (absv (heap s) (VRef l)) (SWith a) ah = SErr e /\ heap s' = heap s
  end.
Proof.
  intros ct h0 l a c d k sp s Hl Hc Ha Hd Hok Hfz Hni Hfa Hty Hplain.
  exact (with_nothing_inplace_refines ct h0 l a c d k sp s Hl Hc Ha Hd Hok Hfz Hni Hty Hplain).
Qed.

(* transform_<a>(f, _inplace=True) on an attribute that holds nothing (no own value, no
   class-level default: cur_val = MISSING): f is applied to type() (interpretation
   decision (5)), the result is prepared and stored *)
Theorem C05_transform_nothing_refines_partial : forall ct h0 l a c d k sp s f,
  nth_error (heap s) l = Some (OInst c d) -> lookup_cls ct c = Some k -> lookup_attr k a = Some sp ->
  NoDup (map fst d) -> aok (absv (heap s) (VRef l)) = true ->
  c_frozen k = false -> no_inval k -> fail_at s = None ->
  ty_depth (a_ty sp) < FUEL -> plain_ty (a_ty sp) = true ->
  match a_prepare sp with Some g => scalar_fn g = true | None => True end ->
  scalar_fn f = true -> cur_val a d k = VMissing ->
  let h := mkh [] true true VMissing false None None [] (Some f) in
  let ah := mkah [] true true AMissing false None None [] (Some f) in
  match run_helper ct l (HTransform a) h s with
  | (Ok r, s') => r = VRef l /\
                  spec_helper ct h0 (absv (heap s) (VRef l)) (STransform a) ah = SOk (absv (heap s') (VRef l)) /\
                  (forall i, i <> l -> nth_error (heap s') i = nth_error (heap s) i)
  | (Err e, s') => spec_helper ct h0 (absv (heap s) (VRef l)) (STransform a) ah = SErr e /\ heap s' = heap s
  end.
Proof.
  intros ct h0 l a c d k sp s f Hl Hc Ha Hd Hok Hfz Hni Hfa Hty Hplain Hp Hf Hcur.
  exact (transform_nothing_inplace_refines ct h0 l a c d k sp s Hl Hc Ha Hd Hok Hfz Hni Hfa Hty Hplain f Hp Hf Hcur).
Qed.

Example C05_example_nothing :
  (* a1 : int -> 0 (NOT prepare(0) = 1);  a3 : Optional[int] -> TypeError *)
  (let '(r, s') := run_helper ex_ct2 0 (HWith 1) (mkh [] true true VMissing false None None [] None) ex_state2 in
   r = Ok (VRef 0) /\ nth_error (heap s') 0 = Some (OInst 2 [(1, VInt 0); (3, VInt 9)])) /\
  spec_helper ex_ct2 [] (absv (heap ex_state2) (VRef 0)) (SWith 1) (mkah [] true true AMissing false None None [] None)
    = SOk (AInst 2 [(1, AInt 0); (3, AInt 9)]) /\
  (let '(r, s') := run_helper ex_ct2 0 (HWith 3) (mkh [] true true VMissing false None None [] None) ex_state2 in
   r = Err TypeErr /\ s' = ex_state2) /\
  spec_helper ex_ct2 [] (absv (heap ex_state2) (VRef 0)) (SWith 3) (mkah [] true true AMissing false None None [] None)
    = SErr TypeErr /\
  (* transform_a1(x+10) after a1 was deleted... a1 has a default, so use a class without one:
     here the receiver lacks a3 (no default): Optional[int] cannot be instantiated *)
  (let '(r, s') := run_helper ex_ct2 0 (HTransform 3) (mkh [] true true VMissing false None None [] (Some FId))
                     (mkst [OInst 2 [(1, VInt 7)]] 0 None) in
   r = Err TypeErr).
Proof. vm_compute. repeat split. Qed.

(* ---------------- nested values: an existing instance (Inst/RefineMore8.v) ---------------- *)
(* with_<a>(x, _inplace=True) / obj.a = x where x is a reference to an existing instance
   (class cv, acyclic: aok (abs 23 ..)) that does not reach the receiver (`forall o, abs 23
   (set_nth l o h) x = abs 23 h x`; `indep_below`: e.g. x lives in a closed region of the
   heap below the receiver): no preparer or the identity.  The reference itself is stored
   (the receiver's cell is the only one written), the receiver's abstraction gets abs(x)
   under `a`, the type check is `conforms` (subclass test through Optional/Union/Any).
   STILL MISSING for nested values: keywords building / updating the nested value,
   dict-as-constructor-arguments, copy-on-write (deep copy of nested receivers). *)
Theorem C05_refines_instance_partial : forall ct h0 l a c d k sp s lv cv dv,
  nth_error (heap s) l = Some (OInst c d) -> lookup_cls ct c = Some k -> lookup_attr k a = Some sp ->
  NoDup (map fst d) -> aok (absv (heap s) (VRef l)) = true ->
  c_frozen k = false -> no_inval k -> fail_at s = None ->
  ty_depth (a_ty sp) < FUEL -> ty_is_collection (a_ty sp) = false ->
  a_prepare sp = None \/ a_prepare sp = Some FId ->
  nth_error (heap s) lv = Some (OInst cv dv) -> aok (abs 23 (heap s) (VRef lv)) = true ->
  (forall o, abs 23 (set_nth l o (heap s)) (VRef lv) = abs 23 (heap s) (VRef lv)) ->
  let h := mkh [VRef lv] true true VMissing false None None [] None in
  let ah := mkah [absv (heap s) (VRef lv)] true true AMissing false None None [] None in
  match run_helper ct l (HWith a) h s with
  | (Ok r, s') => r = VRef l /\
                  spec_helper ct h0 (absv (heap s) (VRef l)) (SWith a) ah = SOk (absv (heap s') (VRef l)) /\
                  (forall i, i <> l -> nth_error (heap s') i = nth_error (heap s) i)
  | (Err e, s') => spec_helper ct h0 (absv (heap s) (VRef l)) (SWith a) ah = SErr e /\ heap s' = heap s
  end.
Proof.
  intros ct h0 l a c d k sp s lv cv dv Hl Hc Ha Hd Hok Hfz Hni Hfa Hty Hnc Hprep Hv Hvok Hindep.
  exact (with_instance_inplace_refines ct h0 l a c d k sp s lv cv dv Hl Hc Ha Hd Hok Hfz Hni Hfa Hty Hnc Hprep Hv Hvok Hindep).
Qed.

Theorem C05_setattr_refines_instance_partial : forall ct h0 l a c d k sp s lv cv dv roots x,
  nth_error (heap s) l = Some (OInst c d) -> lookup_cls ct c = Some k -> lookup_attr k a = Some sp ->
  NoDup (map fst d) -> aok (absv (heap s) (VRef l)) = true ->
  c_frozen k = false -> no_inval k -> fail_at s = None ->
  ty_depth (a_ty sp) < FUEL -> ty_is_collection (a_ty sp) = false ->
  a_prepare sp = None \/ a_prepare sp = Some FId ->
  nth_error (heap s) lv = Some (OInst cv dv) -> aok (abs 23 (heap s) (VRef lv)) = true ->
  (forall o, abs 23 (set_nth l o (heap s)) (VRef lv) = abs 23 (heap s) (VRef lv)) ->
  nth x roots VNone = VRef l ->
  let ah := mkah [absv (heap s) (VRef lv)] true true AMissing false None None [] None in
  match step ct roots (OpSetAttr x a (VRef lv)) s with
  | (Ok r, s') => spec_helper ct h0 (absv (heap s) (VRef l)) (SSetAttrOp a) ah = SOk (absv (heap s') (VRef l)) /\
                  (forall i, i <> l -> nth_error (heap s') i = nth_error (heap s) i)
  | (Err e, s') => spec_helper ct h0 (absv (heap s) (VRef l)) (SSetAttrOp a) ah = SErr e /\ heap s' = heap s
  end.
Proof.
  intros ct h0 l a c d k sp s lv cv dv roots x Hl Hc Ha Hd Hok Hfz Hni Hfa Hty Hnc Hprep Hv Hvok Hindep Hx.
  exact (setattr_instance_refines ct h0 l a c d k sp s lv cv dv Hl Hc Ha Hd Hok Hfz Hni Hfa Hty Hnc Hprep Hv Hvok Hindep roots x Hx).
Qed.

(* non-vacuity: class 4 with attribute 5 : Optional[K2]; the K2 instance in cell 0 is stored
   into the K4 instance in cell 1; a K4 instance is rejected (TypeError) *)
Definition ex_ct3 : ctable :=
  ex_ct2 ++ [mkcls 4 [mkattr 5 (TOpt (TSpec 2)) VNone None 4 true false None None []]
                   false false None [4] 4 [] None None].
Definition ex_state3 : state := mkst [OInst 2 [(1, VInt 7)]; OInst 4 [(5, VNone)]; OInst 4 []] 0 None.
Example C05_example_instance :
  (forall o, abs 23 (set_nth 1 o (heap ex_state3)) (VRef 0) = abs 23 (heap ex_state3) (VRef 0)) /\
  aok (abs 23 (heap ex_state3) (VRef 0)) = true /\
  (let '(r, s') := run_helper ex_ct3 1 (HWith 5) (mkh [VRef 0] true true VMissing false None None [] None) ex_state3 in
   r = Ok (VRef 1) /\ nth_error (heap s') 1 = Some (OInst 4 [(5, VRef 0)])) /\
  spec_helper ex_ct3 [] (absv (heap ex_state3) (VRef 1)) (SWith 5)
              (mkah [absv (heap ex_state3) (VRef 0)] true true AMissing false None None [] None)
    = SOk (AInst 4 [(5, AInst 2 [(1, AInt 7)])]) /\
  (let '(r, s') := run_helper ex_ct3 1 (HWith 5) (mkh [VRef 2] true true VMissing false None None [] None) ex_state3 in
   r = Err TypeErr /\ s' = ex_state3).
Proof.
  split.
  { apply (indep_below 1); [|exact (le_n 1)|exact (le_n 1)].
    intros i o Hi Ho. assert (i = 0) by lia. subst i. vm_compute in Ho. inversion Ho; subst.
    repeat constructor. }
  vm_compute. repeat split.
Qed.

(* ---------------- copy-on-write with invalidation (Inst/RefineMore9.v) ---------------- *)
(* the default call forms -- with_<a>(v), transform_<a>(f), reset_<a>(), update(a=v, ...)
   WITHOUT _inplace -- on a flat receiver of an unfrozen class whose written attributes have
   direct dependants (`inval_flat`, `kw_inval_ok`), no __post_copy__ hook: fresh result whose
   abstraction is the specification's (prepared value stored, dependants reset), the
   specification's error class otherwise, no pre-existing cell changed in either case.
   (The first call of C05_examples is an instance: with_a1(5) on a copy resets a3.) *)
Theorem C05_copy_inval_refines_partial : forall ct h0 l c d k s,
  nth_error (heap s) l = Some (OInst c d) -> lookup_cls ct c = Some k ->
  NoDup (map fst d) -> flat_fields (heap s) d ->
  c_dnc k = false -> c_frozen k = false -> fail_at s = None -> c_post_copy k = None ->
  let post (hp : shelper) (ah : ahargs) (out : res val * state) :=
    match out with
    | (Ok r, s') => exists l', r = VRef l' /\ length (heap s) <= l' /\
                    spec_helper ct h0 (absv (heap s) (VRef l)) hp ah = SOk (absv (heap s') (VRef l')) /\
                    (forall i, i < length (heap s) -> nth_error (heap s') i = nth_error (heap s) i)
    | (Err e, s') => spec_helper ct h0 (absv (heap s) (VRef l)) hp ah = SErr e /\
                     (forall i, i < length (heap s) -> nth_error (heap s') i = nth_error (heap s) i)
    end in
  (* with_<a>(v), transform_<a>(f), reset_<a>() *)
  (forall a sp, lookup_attr k a = Some sp -> inval_flat k a ->
     ty_depth (a_ty sp) < FUEL -> ty_is_collection (a_ty sp) = false ->
     match a_prepare sp with Some g => scalar_fn g = true | None => True end ->
     (forall v, vscalar v = true ->
        post (SWith a) (mkah [abs0 v] false true AMissing false None None [] None)
             (run_helper ct l (HWith a) (mkh [v] false true VMissing false None None [] None) s)) /\
     (forall f, scalar_fn f = true -> vscalar (cur_val a d k) = true ->
        post (STransform a) (mkah [] false true AMissing false None None [] (Some f))
             (run_helper ct l (HTransform a) (mkh [] false true VMissing false None None [] (Some f)) s)) /\
     (literal_default a k sp -> vscalar (class_default k a) = true \/ class_default k a = VMissing ->
        post (SReset a) (mkah [] false true AMissing false None None [] None)
             (run_helper ct l (HReset a) (mkh [] false true VMissing false None None [] None) s))) /\
  (* update(a=v, ...) *)
  (forall p0 ps, Forall (kw_inval_ok k) (p0 :: ps) ->
     post SUpdateTop (mkah [] false true AMissing false None (Some (akw (p0 :: ps))) [] None)
          (run_helper ct l HUpdateTop (mkh [] false true VMissing false None (Some (p0 :: ps)) [] None) s)).
Proof.
  intros ct h0 l c d k s Hl Hc Hd Hflat Hdnc Hfz Hfa Hpc post. split.
  - intros a sp Ha Hinv Hty Hnc Hp. split; [|split].
    + intros v Hv. exact (with_scalar_copy_inval_refines ct h0 l c d k s Hl Hc Hd Hflat Hdnc Hfz Hfa Hpc a sp v Ha Hinv Hty Hnc Hp Hv).
    + intros f Hf Hcur. exact (transform_scalar_copy_inval_refines ct h0 l c d k s Hl Hc Hd Hflat Hdnc Hfz Hfa Hpc a sp f Ha Hinv Hty Hnc Hp Hf Hcur).
    + intros Hlit Hdv. exact (reset_scalar_copy_inval_refines ct h0 l c d k s Hl Hc Hd Hflat Hdnc Hfz Hfa Hpc a sp Ha Hinv Hty Hnc Hp Hlit Hdv).
  - intros p0 ps Hkws. exact (update_top_copy_inval_refines ct h0 l c d k s Hl Hc Hd Hflat Hdnc Hfz Hfa Hpc p0 ps Hkws).
Qed.

(* ---------------- container values (Inst/RefineMore10.v) ---------------- *)
(* with_<a>(x, _inplace=True) / obj.a = x where x is an existing list / dict / set of scalars
   (`scalar_obj`) that CONFORMS to the annotation of `a` -- a List/Dict/Set annotation without
   item preparer, or Optional/Union/Any around one; no preparer or the identity: the call
   succeeds, the caller's object itself is stored (no copy, nothing else written), and the
   receiver's abstraction gets the container's content (`aobj`: list in order, dict in
   insertion order, set in canonical order) -- what the specification's `normalise` returns
   for a conforming value.  STILL MISSING for collection-typed attributes: non-conforming
   values (element-wise rebuilding), item preparers, containers of spec instances. *)
Theorem C05_refines_container_partial : forall ct h0 l a c d k sp s lv o,
  nth_error (heap s) l = Some (OInst c d) -> lookup_cls ct c = Some k -> lookup_attr k a = Some sp ->
  NoDup (map fst d) -> aok (absv (heap s) (VRef l)) = true ->
  c_frozen k = false -> no_inval k -> fail_at s = None ->
  ty_depth (a_ty sp) < FUEL ->
  a_prepare sp = None \/ a_prepare sp = Some FId -> a_prepare_item sp = None ->
  nth_error (heap s) lv = Some o -> scalar_obj o = true -> conforms ct (a_ty sp) (aobj o) = true ->
  let h := mkh [VRef lv] true true VMissing false None None [] None in
  let ah := mkah [absv (heap s) (VRef lv)] true true AMissing false None None [] None in
  match run_helper ct l (HWith a) h s with
  | (Ok r, s') => r = VRef l /\
                  spec_helper ct h0 (absv (heap s) (VRef l)) (SWith a) ah = SOk (absv (heap s') (VRef l)) /\
                  (forall i, i <> l -> nth_error (heap s') i = nth_error (heap s) i)
  | (Err e, s') => False
  end.
Proof.
  intros ct h0 l a c d k sp s lv o Hl Hc Ha Hd Hok Hfz Hni Hfa Hty Hprep Hpi Hv Hso Hconf.
  exact (with_container_inplace_refines ct h0 l a c d k sp s lv o Hl Hc Ha Hd Hok Hfz Hni Hfa Hty Hprep Hpi Hv Hso Hconf).
Qed.

Theorem C05_setattr_refines_container_partial : forall ct h0 l a c d k sp s lv o roots x,
  nth_error (heap s) l = Some (OInst c d) -> lookup_cls ct c = Some k -> lookup_attr k a = Some sp ->
  NoDup (map fst d) -> aok (absv (heap s) (VRef l)) = true ->
  c_frozen k = false -> no_inval k -> fail_at s = None ->
  ty_depth (a_ty sp) < FUEL ->
  a_prepare sp = None \/ a_prepare sp = Some FId -> a_prepare_item sp = None ->
  nth_error (heap s) lv = Some o -> scalar_obj o = true -> conforms ct (a_ty sp) (aobj o) = true ->
  nth x roots VNone = VRef l ->
  let ah := mkah [absv (heap s) (VRef lv)] true true AMissing false None None [] None in
  match step ct roots (OpSetAttr x a (VRef lv)) s with
  | (Ok r, s') => spec_helper ct h0 (absv (heap s) (VRef l)) (SSetAttrOp a) ah = SOk (absv (heap s') (VRef l)) /\
                  (forall i, i <> l -> nth_error (heap s') i = nth_error (heap s) i)
  | (Err e, s') => False
  end.
Proof.
  intros ct h0 l a c d k sp s lv o roots x Hl Hc Ha Hd Hok Hfz Hni Hfa Hty Hprep Hpi Hv Hso Hconf Hx.
  exact (setattr_container_refines ct h0 l a c d k sp s lv o Hl Hc Ha Hd Hok Hfz Hni Hfa Hty Hprep Hpi Hv Hso Hconf roots x Hx).
Qed.

(* non-vacuity: a6 : List[int], a8 : Optional[Dict[str, int]] *)
Definition ex_ct4 : ctable :=
  [mkcls 7 [mkattr 6 (TList TInt) VMissing None 7 true false None None [];
            mkattr 8 (TOpt (TDict TStr TInt)) VNone None 7 true false None None []]
         false false None [7] 7 [] None None].
Definition ex_state4 : state :=
  mkst [OList [VInt 1; VInt 2]; ODict [(VStr 3, VInt 4)]; OInst 7 [(8, VNone)]] 0 None.
Example C05_example_container :
  conforms ex_ct4 (TList TInt) (aobj (OList [VInt 1; VInt 2])) = true /\
  conforms ex_ct4 (TOpt (TDict TStr TInt)) (aobj (ODict [(VStr 3, VInt 4)])) = true /\
  (let '(r, s') := run_helper ex_ct4 2 (HWith 6) (mkh [VRef 0] true true VMissing false None None [] None) ex_state4 in
   r = Ok (VRef 2) /\ nth_error (heap s') 2 = Some (OInst 7 [(8, VNone); (6, VRef 0)])) /\
  spec_helper ex_ct4 [] (absv (heap ex_state4) (VRef 2)) (SWith 6)
              (mkah [absv (heap ex_state4) (VRef 0)] true true AMissing false None None [] None)
    = SOk (AInst 7 [(6, AList [AInt 1; AInt 2]); (8, ANone)]) /\
  (let '(r, s') := run_helper ex_ct4 2 (HWith 8) (mkh [VRef 1] true true VMissing false None None [] None) ex_state4 in
   r = Ok (VRef 2) /\ nth_error (heap s') 2 = Some (OInst 7 [(8, VRef 1)])).
Proof. vm_compute. repeat split. Qed.

(* ---------------- update_<a>(x=v, ...) merges keywords into the nested value (Inst/RefineMore11.v) ---------------- *)
(* "update_<a> merges keywords into the existing nested value": the receiver (any acyclic
   instance of an unfrozen class without invalidated_by, in a closed heap) holds under `a`
   (annotation a spec class, possibly Optional / Union; no preparer or the identity) a FLAT
   instance of an unfrozen class kn without invalidated_by / __post_copy__ hook; the keywords
   are covered by `kw_ok kn`.  update_<a>(_inplace=True, x=v, ...) deep-copies the nested
   value, assigns the keywords on the copy one after the other (the specification's fold,
   first error class), and stores the copy in the receiver: the receiver's abstraction is the
   specification's, the OLD nested instance and every other pre-existing cell are untouched
   (only the receiver's cell changes; on an error nothing pre-existing changes at all).
   STILL MISSING: keywords that build a nested value from nothing (with_<a>(x=v) /
   update_<a> on an attribute holding nothing: the constructor), nested values that are
   themselves nested, dict-as-constructor-arguments, the copy-on-write form. *)
Theorem C05_update_nested_refines_partial : forall ct h0 l a c d k sp s ln cn dn kn p0 ps,
  nth_error (heap s) l = Some (OInst c d) -> lookup_cls ct c = Some k -> lookup_attr k a = Some sp ->
  NoDup (map fst d) -> aok (absv (heap s) (VRef l)) = true ->
  c_frozen k = false -> no_inval k -> fail_at s = None ->
  ty_depth (a_ty sp) < FUEL -> ty_is_collection (a_ty sp) = false ->
  a_prepare sp = None \/ a_prepare sp = Some FId ->
  closed (length (heap s)) (heap s) ->
  assoc a d = Some (VRef ln) -> nth_error (heap s) ln = Some (OInst cn dn) -> lookup_cls ct cn = Some kn ->
  NoDup (map fst dn) -> flat_fields (heap s) dn ->
  c_dnc kn = false -> c_frozen kn = false -> no_inval kn -> c_post_copy kn = None ->
  forallb (kw_ok kn) (p0 :: ps) = true ->
  let h := mkh [] true true VMissing false None (Some (p0 :: ps)) [] None in
  let ah := mkah [] true true AMissing false None (Some (akw (p0 :: ps))) [] None in
  match run_helper ct l (HUpdate a) h s with
  | (Ok r, s') => r = VRef l /\
                  spec_helper ct h0 (absv (heap s) (VRef l)) (SUpdate a) ah = SOk (absv (heap s') (VRef l)) /\
                  (forall i, i < length (heap s) -> i <> l -> nth_error (heap s') i = nth_error (heap s) i)
  | (Err e, s') => spec_helper ct h0 (absv (heap s) (VRef l)) (SUpdate a) ah = SErr e /\
                   (forall i, i < length (heap s) -> nth_error (heap s') i = nth_error (heap s) i)
  end.
Proof.
  intros ct h0 l a c d k sp s ln cn dn kn p0 ps Hl Hc Ha Hd Hok Hfz Hni Hfa Hty Hnc Hprep Hclosed
         Hcur Hn Hcn Hdn Hflatn Hdncn Hfzn Hnin Hpcn Hkws.
  exact (update_nested_inplace_refines ct h0 l a c d k sp s ln cn dn kn Hl Hc Ha Hd Hok Hfz Hni Hfa Hty Hnc Hprep Hclosed
           Hcur Hn Hcn Hdn Hflatn Hdncn Hfzn Hnin Hpcn p0 ps Hkws).
Qed.

(* non-vacuity: class 9 with a9 : K2 (the annotation is the spec class itself: for
   Optional[K2] the generated update_<a> takes no keywords -- the call is rejected by Python's
   signature binding before the modelled code runs, see C17 -- so only this case is
   reachable on the implementation; the theorem covers the model for both);
   update_a9(a1=5, a3=None, _inplace=True): a fresh K2 with a1 = prepare(5) = 6, the old one untouched *)
Definition ex_ct5 : ctable :=
  ex_ct2 ++ [mkcls 9 [mkattr 9 (TSpec 2) VMissing None 9 true false None None []]
                   false false None [9] 9 [] None None].
Definition ex_state5 : state := mkst [OInst 2 [(1, VInt 7); (3, VInt 9)]; OInst 9 [(9, VRef 0)]] 0 None.
Example C05_example_update_nested :
  closed (length (heap ex_state5)) (heap ex_state5) /\
  forallb (kw_ok ex_k2) [(1, VInt 5); (3, VNone)] = true /\
  (let '(r, s') := run_helper ex_ct5 1 (HUpdate 9)
                     (mkh [] true true VMissing false None (Some [(1, VInt 5); (3, VNone)]) [] None) ex_state5 in
   r = Ok (VRef 1) /\ nth_error (heap s') 1 = Some (OInst 9 [(9, VRef 2)]) /\
   nth_error (heap s') 2 = Some (OInst 2 [(1, VInt 6); (3, VNone)]) /\
   nth_error (heap s') 0 = nth_error (heap ex_state5) 0) /\
  spec_helper ex_ct5 [] (absv (heap ex_state5) (VRef 1)) (SUpdate 9)
              (mkah [] true true AMissing false None (Some (akw [(1, VInt 5); (3, VNone)])) [] None)
    = SOk (AInst 9 [(9, AInst 2 [(1, AInt 6); (3, ANone)])]).
Proof.
  split.
  { intros i o Hi Ho. destruct i as [|[|i]]; vm_compute in Ho; inversion Ho; subst; try (simpl in Hi; lia);
      repeat constructor. }
  vm_compute. repeat split.
Qed.

(* transform_<a>(x=f, ..., _inplace=True): per-attribute transforms on the existing nested
   value (same setting as C05_update_nested_refines_partial; `kwfn_ok kn dn`: every transform
   names a scalar attribute of the nested class whose current value in the nested instance
   is a proper scalar, f from the pool): applied one after the other on a deep copy of the
   nested value, which replaces the old one (Inst/RefineMore12.v) *)
Theorem C05_transform_nested_refines_partial : forall ct h0 l a c d k sp s ln cn dn kn p0 ps,
  nth_error (heap s) l = Some (OInst c d) -> lookup_cls ct c = Some k -> lookup_attr k a = Some sp ->
  NoDup (map fst d) -> aok (absv (heap s) (VRef l)) = true ->
  c_frozen k = false -> no_inval k -> fail_at s = None ->
  ty_depth (a_ty sp) < FUEL -> ty_is_collection (a_ty sp) = false ->
  a_prepare sp = None \/ a_prepare sp = Some FId ->
  closed (length (heap s)) (heap s) ->
  assoc a d = Some (VRef ln) -> nth_error (heap s) ln = Some (OInst cn dn) -> lookup_cls ct cn = Some kn ->
  NoDup (map fst dn) -> flat_fields (heap s) dn ->
  c_dnc kn = false -> c_frozen kn = false -> no_inval kn -> c_post_copy kn = None ->
  forallb (kwfn_ok kn dn) (p0 :: ps) = true ->
  let h := mkh [] true true VMissing false None None (p0 :: ps) None in
  let ah := mkah [] true true AMissing false None None (p0 :: ps) None in
  match run_helper ct l (HTransform a) h s with
  | (Ok r, s') => r = VRef l /\
                  spec_helper ct h0 (absv (heap s) (VRef l)) (STransform a) ah = SOk (absv (heap s') (VRef l)) /\
                  (forall i, i < length (heap s) -> i <> l -> nth_error (heap s') i = nth_error (heap s) i)
  | (Err e, s') => spec_helper ct h0 (absv (heap s) (VRef l)) (STransform a) ah = SErr e /\
                   (forall i, i < length (heap s) -> nth_error (heap s') i = nth_error (heap s) i)
  end.
Proof.
  intros ct h0 l a c d k sp s ln cn dn kn p0 ps Hl Hc Ha Hd Hok Hfz Hni Hfa Hty Hnc Hprep Hclosed
         Hcur Hn Hcn Hdn Hflatn Hdncn Hfzn Hnin Hpcn Hkws.
  exact (transform_nested_inplace_refines ct h0 l a c d k sp s ln cn dn kn Hl Hc Ha Hd Hok Hfz Hni Hfa Hty Hnc Hprep Hclosed
           Hcur Hn Hcn Hdn Hflatn Hdncn Hfzn Hnin Hpcn p0 ps Hkws).
Qed.

Example C05_example_transform_nested :
  forallb (kwfn_ok ex_k2 [(1, VInt 7); (3, VInt 9)]) [(1, FAddInt 10); (3, FConst VNone)] = true /\
  (let '(r, s') := run_helper ex_ct5 1 (HTransform 9)
                     (mkh [] true true VMissing false None None [(1, FAddInt 10); (3, FConst VNone)] None) ex_state5 in
   r = Ok (VRef 1) /\ nth_error (heap s') 1 = Some (OInst 9 [(9, VRef 2)]) /\
   nth_error (heap s') 2 = Some (OInst 2 [(1, VInt 18); (3, VNone)]) /\
   nth_error (heap s') 0 = nth_error (heap ex_state5) 0) /\
  spec_helper ex_ct5 [] (absv (heap ex_state5) (VRef 1)) (STransform 9)
              (mkah [] true true AMissing false None None [(1, FAddInt 10); (3, FConst VNone)] None)
    = SOk (AInst 9 [(9, AInst 2 [(1, AInt 18); (3, ANone)])]).
Proof. vm_compute. repeat split. Qed.

Print Assumptions C05_noop_if_false.
Print Assumptions C05_noop_with_unchanged.
Print Assumptions C05_noop_update_unchanged.
Print Assumptions C05_noop_update_top.
Print Assumptions C05_noop_setattr_unchanged.
Print Assumptions C05_inplace_returns_receiver.
Print Assumptions C05_setattr_is_with_inplace.
Print Assumptions C05_with_inplace_entry.
Print Assumptions C05_setattr_entry.
Print Assumptions C05_update_is_iterated_with.
Print Assumptions C05_refines_partial.
Print Assumptions C05_setattr_refines_partial.
Print Assumptions C05_refines_copy_partial.
Print Assumptions C05_copy_total_partial.
Print Assumptions C05_update_scalar_is_with.
Print Assumptions C05_deepcopy_preserves_abs_flat.
Print Assumptions C05_acyclic_fields_independent.
Print Assumptions C05_examples.
Print Assumptions C05_transform_refines_partial.
Print Assumptions C05_reset_refines_partial.
Print Assumptions C05_examples_more.
Print Assumptions C05_update_top_refines_partial.
Print Assumptions C05_example_update_top.
Print Assumptions C05_with_copy_err_partial.
Print Assumptions C05_transform_copy_refines_partial.
Print Assumptions C05_transform_copy_err_partial.
Print Assumptions C05_reset_copy_refines_partial.
Print Assumptions C05_update_top_copy_refines_partial.
Print Assumptions C05_example_copy.
Print Assumptions C05_refines_inval_partial.
Print Assumptions C05_setattr_refines_inval_partial.
Print Assumptions C05_example_inval.
Print Assumptions C05_reset_top_refines_partial.
Print Assumptions C05_reset_top_copy_refines_partial.
Print Assumptions C05_example_reset_top.
Print Assumptions C05_transform_top_refines_partial.
Print Assumptions C05_transform_top_copy_refines_partial.
Print Assumptions C05_example_transform_top.
Print Assumptions C05_delattr_refines_partial.
Print Assumptions C05_copy_vs_inplace_with_partial.
Print Assumptions C05_copy_vs_inplace_transform_partial.
Print Assumptions C05_copy_vs_inplace_reset_partial.
Print Assumptions C05_copy_vs_inplace_toplevel_partial.
Print Assumptions C05_transform_refines_inval_partial.
Print Assumptions C05_reset_refines_inval_partial.
Print Assumptions C05_update_top_refines_inval_partial.
Print Assumptions C05_example_update_top_inval.
Print Assumptions C05_with_nothing_refines_partial.
Print Assumptions C05_transform_nothing_refines_partial.
Print Assumptions C05_example_nothing.
Print Assumptions C05_refines_instance_partial.
Print Assumptions C05_setattr_refines_instance_partial.
Print Assumptions C05_example_instance.
Print Assumptions C05_copy_inval_refines_partial.
Print Assumptions C05_refines_container_partial.
Print Assumptions C05_setattr_refines_container_partial.
Print Assumptions C05_example_container.
Print Assumptions C05_update_nested_refines_partial.
Print Assumptions C05_example_update_nested.
Print Assumptions C05_transform_nested_refines_partial.
Print Assumptions C05_example_transform_nested.
