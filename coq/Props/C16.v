(* C16 — decoration adds exactly the documented helpers and never replaces
   user code.  Statements only; every proof is one `exact`.
   Model: Deco/Decorate.v (spec_class.__init__/__call__/bootstrap/
   build_attr_spec/register_method, MethodDescriptor.__get__), names:
   Deco/Naming.v.  Meaning: Deco/DecoSpec.v.  `singular` is inflect's
   singular_noun, an arbitrary function here (an oracle: partial).
   Scope: one class without spec-class parents; any body, any annotations,
   any decorator arguments. *)
From Coq Require Import String List Bool ZArith.
From SC Require Import Base.Res Deco.Naming Deco.Decorate Deco.DecoSpec Deco.DecoProofs.
Import ListNotations.
Open Scope string_scope.

Section C16.
  Variable singular : name -> option name.

  (* Every member of the class's own body that is not an Attr/field
     declaration is bound to the very same object after decoration, after any
     sequence of first uses of the generated helpers (each lazy descriptor
     dissolving into its function), and after the first instantiation of a
     lazily bootstrapped class.  Names the library reserves (__spec_class*,
     __dataclass_fields__) are excluded; __new__ of a lazily bootstrapped
     class is C16_user_new_keeps_its_function. *)
  Theorem C16_user_members_kept : forall c k d n m uses,
    decorate singular c k = Ok d ->
    lookup n (body k) = Some m -> reserved n = false -> is_decl m = false ->
    (n <> "__new__" \/ c_lazy c = false) ->
    kept m (lookup n (d_dict d)) /\
    kept m (lookup n (use_all (d_dict d) uses)) /\
    kept m (lookup n (use_all (instantiate c k (d_dict d)) uses)).
  Proof. exact (user_members_kept singular). Qed.

  (* An Attr(...) / dataclasses.field(...) declaration is replaced by its
     default exactly when its name gets an attribute specification. *)
  Theorem C16_declarations_lifted_iff_specified : forall c k d n m uses,
    decorate singular c k = Ok d ->
    lookup n (body k) = Some m -> reserved n = false -> is_decl m = true ->
    (n <> "__new__" \/ c_lazy c = false) ->
    let e := if mem n (d_attrs d) then ELifted m else EUser m in
    lookup n (d_dict d) = Some e /\
    lookup n (use_all (instantiate c k (d_dict d)) uses) = Some e.
  Proof. exact (declarations_lifted_iff_specified singular). Qed.

  Theorem C16_user_new_keeps_its_function : forall c k d m uses,
    decorate singular c k = Ok d -> c_lazy c = true ->
    lookup "__new__" (body k) = Some m ->
    lookup "__new__" (use_all (instantiate c k (d_dict d)) uses) =
      Some (if wraps m then EUnwrapped m else EUser m).
  Proof. exact (user_new_unwrapped singular). Qed.

  (* The generated constructor, repr and equality are always reachable under
     their __spec_class_* names (even if the body defined those names); the
     dunder names carry them exactly when the switch is on and the body does
     not define the name. *)
  Theorem C16_spec_names_present : forall c k d uses,
    decorate singular c k = Ok d ->
    let D := use_all (instantiate c k (d_dict d)) uses in
    (forall cr, In cr [CInit; CRepr; CEq] ->
       lookup (core_backup_name cr) D = Some (EGen (GCore cr) true)) /\
    (forall cr, lookup (core_name cr) (body k) = None ->
       lookup (core_name cr) D = if core_enabled c cr then Some (EGen (GCore cr) true) else None).
  Proof. exact (spec_names_present singular). Qed.

  (* A name holds a generated public helper iff it is one of the documented
     names (3 top-level, 4 per requested attribute, 4 per requested collection
     attribute under its item name) and the body does not define it. *)
  Theorem C16_exact_helper_set : forall c k d n,
    decorate singular c k = Ok d ->
    (is_helper_entry (lookup n (d_dict d)) <->
     expected_helper c k (item_of d) n /\ lookup n (body k) = None).
  Proof. exact (exact_helper_set singular). Qed.

  (* Item names: the singular form or <attr>_item; never an attribute name;
     never shared by two collection attributes; the fallback only on a collision. *)
  Theorem C16_item_names_follow_rule : forall c k d,
    decorate singular c k = Ok d ->
    item_rule singular (map fst (d_attrs d)) (colls_of d) (item_of d).
  Proof. exact (item_names_follow_rule singular). Qed.

  (* Private names never get helpers. *)
  Theorem C16_private_unmanaged : forall c k d,
    decorate singular c k = Ok d ->
    (forall a s, In (a, s) (d_attrs d) -> a_helpers s = true -> is_private a = false) /\
    (forall n g b a, lookup n (d_dict d) = Some (EGen g b) -> gen_attr g = Some a -> is_private a = false).
  Proof. exact (private_unmanaged singular). Qed.

  (* Whenever decoration succeeds, no name is registered for two different
     helpers (different attribute or different kind): nothing is shadowed. *)
  Theorem C16_no_shadowing : forall c k d n g1 g2,
    decorate singular c k = Ok d ->
    In (n, g1) (registrations c (d_attrs d)) -> In (n, g2) (registrations c (d_attrs d)) -> g1 = g2.
  Proof. exact (no_shadowing singular). Qed.
  (* A configuration whose constructor would have one name for two parameters
     (key = overflow attribute, or either named `self`) cannot be decorated:
     decoration raises; and ValueError is raised only for that or for a private
     name in attrs / attrs_typed / init_overflow_attr. *)
  Theorem C16_contradictory_constructor_raises : forall c k,
    contradictory_constructor c = true -> exists e, decorate singular c k = Err e.
  Proof. exact (contradictory_constructor_raises singular). Qed.

  Theorem C16_value_error_only_when_justified : forall c k,
    decorate singular c k = Err ValueErr ->
    existsb is_private (map fst (dattrs c)) = true \/ contradictory_constructor c = true.
  Proof. exact (value_error_only_when_justified singular). Qed.
End C16.

(* ---- non-vacuity: a class with user code under generated names *)
Definition ex_singular (n : name) : option name :=
  if String.eqb n "ys" then Some "y"
  else if String.eqb n "agenda" then Some "agendum"
  else if String.eqb n "agendums" then Some "agendum" else None.

Definition ex_cfg : cfg := mkcfg None true true true true None None None None.
Definition ex_cls : cls :=
  mkcls [("__module__", mkmember KValue 1); ("x", mkmember KValue 2);
         ("ys", mkmember KDecl 3); ("with_x", mkmember KFunction 4);
         ("update_y", mkmember KStatic 5); ("__init__", mkmember KFunction 6);
         ("_p", mkmember KDecl 7)]
        [("x", TScalar); ("ys", TColl CSeq); ("_p", TScalar)].

Example C16_decoration_succeeds_somewhere :
  exists d, decorate ex_singular ex_cfg ex_cls = Ok d /\
    lookup "with_x" (d_dict d) = Some (EUser (mkmember KFunction 4)) /\
    lookup "update_y" (d_dict d) = Some (EUser (mkmember KStatic 5)) /\
    lookup "__init__" (d_dict d) = Some (EUser (mkmember KFunction 6)) /\
    lookup "__spec_class_init__" (d_dict d) = Some (EGen (GCore CInit) true) /\
    lookup "ys" (d_dict d) = Some (ELifted (mkmember KDecl 3)) /\
    lookup "_p" (d_dict d) = Some (EUser (mkmember KDecl 7)) /\
    lookup "with_y" (d_dict d) = Some (EGen (GElem EWith "ys" CSeq "y") false) /\
    lookup "with_y" (use (d_dict d) "with_y") = Some (EGen (GElem EWith "ys" CSeq "y") true).
Proof. eexists. split; [vm_compute; reflexivity|]. vm_compute. repeat split; reflexivity. Qed.

(* ---- regression evidence: the collision loop before
   `fix: collection attributes sharing one singular name ...` registered
   with_agendum twice; the second registration replaced the first. *)
Definition ex_cls2 : cls :=
  mkcls [] [("agenda", TColl CSeq); ("agendums", TColl CMap)].

Example C16_old_collision_check_refuted :
  exists d, decorate_old ex_singular ex_cfg ex_cls2 = Ok d /\
    In ("with_agendum", GElem EWith "agenda" CSeq "agendum") (registrations ex_cfg (d_attrs d)) /\
    In ("with_agendum", GElem EWith "agendums" CMap "agendum") (registrations ex_cfg (d_attrs d)) /\
    lookup "with_agendum" (d_dict d) = Some (EGen (GElem EWith "agendums" CMap "agendum") false).
Proof. eexists. split; [vm_compute; reflexivity|]. vm_compute. repeat split; auto 30. Qed.

Example C16_collision_falls_back_now :
  exists d, decorate ex_singular ex_cfg ex_cls2 = Ok d /\
    lookup "with_agendum" (d_dict d) = Some (EGen (GElem EWith "agenda" CSeq "agendum") false) /\
    lookup "with_agendums_item" (d_dict d) = Some (EGen (GElem EWith "agendums" CMap "agendums_item") false).
Proof. eexists. split; [vm_compute; reflexivity|]. vm_compute. split; reflexivity. Qed.

Print Assumptions C16_user_members_kept.
Print Assumptions C16_declarations_lifted_iff_specified.
Print Assumptions C16_user_new_keeps_its_function.
Print Assumptions C16_spec_names_present.
Print Assumptions C16_exact_helper_set.
Print Assumptions C16_item_names_follow_rule.
Print Assumptions C16_private_unmanaged.
Print Assumptions C16_no_shadowing.
Print Assumptions C16_contradictory_constructor_raises.
Print Assumptions C16_value_error_only_when_justified.
Print Assumptions C16_decoration_succeeds_somewhere.
Print Assumptions C16_old_collision_check_refuted.
Print Assumptions C16_collision_falls_back_now.
