(* C06 — element helpers edit list/dict/set attributes like the plain
   container operation.

   Specification: Inst/SpecHelpers.v — spec_elem_op (append / set at index /
   insert / delete at index on a plain list; assign / delete key on an
   association list in insertion order; add / replace / remove on a
   duplicate-free list in canonical order), the addressing functions
   seq_index (possibly negative index, IndexError), seq_find (first of the
   equal elements, ValueError), by_index_rule (index unless the argument has
   the element type), dict_get (KeyError), set_has (ValueError), and the
   element pipeline (item preparer, key promotion, keywords, transform).
   The correspondence check compares it with the implementation on every
   generated call (exhaustively in the small scope).

   Theorems below: the specification's container operations ARE the Python
   operations, for containers of every size and content (no bound), falsy
   elements and equal elements at several positions included — stated as the
   characteristic equations of each operation ("the addressed element
   changes, all other elements and their order stay"). *)
From Coq Require Import List ZArith Bool Arith Lia.
From SC Require Import Base.Res Base.PyList Inst.Heap Inst.ClassTable Inst.Model Inst.Canon Inst.Abs
  Inst.SpecHelpers Inst.ElemProofs Inst.RefineProofs Inst.CopyProofs Inst.ElemRefineDep Inst.ElemRefine Inst.ElemRefine2 Inst.ElemRefine3 Inst.ElemRefine4 Inst.ElemRefine5 Inst.ElemRefine6 Inst.ElemRefine7 Inst.ElemRefine8 Inst.ElemRefine9 Inst.ElemRefine10 Inst.ElemRefine11 Inst.ElemRefine12 Inst.ElemRefine13 Inst.ElemRefine14 Inst.ElemRefine15 Inst.ElemRefine16 Inst.ElemRefineGuard.
Import ListNotations.
Open Scope nat_scope.

(* ---------------- lists ---------------- *)

(* with_<item>(e): append *)
Theorem C06_append : forall ct (xs : list aval) e,
  exists ys, spec_elem_op ct (EAppend e) (AList xs) = SOk (AList ys) /\
    length ys = S (length xs) /\
    (forall i, i < length xs -> nth_error ys i = nth_error xs i) /\
    nth_error ys (length xs) = Some e.
Proof. intros. exists (xs ++ [e]). split; [reflexivity|apply append_spec]. Qed.

(* with_<item>(e, _index=i) / update_ / transform_<item>: replace at a valid position *)
Theorem C06_replace_at : forall ct (xs : list aval) n e, n < length xs ->
  exists ys, spec_elem_op ct (ESetAt n e) (AList xs) = SOk (AList ys) /\
    length ys = length xs /\ nth_error ys n = Some e /\
    (forall i, i <> n -> nth_error ys i = nth_error xs i).
Proof. intros. exists (set_at n e xs). split; [reflexivity|now apply set_at_spec]. Qed.

(* with_<item>(e, _index=i, _insert=True): insert before the (clamped) index *)
Theorem C06_insert_before : forall ct (xs : list aval) i e,
  let p := clamp_index (zlen xs) i in
  exists ys, spec_elem_op ct (EInsert i e) (AList xs) = SOk (AList ys) /\
    p <= length xs /\ length ys = S (length xs) /\
    (forall j, j < p -> nth_error ys j = nth_error xs j) /\
    nth_error ys p = Some e /\
    (forall j, p <= j -> nth_error ys (S j) = nth_error xs j).
Proof.
  intros. exists (insert_at p e xs). split; [reflexivity|]. split; [apply clamp_index_le|].
  apply insert_at_spec. apply clamp_index_le.
Qed.

(* where list.insert puts the element *)
Theorem C06_insert_position : forall len i, (0 <= len)%Z ->
  let p := Z.of_nat (clamp_index len i) in
  (0 <= p <= len)%Z /\
  ((0 <= i <= len)%Z -> p = i) /\ ((len < i)%Z -> p = len) /\
  ((- len <= i < 0)%Z -> p = (len + i)%Z) /\ ((i < - len)%Z -> p = 0%Z).
Proof. exact clamp_index_spec. Qed.

(* without_<item>: delete at a valid position *)
Theorem C06_remove_at : forall ct (xs : list aval) n, n < length xs ->
  exists ys, spec_elem_op ct (EDelAt n) (AList xs) = SOk (AList ys) /\
    S (length ys) = length xs /\
    (forall i, i < n -> nth_error ys i = nth_error xs i) /\
    (forall i, n <= i -> nth_error ys i = nth_error xs (S i)).
Proof. intros. exists (remove_at n xs). split; [reflexivity|now apply remove_at_spec]. Qed.

(* addressing by (possibly negative) index; IndexError outside [-len, len) *)
Theorem C06_by_index : forall (xs : list aval) z,
  match seq_index xs (AInt z) with
  | SOk n => nth_error xs n <> None /\
             (((0 <= z < zlen xs)%Z /\ n = Z.to_nat z) \/ ((- zlen xs <= z < 0)%Z /\ n = Z.to_nat (zlen xs + z)))
  | SErr IndexErr => (z < - zlen xs \/ zlen xs <= z)%Z
  | _ => False
  end.
Proof. exact seq_index_spec. Qed.

(* addressing by value: the FIRST of the equal elements; ValueError when there is none *)
Theorem C06_by_value_first_of_equals : forall ct (xs : list aval) v,
  match seq_find ct xs v with
  | SOk n => (exists x, nth_error xs n = Some x /\ py_eq ct x v = true) /\
             (forall m y, m < n -> nth_error xs m = Some y -> py_eq ct y v = false)
  | SErr ValueErr => forall x, In x xs -> py_eq ct x v = false
  | _ => False
  end.
Proof. exact seq_find_spec. Qed.

(* the by-index defaulting rule *)
Theorem C06_by_index_defaulting : forall ct ity voi,
  by_index_rule ct ity voi None = negb (conforms ct ity voi) /\
  forall b, by_index_rule ct ity voi (Some b) = b.
Proof. intros. split; [apply by_index_default|apply by_index_explicit]. Qed.

(* ---------------- dicts ---------------- *)

(* with_<item>(k, v) / update_ / transform_: d[k] = v *)
Theorem C06_assign_key : forall ct kvs k v,
  exists kvs', spec_elem_op ct (EAssign k v) (ADict kvs) = SOk (ADict kvs') /\
    (py_eq ct k k = true -> dict_get ct kvs' k = Some v) /\
    (forall k', py_eq ct k k' = false ->
                (forall p, In p kvs -> py_eq ct (fst p) k = true -> py_eq ct (fst p) k' = false) ->
                dict_get ct kvs' k' = dict_get ct kvs k') /\
    keys kvs' = (if existsb (fun p => py_eq ct (fst p) k) kvs then keys kvs else keys kvs ++ [k]) /\
    (forall i p, nth_error kvs i = Some p -> py_eq ct (fst p) k = false -> nth_error kvs' i = Some p).
Proof.
  intros. exists (dict_set ct kvs k v). split; [reflexivity|]. split; [|split; [|split]].
  - apply dict_set_get_same.
  - intros. now apply dict_set_get_other.
  - apply dict_set_keys.
  - intros. eapply dict_set_untouched; eauto.
Qed.

(* without_<item>(k): del d[k] *)
Theorem C06_delete_key : forall ct kvs k,
  exists kvs', spec_elem_op ct (EDelKey k) (ADict kvs) = SOk (ADict kvs') /\
    dict_get ct kvs' k = None /\
    (forall k', (forall p, In p kvs -> py_eq ct (fst p) k' = true -> py_eq ct (fst p) k = false) ->
                dict_get ct kvs' k' = dict_get ct kvs k') /\
    kvs' = filter (fun p => negb (py_eq ct (fst p) k)) kvs.
Proof.
  intros. exists (dict_del ct kvs k). split; [reflexivity|]. split; [apply dict_del_get_same|].
  split; [intros; now apply dict_del_get_other|reflexivity].
Qed.

(* ---------------- sets ---------------- *)

(* with_<item>(e): s.add(e) *)
Theorem C06_set_add : forall ct xs e,
  exists ys, spec_elem_op ct (EAdd e) (ASet xs) = SOk (ASet ys) /\
    (forall y, In y ys <-> In y xs \/ (y = e /\ set_has ct xs e = false)) /\
    length ys = (if set_has ct xs e then length xs else S (length xs)) /\
    (sorted xs -> sorted ys) /\
    ((forall y, In y xs -> py_eq ct e y = py_eq ct y e) -> dupfree ct xs -> dupfree ct ys).
Proof.
  intros. exists (set_add ct xs e). split; [reflexivity|]. split; [apply set_add_members|].
  split; [apply set_add_length|]. split; [apply set_add_sorted|apply set_add_dupfree].
Qed.

(* update_/transform_<item>(old -> e): the old element is gone (falsy or not), the new one is in *)
Theorem C06_set_replace : forall ct xs old e,
  exists ys, spec_elem_op ct (EReplace old e) (ASet xs) = SOk (ASet ys) /\
    (forall y, In y ys <-> (In y xs /\ py_eq ct y old = false)
                           \/ (y = e /\ set_has ct (set_remove ct xs old) e = false)) /\
    (py_eq ct e e = true -> set_has ct ys e = true) /\
    (py_eq ct e old = false -> set_has ct ys old = false).
Proof.
  intros. exists (set_add ct (set_remove ct xs old) e). split; [reflexivity|]. split; [|split].
  - intro y. rewrite set_add_members, set_remove_members. tauto.
  - apply set_add_has.
  - intros Hne.
    destruct (set_has ct (set_add ct (set_remove ct xs old) e) old) eqn:F; auto.
    apply set_has_spec in F. destruct F as [x [Hx Ex]]. apply set_add_members in Hx.
    destruct Hx as [Hx|[-> _]]; [|congruence].
    apply set_remove_members in Hx. destruct Hx. congruence.
Qed.

(* without_<item>(e): s.remove(e) *)
Theorem C06_set_remove : forall ct xs old,
  exists ys, spec_elem_op ct (EDiscard old) (ASet xs) = SOk (ASet ys) /\
    (forall y, In y ys <-> In y xs /\ py_eq ct y old = false) /\
    set_has ct ys old = false /\ (sorted xs -> sorted ys) /\ (dupfree ct xs -> dupfree ct ys).
Proof.
  intros. exists (set_remove ct xs old). split; [reflexivity|]. split; [apply set_remove_members|].
  split; [apply set_remove_has|]. split; [apply set_remove_sorted|apply set_remove_dupfree].
Qed.

(* == on hashable scalars (what sets and dict keys hold) is reflexive and symmetric *)
Theorem C06_hashable_eq : forall ct a b, a_hashable a = true -> a_hashable b = true ->
  py_eq ct a a = true /\ py_eq ct a b = py_eq ct b a.
Proof. intros. split; [now apply py_eq_refl_hashable|now apply py_eq_sym_hashable]. Qed.

(* ---------------- refinement of the model ---------------- *)
(* FULL STATEMENT (kept visible; not proved in this generality): for every
   collection attribute a, every element helper hp and argument vector h,
     run_helper ct l hp h s = (Ok (VRef r'), s') ->
     field (absv (heap s') (VRef r')) a = spec_elem_op-result on field (absv (heap s) (VRef l)) a
     and every other attribute of r' is abstractly the one of l,
   with IndexError / KeyError / ValueError exactly when the specification says so.

   PROVED (C06_list_with_item_refines_partial): the executable model refines
   spec_helper — result state AND error class — for
     helper     with_<item>(v), with_<item>(v, _index=i), with_<item>(v, _index=i, _insert=True), in place
     container  a List attribute holding a list of scalars of EVERY length and content
                (falsy elements, equal elements, any integer index, negative or out of range),
                element type without spec class, no item preparer, not shared with another attribute
     receiver   flat instance of an unfrozen class without invalidated_by
     element    a proper scalar (conforming or not: ValueError is part of the statement)
   The other helpers, the dict / set families, the copy-on-write flag, the missing
   container and item preparers follow below (C06_list_without_item_refines_partial ...
   C06_update_item_preparer_refine_guarded_partial); what is STILL MISSING for the full
   statement is listed above C06_elem_helpers_refine_guarded_partial. *)
Theorem C06_list_with_item_refines_partial :
  forall ct h0 l a c d k sp s lc xs ity,
  nth_error (heap s) l = Some (OInst c d) -> lookup_cls ct c = Some k -> lookup_attr k a = Some sp ->
  NoDup (map fst d) -> c_frozen k = false -> no_inval k ->
  a_ty sp = TList ity -> a_prepare_item sp = None -> spec_of_ty_strict ity = None -> ty_depth ity < FUEL ->
  assoc a d = Some (VRef lc) -> nth_error (heap s) lc = Some (OList xs) -> forallb nonref xs = true ->
  flat_fields (heap s) d -> (forall b w, In (b, w) d -> b <> a -> w <> VRef lc) ->
  forall idx v ins,
  vscalar v = true -> (idx = VMissing \/ exists i, idx = VInt i) ->
  let h := mkh [v] true true idx ins None None [] None in
  let ah := mkah [abs0 v] true true (abs0 idx) ins None None [] None in
  match run_helper ct l (HWithItem a) h s with
  | (Ok r, s') => r = VRef l /\
                  spec_helper ct h0 (absv (heap s) (VRef l)) (SWithItem a) ah = SOk (absv (heap s') (VRef l))
  | (Err e, s') => spec_helper ct h0 (absv (heap s) (VRef l)) (SWithItem a) ah = SErr e /\ heap s' = heap s
  end.
Proof.
  intros ct h0 l a c d k sp s lc xs ity Hl Hc Ha Hd Hfz Hni Hty Hp Hs Hdep Hfld Hlc Hxs Hflat Hsh idx v ins Hv Hi.
  exact (with_item_list_inplace_refines ct h0 l a c d k sp s lc xs ity Hl Hc Ha Hd Hfz Hni Hty Hp Hs Hdep Hfld Hlc Hxs Hflat Hsh idx v ins Hv Hi).
Qed.

(* PROVED (C06_list_without_item_refines_partial): same receiver / container guard as above
   (an item preparer is irrelevant here: nothing is inserted), for
     helper     without_<item>(target), without_<item>(target, _by_index=True/False), in place
     target     ANY scalar argument (sentinels included): by value (first of the equal
                elements, True == 1; ValueError when absent), by index (negative indices,
                bool is an int; IndexError when out of range, TypeError for a non-integer),
                `_by_index` omitted (index unless the argument has the element type),
                no target (MISSING): nothing changes.
   State and error class agree with spec_helper; on an error the heap is untouched. *)
Theorem C06_list_without_item_refines_partial :
  forall ct h0 l a c d k sp s lc xs ity,
  nth_error (heap s) l = Some (OInst c d) -> lookup_cls ct c = Some k -> lookup_attr k a = Some sp ->
  NoDup (map fst d) -> c_frozen k = false -> no_inval k ->
  a_ty sp = TList ity -> ty_depth ity < FUEL ->
  assoc a d = Some (VRef lc) -> nth_error (heap s) lc = Some (OList xs) -> forallb nonref xs = true ->
  flat_fields (heap s) d -> (forall b w, In (b, w) d -> b <> a -> w <> VRef lc) ->
  forall voi bi,
  nonref voi = true ->
  let h := mkh [voi] true true VMissing false bi None [] None in
  let ah := mkah [abs0 voi] true true AMissing false bi None [] None in
  match run_helper ct l (HWithoutItem a) h s with
  | (Ok r, s') => r = VRef l /\
                  spec_helper ct h0 (absv (heap s) (VRef l)) (SWithoutItem a) ah = SOk (absv (heap s') (VRef l))
  | (Err e, s') => spec_helper ct h0 (absv (heap s) (VRef l)) (SWithoutItem a) ah = SErr e /\ heap s' = heap s
  end.
Proof.
  intros ct h0 l a c d k sp s lc xs ity Hl Hc Ha Hd Hfz Hni Hty Hdep Hfld Hlc Hxs Hflat Hsh voi bi Hv.
  exact (without_item_list_inplace_refines ct h0 l a c d k sp s lc xs ity Hl Hc Ha Hd Hfz (no_inval_no_dep k a Hni) Hty Hdep Hfld Hlc Hxs Hflat Hsh voi bi Hv).
Qed.

(* PROVED (C06_list_transform_item_refines_partial, C06_list_update_item_refines_partial):
   transform_<item>(target, f) and update_<item>(target, new), in place, on a List attribute
   holding PROPER scalars (no sentinel objects inside the list) of every length and content:
     target     any scalar but MISSING (for which the documentation is silent), by value / by
                index / `_by_index` omitted, present or absent (ValueError / IndexError / TypeError)
     transform  none, or a pool function that maps scalars to scalars (identity, +z, constant)
                or raises; its TypeError / user error is part of the statement; the transformed
                element must have the element type (ValueError)
     update     a new proper scalar (no item preparer, no spec element type), or none
                (MISSING / EMPTY / UNCHANGED: the element stays and is re-validated)
   State and error class agree with spec_helper; on an error the heap is untouched.
   GUARD ident_on_eq (only when the target is addressed BY VALUE and the old element is
   used, i.e. transform_<item>, or update_<item> without a new value): every element == to
   the target is the very same scalar.  Without it the statement is FALSE in the model and
   in the implementation: the extractor hands the ARGUMENT, not the stored element, to the
   value procedure (see C06_by_value_transforms_argument_refuted below). *)
Theorem C06_list_transform_item_refines_partial :
  forall ct h0 l a c d k sp s lc xs ity,
  nth_error (heap s) l = Some (OInst c d) -> lookup_cls ct c = Some k -> lookup_attr k a = Some sp ->
  NoDup (map fst d) -> c_frozen k = false -> no_inval k ->
  a_ty sp = TList ity -> ty_depth ity < FUEL ->
  assoc a d = Some (VRef lc) -> nth_error (heap s) lc = Some (OList xs) -> forallb vscalar xs = true ->
  flat_fields (heap s) d -> (forall b w, In (b, w) d -> b <> a -> w <> VRef lc) ->
  forall voi fo bi,
  nonref voi = true -> is_missing voi = false -> fail_at s = None ->
  match fo with Some f => pool_fn f = true | None => True end ->
  (by_index_rule ct ity (abs0 voi) bi = false -> ident_on_eq ct xs voi = true) ->
  let h := mkh [voi] true true VMissing false bi None [] fo in
  let ah := mkah [abs0 voi] true true AMissing false bi None [] fo in
  match run_helper ct l (HTransformItem a) h s with
  | (Ok r, s') => r = VRef l /\
                  spec_helper ct h0 (absv (heap s) (VRef l)) (STransformItem a) ah = SOk (absv (heap s') (VRef l))
  | (Err e, s') => spec_helper ct h0 (absv (heap s) (VRef l)) (STransformItem a) ah = SErr e /\ heap s' = heap s
  end.
Proof.
  intros ct h0 l a c d k sp s lc xs ity Hl Hc Ha Hd Hfz Hni Hty Hdep Hfld Hlc Hxs Hflat Hsh voi fo bi Hv Hm Hfa Hfo Hid.
  exact (transform_item_list_inplace_refines ct h0 l a c d k sp s lc xs ity Hl Hc Ha Hd Hfz (no_inval_no_dep k a Hni) Hty Hdep Hfld Hlc Hxs Hflat Hsh voi fo bi Hv Hm Hfa Hfo Hid).
Qed.

Theorem C06_list_update_item_refines_partial :
  forall ct h0 l a c d k sp s lc xs ity,
  nth_error (heap s) l = Some (OInst c d) -> lookup_cls ct c = Some k -> lookup_attr k a = Some sp ->
  NoDup (map fst d) -> c_frozen k = false -> no_inval k ->
  a_ty sp = TList ity -> ty_depth ity < FUEL ->
  assoc a d = Some (VRef lc) -> nth_error (heap s) lc = Some (OList xs) -> forallb vscalar xs = true ->
  flat_fields (heap s) d -> (forall b w, In (b, w) d -> b <> a -> w <> VRef lc) ->
  forall voi v bi,
  a_prepare_item sp = None -> spec_of_ty_strict ity = None ->
  nonref voi = true -> is_missing voi = false -> nonref v = true ->
  (vscalar v = false -> by_index_rule ct ity (abs0 voi) bi = false -> ident_on_eq ct xs voi = true) ->
  let h := mkh [voi; v] true true VMissing false bi None [] None in
  let ah := mkah [abs0 voi; abs0 v] true true AMissing false bi None [] None in
  match run_helper ct l (HUpdateItem a) h s with
  | (Ok r, s') => r = VRef l /\
                  spec_helper ct h0 (absv (heap s) (VRef l)) (SUpdateItem a) ah = SOk (absv (heap s') (VRef l))
  | (Err e, s') => spec_helper ct h0 (absv (heap s) (VRef l)) (SUpdateItem a) ah = SErr e /\ heap s' = heap s
  end.
Proof.
  intros ct h0 l a c d k sp s lc xs ity Hl Hc Ha Hd Hfz Hni Hty Hdep Hfld Hlc Hxs Hflat Hsh voi v bi Hp Hs Hv Hm Hnv Hid.
  exact (update_item_list_inplace_refines ct h0 l a c d k sp s lc xs ity Hl Hc Ha Hd Hfz (no_inval_no_dep k a Hni) Hty Hdep Hfld Hlc Hxs Hflat Hsh voi v bi Hp Hs Hv Hm Hnv Hid).
Qed.

(* PROVED (C06_dict_with_item_refines_partial, C06_dict_without_item_refines_partial):
   with_<item>(key, value) and without_<item>(key), in place, on a Dict attribute holding a
   dict of scalars of every size and content (receiver guard as above):
     key        any scalar (an existing key keeps its position and its first spelling --
                True and 1 are the same key --, a new key goes last; a key of the wrong type is
                a ValueError; deleting an absent key a KeyError)
     value      a proper scalar, conforming or not (ValueError); no item preparer, value type
                without spec class
   State and error class agree with spec_helper; on an error the heap is untouched. *)
Theorem C06_dict_with_item_refines_partial :
  forall ct h0 l a c d k sp s lc kvs tk tv,
  nth_error (heap s) l = Some (OInst c d) -> lookup_cls ct c = Some k -> lookup_attr k a = Some sp ->
  NoDup (map fst d) -> c_frozen k = false -> no_inval k ->
  a_ty sp = TDict tk tv -> ty_depth tk < FUEL -> ty_depth tv < FUEL ->
  assoc a d = Some (VRef lc) -> nth_error (heap s) lc = Some (ODict kvs) -> forallb pair_nonref kvs = true ->
  flat_fields (heap s) d -> (forall b w, In (b, w) d -> b <> a -> w <> VRef lc) ->
  forall key v,
  a_prepare_item sp = None -> spec_of_ty_strict tv = None ->
  nonref key = true -> vscalar v = true ->
  let h := mkh [key; v] true true VMissing false None None [] None in
  let ah := mkah [abs0 key; abs0 v] true true AMissing false None None [] None in
  match run_helper ct l (HWithItem a) h s with
  | (Ok r, s') => r = VRef l /\
                  spec_helper ct h0 (absv (heap s) (VRef l)) (SWithItem a) ah = SOk (absv (heap s') (VRef l))
  | (Err e, s') => spec_helper ct h0 (absv (heap s) (VRef l)) (SWithItem a) ah = SErr e /\ heap s' = heap s
  end.
Proof.
  intros ct h0 l a c d k sp s lc kvs tk tv Hl Hc Ha Hd Hfz Hni Hty Hdk Hdv Hfld Hlc Hkvs Hflat Hsh key v Hp Hs Hk Hv.
  exact (with_item_dict_inplace_refines ct h0 l a c d k sp s lc kvs tk tv Hl Hc Ha Hd Hfz (no_inval_no_dep k a Hni) Hty Hdk Hdv Hfld Hlc Hkvs Hflat Hsh key v Hp Hs Hk Hv).
Qed.

Theorem C06_dict_without_item_refines_partial :
  forall ct h0 l a c d k sp s lc kvs tk tv,
  nth_error (heap s) l = Some (OInst c d) -> lookup_cls ct c = Some k -> lookup_attr k a = Some sp ->
  NoDup (map fst d) -> c_frozen k = false -> no_inval k ->
  a_ty sp = TDict tk tv ->
  assoc a d = Some (VRef lc) -> nth_error (heap s) lc = Some (ODict kvs) -> forallb pair_nonref kvs = true ->
  flat_fields (heap s) d -> (forall b w, In (b, w) d -> b <> a -> w <> VRef lc) ->
  forall key,
  nonref key = true ->
  let h := mkh [key] true true VMissing false None None [] None in
  let ah := mkah [abs0 key] true true AMissing false None None [] None in
  match run_helper ct l (HWithoutItem a) h s with
  | (Ok r, s') => r = VRef l /\
                  spec_helper ct h0 (absv (heap s) (VRef l)) (SWithoutItem a) ah = SOk (absv (heap s') (VRef l))
  | (Err e, s') => spec_helper ct h0 (absv (heap s) (VRef l)) (SWithoutItem a) ah = SErr e /\ heap s' = heap s
  end.
Proof.
  intros ct h0 l a c d k sp s lc kvs tk tv Hl Hc Ha Hd Hfz Hni Hty Hfld Hlc Hkvs Hflat Hsh key Hk.
  exact (without_item_dict_inplace_refines ct h0 l a c d k sp s lc kvs tk tv Hl Hc Ha Hd Hfz (no_inval_no_dep k a Hni) Hty Hfld Hlc Hkvs Hflat Hsh key Hk).
Qed.

(* PROVED (C06_set_with_item_refines_partial, C06_set_without_item_refines_partial):
   with_<item>(e) and without_<item>(e), in place, on a Set attribute holding a set of scalars
   of every size and content (receiver guard as above); the abstraction of a set is its
   canonically ordered element list, so the statement says: set.add is the ordered insertion
   unless an equal element is present (True == 1), set.remove drops exactly the equal element
   (ValueError when there is none); a non-conforming new element is a ValueError.
   GUARD set_key_free (add only): no element of the set that differs from the new element has
   the same canonical sort key (atom_key: a convention of the abstraction; keys of distinct
   scalars collide only for integers / strings codes beyond 10^5), so that the canonical
   order of the result does not depend on the insertion order. *)
Theorem C06_set_with_item_refines_partial :
  forall ct h0 l a c d k sp s lc xs ity,
  nth_error (heap s) l = Some (OInst c d) -> lookup_cls ct c = Some k -> lookup_attr k a = Some sp ->
  NoDup (map fst d) -> c_frozen k = false -> no_inval k ->
  a_ty sp = TSet ity -> ty_depth ity < FUEL ->
  assoc a d = Some (VRef lc) -> nth_error (heap s) lc = Some (OSet xs) -> forallb nonref xs = true ->
  flat_fields (heap s) d -> (forall b w, In (b, w) d -> b <> a -> w <> VRef lc) ->
  forall v,
  a_prepare_item sp = None -> spec_of_ty_strict ity = None ->
  vscalar v = true -> set_key_free ct xs v = true ->
  let h := mkh [v] true true VMissing false None None [] None in
  let ah := mkah [abs0 v] true true AMissing false None None [] None in
  match run_helper ct l (HWithItem a) h s with
  | (Ok r, s') => r = VRef l /\
                  spec_helper ct h0 (absv (heap s) (VRef l)) (SWithItem a) ah = SOk (absv (heap s') (VRef l))
  | (Err e, s') => spec_helper ct h0 (absv (heap s) (VRef l)) (SWithItem a) ah = SErr e /\ heap s' = heap s
  end.
Proof.
  intros ct h0 l a c d k sp s lc xs ity Hl Hc Ha Hd Hfz Hni Hty Hdep Hfld Hlc Hxs Hflat Hsh v Hp Hs Hv Hkf.
  exact (with_item_set_inplace_refines ct h0 l a c d k sp s lc xs ity Hl Hc Ha Hd Hfz (no_inval_no_dep k a Hni) Hty Hdep Hfld Hlc Hxs Hflat Hsh v Hp Hs Hv Hkf).
Qed.

Theorem C06_set_without_item_refines_partial :
  forall ct h0 l a c d k sp s lc xs ity,
  nth_error (heap s) l = Some (OInst c d) -> lookup_cls ct c = Some k -> lookup_attr k a = Some sp ->
  NoDup (map fst d) -> c_frozen k = false -> no_inval k ->
  a_ty sp = TSet ity ->
  assoc a d = Some (VRef lc) -> nth_error (heap s) lc = Some (OSet xs) -> forallb nonref xs = true ->
  flat_fields (heap s) d -> (forall b w, In (b, w) d -> b <> a -> w <> VRef lc) ->
  forall voi,
  nonref voi = true ->
  let h := mkh [voi] true true VMissing false None None [] None in
  let ah := mkah [abs0 voi] true true AMissing false None None [] None in
  match run_helper ct l (HWithoutItem a) h s with
  | (Ok r, s') => r = VRef l /\
                  spec_helper ct h0 (absv (heap s) (VRef l)) (SWithoutItem a) ah = SOk (absv (heap s') (VRef l))
  | (Err e, s') => spec_helper ct h0 (absv (heap s) (VRef l)) (SWithoutItem a) ah = SErr e /\ heap s' = heap s
  end.
Proof.
  intros ct h0 l a c d k sp s lc xs ity Hl Hc Ha Hd Hfz Hni Hty Hfld Hlc Hxs Hflat Hsh voi Hv.
  exact (without_item_set_inplace_refines ct h0 l a c d k sp s lc xs ity Hl Hc Ha Hd Hfz (no_inval_no_dep k a Hni) Hty Hfld Hlc Hxs Hflat Hsh voi Hv).
Qed.

(* The nine refinement theorems above under ONE computable side condition
   (Inst/ElemRefineGuard.v): elem_guard ct s l a kind = true says that l is a flat instance of an
   unfrozen class in which no attribute is invalidated by a (nor by '*'), whose attribute a is
   declared List / Dict / Set and
   holds, unshared, a list / dict / set of scalars; plain_items: no item preparer and no spec
   element type; proper_elems: no sentinel object inside the list; by_value_ok / set_key_free:
   see above.  refines_spec: the model run and spec_helper agree on the result state (the
   receiver itself is returned) and on the error class, and an error leaves the heap alone.
   STILL MISSING for the full statement: keywords / spec elements (key promotion), nested
   receivers in copy-on-write calls, in-place calls on a shared container, attributes that other attributes are
   invalidated by.
   (The copy-on-write flag of with_/without_<item> is C06_elem_helpers_copy_refine_guarded_partial.) *)
Theorem C06_elem_helpers_refine_guarded_partial : forall ct h0 s l a,
  (* lists *)
  (elem_guard ct s l a KList = true ->
     (forall idx v ins, plain_items ct s l a = true -> vscalar v = true ->
        (idx = VMissing \/ exists i, idx = VInt i) ->
        refines_spec ct h0 s l (HWithItem a) (mkh [v] true true idx ins None None [] None)
                     (SWithItem a) (mkah [abs0 v] true true (abs0 idx) ins None None [] None)) /\
     (forall voi bi, nonref voi = true ->
        refines_spec ct h0 s l (HWithoutItem a) (mkh [voi] true true VMissing false bi None [] None)
                     (SWithoutItem a) (mkah [abs0 voi] true true AMissing false bi None [] None)) /\
     (forall voi fo bi, proper_elems s l a = true -> fail_at s = None ->
        nonref voi = true -> is_missing voi = false ->
        match fo with Some f => pool_fn f = true | None => True end ->
        by_value_ok ct s l a voi bi = true ->
        refines_spec ct h0 s l (HTransformItem a) (mkh [voi] true true VMissing false bi None [] fo)
                     (STransformItem a) (mkah [abs0 voi] true true AMissing false bi None [] fo)) /\
     (forall voi v bi, proper_elems s l a = true -> plain_items ct s l a = true ->
        nonref voi = true -> is_missing voi = false -> nonref v = true ->
        vscalar v || by_value_ok ct s l a voi bi = true ->
        refines_spec ct h0 s l (HUpdateItem a) (mkh [voi; v] true true VMissing false bi None [] None)
                     (SUpdateItem a) (mkah [abs0 voi; abs0 v] true true AMissing false bi None [] None))) /\
  (* dicts *)
  (elem_guard ct s l a KDict = true ->
     (forall key v, plain_items ct s l a = true -> nonref key = true -> vscalar v = true ->
        refines_spec ct h0 s l (HWithItem a) (mkh [key; v] true true VMissing false None None [] None)
                     (SWithItem a) (mkah [abs0 key; abs0 v] true true AMissing false None None [] None)) /\
     (forall key, nonref key = true ->
        refines_spec ct h0 s l (HWithoutItem a) (mkh [key] true true VMissing false None None [] None)
                     (SWithoutItem a) (mkah [abs0 key] true true AMissing false None None [] None))) /\
  (* sets *)
  (elem_guard ct s l a KSet = true ->
     (forall v, plain_items ct s l a = true -> vscalar v = true ->
        set_key_free ct (list_of s l a) v = true ->
        refines_spec ct h0 s l (HWithItem a) (mkh [v] true true VMissing false None None [] None)
                     (SWithItem a) (mkah [abs0 v] true true AMissing false None None [] None)) /\
     (forall voi, nonref voi = true ->
        refines_spec ct h0 s l (HWithoutItem a) (mkh [voi] true true VMissing false None None [] None)
                     (SWithoutItem a) (mkah [abs0 voi] true true AMissing false None None [] None))).
Proof.
  intros ct h0 s l a. split; [|split]; intro G.
  - split; [|split; [|split]].
    + intros idx v ins P Hv Hi. now apply with_item_list_guarded.
    + intros voi bi Hv. now apply without_item_list_guarded.
    + intros voi fo bi Pe Hfa Hv Hm Hfo Hbv. now apply transform_item_list_guarded.
    + intros voi v bi Pe P Hv Hm Hnv Hbv. now apply update_item_list_guarded.
  - split.
    + intros key v P Hk Hv. now apply with_item_dict_guarded.
    + intros key Hk. now apply without_item_dict_guarded.
  - split.
    + intros v P Hv Hkf. now apply with_item_set_guarded.
    + intros voi Hv. now apply without_item_set_guarded.
Qed.

(* non-vacuity of the guard: A(xs=[1, 0, 1, 0], m={'': 0, 'a7': 1}, t={2, 0}) with
   xs : List[int], m : Dict[str, int], t : Set[int] satisfies every side condition, and the
   model does on it what the plain container operation does: remove the first 0; remove at
   index -1; identity-transform at index 1; assign an existing key (position kept) and a new one
   (last); delete a key; add a present / an absent element; remove; and the documented errors *)
Example C06_guard_examples :
  let run hp h := match run_helper ex_ct 0 hp h ex_state with
                  | (Ok _, s') => SOk (nth 1 (heap s') (OList []), nth 2 (heap s') (OList []), nth 3 (heap s') (OList []))
                  | (Err e, _) => SErr e end in
  let L := OList [VInt 1; VInt 0; VInt 1; VInt 0] in
  let D := ODict [(VStr 0, VInt 0); (VStr 7, VInt 1)] in
  let S := OSet [VInt 2; VInt 0] in
  elem_guard ex_ct ex_state 0 1 KList = true /\ elem_guard ex_ct ex_state 0 2 KDict = true /\
  elem_guard ex_ct ex_state 0 3 KSet = true /\
  (* a class with `n: int = Attr(default=0, invalidated_by=["m"])`: xs and t are within the guard, m is not *)
  elem_guard ex_ct_dep ex_state 0 1 KList = true /\ elem_guard ex_ct_dep ex_state 0 3 KSet = true /\
  elem_guard ex_ct_dep ex_state 0 2 KDict = false /\ copy_guard ex_ct_dep ex_state 0 1 KList = true /\
  plain_items ex_ct ex_state 0 1 = true /\ plain_items ex_ct ex_state 0 2 = true /\ plain_items ex_ct ex_state 0 3 = true /\
  proper_elems ex_state 0 1 = true /\
  by_value_ok ex_ct ex_state 0 1 (VInt 0) None = true /\ by_value_ok ex_ct ex_state 0 1 (VBool true) (Some true) = true /\
  set_key_free ex_ct (list_of ex_state 0 3) (VInt 5) = true /\
  run (HWithoutItem 1) (mkh [VInt 0] true true VMissing false (Some false) None [] None)
    = SOk (OList [VInt 1; VInt 1; VInt 0], D, S) /\
  run (HWithoutItem 1) (mkh [VInt (-1)] true true VMissing false (Some true) None [] None)
    = SOk (OList [VInt 1; VInt 0; VInt 1], D, S) /\
  run (HWithoutItem 1) (mkh [VInt 7] true true VMissing false None None [] None) = SErr ValueErr /\
  run (HWithoutItem 1) (mkh [VInt 4] true true VMissing false (Some true) None [] None) = SErr IndexErr /\
  run (HTransformItem 1) (mkh [VInt 1] true true VMissing false (Some true) None [] (Some (FAddInt 5)))
    = SOk (OList [VInt 1; VInt 5; VInt 1; VInt 0], D, S) /\
  run (HUpdateItem 1) (mkh [VInt 0; VInt 9] true true VMissing false None None [] None)
    = SOk (OList [VInt 1; VInt 9; VInt 1; VInt 0], D, S) /\
  run (HUpdateItem 1) (mkh [VInt 0; VStr 3] true true VMissing false None None [] None) = SErr ValueErr /\
  run (HWithItem 2) (mkh [VStr 0; VInt 4] true true VMissing false None None [] None)
    = SOk (L, ODict [(VStr 0, VInt 4); (VStr 7, VInt 1)], S) /\
  run (HWithItem 2) (mkh [VStr 8; VInt 0] true true VMissing false None None [] None)
    = SOk (L, ODict [(VStr 0, VInt 0); (VStr 7, VInt 1); (VStr 8, VInt 0)], S) /\
  run (HWithItem 2) (mkh [VInt 8; VInt 0] true true VMissing false None None [] None) = SErr ValueErr /\
  run (HWithoutItem 2) (mkh [VStr 0] true true VMissing false None None [] None)
    = SOk (L, ODict [(VStr 7, VInt 1)], S) /\
  run (HWithoutItem 2) (mkh [VStr 9] true true VMissing false None None [] None) = SErr KeyErr /\
  run (HWithItem 3) (mkh [VInt 0] true true VMissing false None None [] None) = SOk (L, D, S) /\
  run (HWithItem 3) (mkh [VInt 5] true true VMissing false None None [] None)
    = SOk (L, D, OSet [VInt 2; VInt 0; VInt 5]) /\
  run (HWithoutItem 3) (mkh [VInt 0] true true VMissing false None None [] None) = SOk (L, D, OSet [VInt 2]) /\
  run (HWithoutItem 3) (mkh [VInt 1] true true VMissing false None None [] None) = SErr ValueErr.
Proof. vm_compute. repeat split. Qed.

(* THE COPY-ON-WRITE FLAG (Inst/ElemRefine6.v).  with_<item> / without_<item> called WITHOUT
   _inplace on a flat receiver -- of a FROZEN class or not -- under the computable side
   condition copy_guard (flat receiver that is not being initialised; class in which
   nothing is invalidated by a, without do_not_copy and __post_copy__ hook; attribute a declared List / Dict / Set and
   holding a list / dict / set of scalars, possibly shared with another attribute).
   copy_refines_spec: the call returns a FRESH instance (a cell beyond the old heap), NO cell of
   the old heap changes (receiver, its containers and everything else keep their content), and
   the abstraction of the result is exactly what spec_helper computes from the abstraction of the
   receiver; when the model raises, the specification demands that error class and the old heap
   is equally untouched.  Arguments and addressing modes as for the in-place theorems. *)
Theorem C06_elem_helpers_copy_refine_guarded_partial : forall ct h0 s l a,
  (copy_guard ct s l a KList = true ->
     (forall idx v ins, plain_items ct s l a = true -> vscalar v = true ->
        (idx = VMissing \/ exists i, idx = VInt i) ->
        copy_refines_spec ct h0 s l (HWithItem a) (mkh [v] false true idx ins None None [] None)
                          (SWithItem a) (mkah [abs0 v] false true (abs0 idx) ins None None [] None)) /\
     (forall voi bi, nonref voi = true ->
        copy_refines_spec ct h0 s l (HWithoutItem a) (mkh [voi] false true VMissing false bi None [] None)
                          (SWithoutItem a) (mkah [abs0 voi] false true AMissing false bi None [] None))) /\
  (copy_guard ct s l a KDict = true ->
     (forall key v, plain_items ct s l a = true -> nonref key = true -> vscalar v = true ->
        copy_refines_spec ct h0 s l (HWithItem a) (mkh [key; v] false true VMissing false None None [] None)
                          (SWithItem a) (mkah [abs0 key; abs0 v] false true AMissing false None None [] None)) /\
     (forall key, nonref key = true ->
        copy_refines_spec ct h0 s l (HWithoutItem a) (mkh [key] false true VMissing false None None [] None)
                          (SWithoutItem a) (mkah [abs0 key] false true AMissing false None None [] None))) /\
  (copy_guard ct s l a KSet = true ->
     (forall v, plain_items ct s l a = true -> vscalar v = true ->
        set_key_free ct (list_of s l a) v = true ->
        copy_refines_spec ct h0 s l (HWithItem a) (mkh [v] false true VMissing false None None [] None)
                          (SWithItem a) (mkah [abs0 v] false true AMissing false None None [] None)) /\
     (forall voi, nonref voi = true ->
        copy_refines_spec ct h0 s l (HWithoutItem a) (mkh [voi] false true VMissing false None None [] None)
                          (SWithoutItem a) (mkah [abs0 voi] false true AMissing false None None [] None))).
Proof.
  intros ct h0 s l a. split; [|split]; intro G; split.
  - intros idx v ins P Hv Hi. now apply with_item_list_copy_guarded.
  - intros voi bi Hv. now apply without_item_list_copy_guarded.
  - intros key v P Hk Hv. now apply with_item_dict_copy_guarded.
  - intros key Hk. now apply without_item_dict_copy_guarded.
  - intros v P Hv Hkf. now apply with_item_set_copy_guarded.
  - intros voi Hv. now apply without_item_set_copy_guarded.
Qed.

(* the copy-on-write flag for update_<item> / transform_<item> on a list attribute of proper
   scalars (Inst/ElemRefine7.v): same arguments and side conditions as the in-place theorems,
   same conclusion as above (fresh result, old heap untouched, abstraction = spec_helper,
   error classes); the user function runs on the protected copy *)
Theorem C06_list_change_item_copy_refine_guarded_partial : forall ct h0 s l a,
  copy_guard ct s l a KList = true -> proper_elems s l a = true ->
  (forall voi fo bi, fail_at s = None -> nonref voi = true -> is_missing voi = false ->
     match fo with Some f => pool_fn f = true | None => True end ->
     by_value_ok ct s l a voi bi = true ->
     copy_refines_spec ct h0 s l (HTransformItem a) (mkh [voi] false true VMissing false bi None [] fo)
                       (STransformItem a) (mkah [abs0 voi] false true AMissing false bi None [] fo)) /\
  (forall voi v bi, plain_items ct s l a = true ->
     nonref voi = true -> is_missing voi = false -> nonref v = true ->
     vscalar v || by_value_ok ct s l a voi bi = true ->
     copy_refines_spec ct h0 s l (HUpdateItem a) (mkh [voi; v] false true VMissing false bi None [] None)
                       (SUpdateItem a) (mkah [abs0 voi; abs0 v] false true AMissing false bi None [] None)).
Proof.
  intros ct h0 s l a G Pe. split.
  - intros voi fo bi Hfa Hv Hm Hfo Hbv. now apply transform_item_list_copy_guarded.
  - intros voi v bi P Hv Hm Hnv Hbv. now apply update_item_list_copy_guarded.
Qed.

(* non-vacuity of copy_guard: the receiver of C06_guard_examples with its class declared
   FROZEN.  The copy-on-write calls return a new instance (cell 5) whose attribute holds the
   edited container, cells 0..3 are as before; the in-place call is refused. *)
Example C06_copy_guard_examples :
  let old s' := firstn 4 (heap s') in
  copy_guard ex_ct_frozen ex_state 0 1 KList = true /\ copy_guard ex_ct_frozen ex_state 0 2 KDict = true /\
  copy_guard ex_ct_frozen ex_state 0 3 KSet = true /\
  plain_items ex_ct_frozen ex_state 0 1 = true /\ elem_guard ex_ct_frozen ex_state 0 1 KList = false /\
  (match run_helper ex_ct_frozen 0 (HWithoutItem 1) (mkh [VInt 0] false true VMissing false None None [] None) ex_state with
   | (Ok (VRef r), s') => r = 5 /\ old s' = heap ex_state /\
                          absv (heap s') (VRef r) =
                          AInst 0 [(1, AList [AInt 1; AInt 1; AInt 0]); (2, ADict [(AStr 0, AInt 0); (AStr 7, AInt 1)]);
                                   (3, ASet [AInt 0; AInt 2])]
   | _ => False end) /\
  (match run_helper ex_ct_frozen 0 (HWithItem 2) (mkh [VStr 8; VInt 3] false true VMissing false None None [] None) ex_state with
   | (Ok (VRef r), s') => r = 5 /\ old s' = heap ex_state /\
                          absv (heap s') (VRef r) =
                          AInst 0 [(1, AList [AInt 1; AInt 0; AInt 1; AInt 0]);
                                   (2, ADict [(AStr 0, AInt 0); (AStr 7, AInt 1); (AStr 8, AInt 3)]);
                                   (3, ASet [AInt 0; AInt 2])]
   | _ => False end) /\
  (match run_helper ex_ct_frozen 0 (HWithItem 3) (mkh [VInt 1] false true VMissing false None None [] None) ex_state with
   | (Ok (VRef r), s') => r = 5 /\ old s' = heap ex_state /\
                          absv (heap s') (VRef r) =
                          AInst 0 [(1, AList [AInt 1; AInt 0; AInt 1; AInt 0]); (2, ADict [(AStr 0, AInt 0); (AStr 7, AInt 1)]);
                                   (3, ASet [AInt 0; AInt 1; AInt 2])]
   | _ => False end) /\
  proper_elems ex_state 0 1 = true /\ by_value_ok ex_ct_frozen ex_state 0 1 (VInt (-1)) (Some true) = true /\
  (match run_helper ex_ct_frozen 0 (HTransformItem 1) (mkh [VInt (-1)] false true VMissing false (Some true) None [] (Some (FAddInt 7))) ex_state with
   | (Ok (VRef r), s') => r = 5 /\ old s' = heap ex_state /\
                          absv (heap s') (VRef r) =
                          AInst 0 [(1, AList [AInt 1; AInt 0; AInt 1; AInt 7]); (2, ADict [(AStr 0, AInt 0); (AStr 7, AInt 1)]);
                                   (3, ASet [AInt 0; AInt 2])]
   | _ => False end) /\
  fst (run_helper ex_ct_frozen 0 (HWithoutItem 2) (mkh [VStr 9] false true VMissing false None None [] None) ex_state)
    = Err KeyErr /\
  fst (run_helper ex_ct_frozen 0 (HWithoutItem 1) (mkh [VInt 0] true true VMissing false None None [] None) ex_state)
    = Err FrozenErr.
Proof. vm_compute. repeat split. Qed.

(* "CREATING THE CONTAINER WHEN IT IS MISSING" (Inst/ElemRefine8.v).  missing_guard: flat
   receiver of an unfrozen class in which nothing is invalidated by a, whose attribute a is declared List /
   Dict / Set and holds nothing (no entry in the instance, no class-level default).
   with_<item> in place creates the empty container, edits it and stores it: the abstraction
   of the receiver afterwards is spec_helper's result (which starts from the empty container);
   without_<item> finds nothing in the container it has just created: ValueError / IndexError /
   KeyError exactly as the specification says (no target at all: the empty list is stored).
   missing_refines_spec also says that every old cell but the receiver's keeps its content. *)
Theorem C06_elem_helpers_missing_container_refine_guarded_partial : forall ct h0 s l a,
  (missing_guard ct s l a KList = true ->
     (forall idx v ins, plain_items ct s l a = true -> vscalar v = true ->
        (idx = VMissing \/ exists i, idx = VInt i) ->
        missing_refines_spec ct h0 s l (HWithItem a) (mkh [v] true true idx ins None None [] None)
                             (SWithItem a) (mkah [abs0 v] true true (abs0 idx) ins None None [] None)) /\
     (forall voi bi, nonref voi = true ->
        missing_refines_spec ct h0 s l (HWithoutItem a) (mkh [voi] true true VMissing false bi None [] None)
                             (SWithoutItem a) (mkah [abs0 voi] true true AMissing false bi None [] None))) /\
  (missing_guard ct s l a KDict = true ->
     (forall key v, plain_items ct s l a = true -> nonref key = true -> vscalar v = true ->
        missing_refines_spec ct h0 s l (HWithItem a) (mkh [key; v] true true VMissing false None None [] None)
                             (SWithItem a) (mkah [abs0 key; abs0 v] true true AMissing false None None [] None)) /\
     (forall key, nonref key = true ->
        missing_refines_spec ct h0 s l (HWithoutItem a) (mkh [key] true true VMissing false None None [] None)
                             (SWithoutItem a) (mkah [abs0 key] true true AMissing false None None [] None))) /\
  (missing_guard ct s l a KSet = true ->
     (forall v, plain_items ct s l a = true -> vscalar v = true ->
        missing_refines_spec ct h0 s l (HWithItem a) (mkh [v] true true VMissing false None None [] None)
                             (SWithItem a) (mkah [abs0 v] true true AMissing false None None [] None)) /\
     (forall voi, nonref voi = true ->
        missing_refines_spec ct h0 s l (HWithoutItem a) (mkh [voi] true true VMissing false None None [] None)
                             (SWithoutItem a) (mkah [abs0 voi] true true AMissing false None None [] None))).
Proof.
  intros ct h0 s l a. split; [|split]; intro G; split.
  - intros idx v ins P Hv Hi. now apply with_item_list_missing_guarded.
  - intros voi bi Hv. now apply without_item_list_missing_guarded.
  - intros key v P Hk Hv. now apply with_item_dict_missing_guarded.
  - intros key Hk. now apply without_item_dict_missing_guarded.
  - intros v P Hv. now apply with_item_set_missing_guarded.
  - intros voi Hv. now apply without_item_set_missing_guarded.
Qed.

(* ... and in the DEFAULT calling convention (Inst/ElemRefine12.v): with_<item> / without_<item>
   without _inplace on an attribute that holds nothing (missing_copy_guard: frozen classes
   included) -- `A().with_x(1)` --: the empty container is created and edited, the receiver is
   copied and the copy holds the new container; copy_refines_spec: fresh result, old heap
   untouched, abstraction of the result = spec_helper, error classes. *)
Theorem C06_elem_helpers_missing_container_copy_refine_guarded_partial : forall ct h0 s l a,
  (missing_copy_guard ct s l a KList = true ->
     (forall idx v ins, plain_items ct s l a = true -> vscalar v = true ->
        (idx = VMissing \/ exists i, idx = VInt i) ->
        copy_refines_spec ct h0 s l (HWithItem a) (mkh [v] false true idx ins None None [] None)
                          (SWithItem a) (mkah [abs0 v] false true (abs0 idx) ins None None [] None)) /\
     (forall voi bi, nonref voi = true ->
        copy_refines_spec ct h0 s l (HWithoutItem a) (mkh [voi] false true VMissing false bi None [] None)
                          (SWithoutItem a) (mkah [abs0 voi] false true AMissing false bi None [] None))) /\
  (missing_copy_guard ct s l a KDict = true ->
     (forall key v, plain_items ct s l a = true -> nonref key = true -> vscalar v = true ->
        copy_refines_spec ct h0 s l (HWithItem a) (mkh [key; v] false true VMissing false None None [] None)
                          (SWithItem a) (mkah [abs0 key; abs0 v] false true AMissing false None None [] None)) /\
     (forall key, nonref key = true ->
        copy_refines_spec ct h0 s l (HWithoutItem a) (mkh [key] false true VMissing false None None [] None)
                          (SWithoutItem a) (mkah [abs0 key] false true AMissing false None None [] None))) /\
  (missing_copy_guard ct s l a KSet = true ->
     (forall v, plain_items ct s l a = true -> vscalar v = true ->
        copy_refines_spec ct h0 s l (HWithItem a) (mkh [v] false true VMissing false None None [] None)
                          (SWithItem a) (mkah [abs0 v] false true AMissing false None None [] None)) /\
     (forall voi, nonref voi = true ->
        copy_refines_spec ct h0 s l (HWithoutItem a) (mkh [voi] false true VMissing false None None [] None)
                          (SWithoutItem a) (mkah [abs0 voi] false true AMissing false None None [] None))).
Proof.
  intros ct h0 s l a. split; [|split]; intro G; split.
  - intros idx v ins P Hv Hi. now apply with_item_list_missing_copy_guarded.
  - intros voi bi Hv. now apply without_item_list_missing_copy_guarded.
  - intros key v P Hk Hv. now apply with_item_dict_missing_copy_guarded.
  - intros key Hk. now apply without_item_dict_missing_copy_guarded.
  - intros v P Hv. now apply with_item_set_missing_copy_guarded.
  - intros voi Hv. now apply without_item_set_missing_copy_guarded.
Qed.

(* non-vacuity of missing_guard: an instance of the example class holding nothing *)
Example C06_missing_guard_examples :
  missing_guard ex_ct ex_state_missing 0 1 KList = true /\ missing_guard ex_ct ex_state_missing 0 2 KDict = true /\
  missing_guard ex_ct ex_state_missing 0 3 KSet = true /\ plain_items ex_ct ex_state_missing 0 2 = true /\
  snd (run_helper ex_ct 0 (HWithItem 1) (mkh [VInt 0] true true VMissing false None None [] None) ex_state_missing)
    = mkst [OInst 0 [(1, VRef 1)]; OList [VInt 0]] 0 None /\
  snd (run_helper ex_ct 0 (HWithItem 2) (mkh [VStr 0; VInt 0] true true VMissing false None None [] None) ex_state_missing)
    = mkst [OInst 0 [(2, VRef 1)]; ODict [(VStr 0, VInt 0)]] 0 None /\
  fst (run_helper ex_ct 0 (HWithItem 1) (mkh [VInt 0] true true (VInt 0) false None None [] None) ex_state_missing)
    = Err IndexErr /\
  fst (run_helper ex_ct 0 (HWithoutItem 3) (mkh [VInt 0] true true VMissing false None None [] None) ex_state_missing)
    = Err ValueErr /\
  fst (run_helper ex_ct 0 (HWithoutItem 2) (mkh [VStr 0] true true VMissing false None None [] None) ex_state_missing)
    = Err KeyErr /\
  (* the default calling convention on the frozen twin: A().with_x(7) *)
  missing_copy_guard ex_ct_frozen ex_state_missing 0 1 KList = true /\ missing_copy_guard ex_ct_frozen ex_state_missing 0 3 KSet = true /\
  run_helper ex_ct_frozen 0 (HWithItem 1) (mkh [VInt 7] false true VMissing false None None [] None) ex_state_missing
    = (Ok (VRef 2), mkst [OInst 0 []; OList [VInt 7]; OInst 0 [(1, VRef 1)]] 0 None).
Proof. vm_compute. repeat split. Qed.

(* update_<item> / transform_<item> ON DICTS AND SETS of proper scalars (Inst/ElemRefine9.v), in
   place (elem_guard, refines_spec) and copy-on-write (copy_guard, copy_refines_spec):
     dict   the value under the key is replaced by the new value / by f(old value); the key
            keeps its position and spelling; an absent key is a KeyError, a transformed value of
            the wrong type a ValueError, the function's own TypeError / user error goes through;
            dict_vals_proper: no sentinel object among the values
     set    the element is replaced: removed, and the new / transformed element added unless an
            equal one is already there (so {2,0}.update(0, 2) is {2}); an absent element is a
            ValueError; set_change_ok: the element equal to the target is the very same scalar
            (the by-value finding below applies to sets as well) and the resulting element has an
            unambiguous place in the canonical order of the abstraction
   update_: new proper scalar (plain_items) or none (the element stays and is re-validated);
   transform_: none, or a pool function mapping scalars to scalars, or raising (fo_ok). *)
Theorem C06_dict_set_change_item_refine_guarded_partial : forall ct h0 s l a,
  (elem_guard ct s l a KDict = true -> dict_vals_proper s l a = true ->
     (forall key fo bi, fail_at s = None -> nonref key = true -> is_missing key = false -> fo_ok fo ->
        refines_spec ct h0 s l (HTransformItem a) (mkh [key] true true VMissing false bi None [] fo)
                     (STransformItem a) (mkah [abs0 key] true true AMissing false bi None [] fo)) /\
     (forall key v, plain_items ct s l a = true -> nonref key = true -> is_missing key = false -> nonref v = true ->
        refines_spec ct h0 s l (HUpdateItem a) (mkh [key; v] true true VMissing false None None [] None)
                     (SUpdateItem a) (mkah [abs0 key; abs0 v] true true AMissing false None None [] None))) /\
  (copy_guard ct s l a KDict = true -> dict_vals_proper s l a = true ->
     (forall key fo bi, fail_at s = None -> nonref key = true -> is_missing key = false -> fo_ok fo ->
        copy_refines_spec ct h0 s l (HTransformItem a) (mkh [key] false true VMissing false bi None [] fo)
                          (STransformItem a) (mkah [abs0 key] false true AMissing false bi None [] fo)) /\
     (forall key v, plain_items ct s l a = true -> nonref key = true -> is_missing key = false -> nonref v = true ->
        copy_refines_spec ct h0 s l (HUpdateItem a) (mkh [key; v] false true VMissing false None None [] None)
                          (SUpdateItem a) (mkah [abs0 key; abs0 v] false true AMissing false None None [] None))) /\
  (elem_guard ct s l a KSet = true ->
     (forall voi fo bi, fail_at s = None -> vscalar voi = true -> fo_ok fo ->
        set_change_ok ct s l a voi (trp fo voi) = true ->
        refines_spec ct h0 s l (HTransformItem a) (mkh [voi] true true VMissing false bi None [] fo)
                     (STransformItem a) (mkah [abs0 voi] true true AMissing false bi None [] fo)) /\
     (forall voi v, plain_items ct s l a = true -> vscalar voi = true -> nonref v = true ->
        set_change_ok ct s l a voi (up_pr v voi) = true ->
        refines_spec ct h0 s l (HUpdateItem a) (mkh [voi; v] true true VMissing false None None [] None)
                     (SUpdateItem a) (mkah [abs0 voi; abs0 v] true true AMissing false None None [] None))) /\
  (copy_guard ct s l a KSet = true ->
     (forall voi fo bi, fail_at s = None -> vscalar voi = true -> fo_ok fo ->
        set_change_ok ct s l a voi (trp fo voi) = true ->
        copy_refines_spec ct h0 s l (HTransformItem a) (mkh [voi] false true VMissing false bi None [] fo)
                          (STransformItem a) (mkah [abs0 voi] false true AMissing false bi None [] fo)) /\
     (forall voi v, plain_items ct s l a = true -> vscalar voi = true -> nonref v = true ->
        set_change_ok ct s l a voi (up_pr v voi) = true ->
        copy_refines_spec ct h0 s l (HUpdateItem a) (mkh [voi; v] false true VMissing false None None [] None)
                          (SUpdateItem a) (mkah [abs0 voi; abs0 v] false true AMissing false None None [] None))).
Proof.
  intros ct h0 s l a. split; [|split; [|split]].
  - intros G Vp. split.
    + intros key fo bi Hfa Hk Hm Hfo. now apply transform_item_dict_guarded.
    + intros key v P Hk Hm Hnv. now apply update_item_dict_guarded.
  - intros G Vp. split.
    + intros key fo bi Hfa Hk Hm Hfo. now apply transform_item_dict_copy_guarded.
    + intros key v P Hk Hm Hnv. now apply update_item_dict_copy_guarded.
  - intros G. split.
    + intros voi fo bi Hfa Hv Hfo Hok. now apply transform_item_set_guarded.
    + intros voi v P Hv Hnv Hok. now apply update_item_set_guarded.
  - intros G. split.
    + intros voi fo bi Hfa Hv Hfo Hok. now apply transform_item_set_copy_guarded.
    + intros voi v P Hv Hnv Hok. now apply update_item_set_copy_guarded.
Qed.

(* non-vacuity on the example receiver: m['a7'] += 5; update of an absent key; t: 2 -> 7; t: 0 -> 2 *)
Example C06_dict_set_change_examples :
  let run hp h := match run_helper ex_ct 0 hp h ex_state with
                  | (Ok _, s') => SOk (nth 2 (heap s') (OList []), nth 3 (heap s') (OList []))
                  | (Err e, _) => SErr e end in
  dict_vals_proper ex_state 0 2 = true /\
  set_change_ok ex_ct ex_state 0 3 (VInt 2) (trp (Some (FAddInt 5)) (VInt 2)) = true /\
  set_change_ok ex_ct ex_state 0 3 (VInt 0) (up_pr (VInt 2) (VInt 0)) = true /\
  run (HTransformItem 2) (mkh [VStr 7] true true VMissing false None None [] (Some (FAddInt 5)))
    = SOk (ODict [(VStr 0, VInt 0); (VStr 7, VInt 6)], OSet [VInt 2; VInt 0]) /\
  run (HUpdateItem 2) (mkh [VStr 9; VInt 1] true true VMissing false None None [] None) = SErr KeyErr /\
  run (HUpdateItem 2) (mkh [VStr 0; VStr 1] true true VMissing false None None [] None) = SErr ValueErr /\
  run (HTransformItem 3) (mkh [VInt 2] true true VMissing false None None [] (Some (FAddInt 5)))
    = SOk (ODict [(VStr 0, VInt 0); (VStr 7, VInt 1)], OSet [VInt 0; VInt 7]) /\
  run (HUpdateItem 3) (mkh [VInt 0; VInt 2] true true VMissing false None None [] None)
    = SOk (ODict [(VStr 0, VInt 0); (VStr 7, VInt 1)], OSet [VInt 2]) /\
  run (HTransformItem 3) (mkh [VInt 9] true true VMissing false None None [] (Some FId)) = SErr ValueErr.
Proof. vm_compute. repeat split. Qed.

(* ITEM PREPARERS (Inst/ElemRefine10.v).  with_<item> on a List / Dict / Set attribute of scalars
   whose class declares `_prepare_<item>` as a pool function mapping scalars to scalars or
   raising (prep_items; no preparer is the special case): the new element is run through the
   preparer FIRST (its TypeError / user error is the outcome; a missing target index is still
   reported before the preparer runs), the prepared element is type-checked (ValueError) and
   inserted; in place (refines_spec) and copy-on-write (copy_refines_spec).  set_prep_ok: the
   prepared element has an unambiguous place in the canonical order of the set abstraction. *)
Theorem C06_with_item_preparer_refine_guarded_partial : forall ct h0 s l a,
  prep_items ct s l a = true -> fail_at s = None ->
  (elem_guard ct s l a KList = true ->
     forall idx v ins, vscalar v = true -> (idx = VMissing \/ exists i, idx = VInt i) ->
       refines_spec ct h0 s l (HWithItem a) (mkh [v] true true idx ins None None [] None)
                    (SWithItem a) (mkah [abs0 v] true true (abs0 idx) ins None None [] None)) /\
  (copy_guard ct s l a KList = true ->
     forall idx v ins, vscalar v = true -> (idx = VMissing \/ exists i, idx = VInt i) ->
       copy_refines_spec ct h0 s l (HWithItem a) (mkh [v] false true idx ins None None [] None)
                         (SWithItem a) (mkah [abs0 v] false true (abs0 idx) ins None None [] None)) /\
  (elem_guard ct s l a KDict = true ->
     forall key v, nonref key = true -> vscalar v = true ->
       refines_spec ct h0 s l (HWithItem a) (mkh [key; v] true true VMissing false None None [] None)
                    (SWithItem a) (mkah [abs0 key; abs0 v] true true AMissing false None None [] None)) /\
  (copy_guard ct s l a KDict = true ->
     forall key v, nonref key = true -> vscalar v = true ->
       copy_refines_spec ct h0 s l (HWithItem a) (mkh [key; v] false true VMissing false None None [] None)
                         (SWithItem a) (mkah [abs0 key; abs0 v] false true AMissing false None None [] None)) /\
  (elem_guard ct s l a KSet = true ->
     forall v, vscalar v = true -> set_prep_ok ct s l a v = true ->
       refines_spec ct h0 s l (HWithItem a) (mkh [v] true true VMissing false None None [] None)
                    (SWithItem a) (mkah [abs0 v] true true AMissing false None None [] None)) /\
  (copy_guard ct s l a KSet = true ->
     forall v, vscalar v = true -> set_prep_ok ct s l a v = true ->
       copy_refines_spec ct h0 s l (HWithItem a) (mkh [v] false true VMissing false None None [] None)
                         (SWithItem a) (mkah [abs0 v] false true AMissing false None None [] None)).
Proof.
  intros ct h0 s l a P Hfa. repeat split; intro G.
  - intros idx v ins Hv Hi. now apply with_item_list_prep_guarded.
  - intros idx v ins Hv Hi. now apply with_item_list_prep_copy_guarded.
  - intros key v Hk Hv. now apply with_item_dict_prep_guarded.
  - intros key v Hk Hv. now apply with_item_dict_prep_copy_guarded.
  - intros v Hv Hok. now apply with_item_set_prep_guarded.
  - intros v Hv Hok. now apply with_item_set_prep_copy_guarded.
Qed.

(* update_<item>(target, new) through an item preparer (Inst/ElemRefine11.v): the new element is
   prepared, type-checked and put in the place of the addressed one; without a new value
   nothing is prepared (the element stays).  Lists, dicts and sets of proper scalars, in place
   and copy-on-write; side conditions as for the versions without preparer. *)
Theorem C06_update_item_preparer_refine_guarded_partial : forall ct h0 s l a,
  prep_items ct s l a = true -> fail_at s = None ->
  (elem_guard ct s l a KList = true -> proper_elems s l a = true ->
     forall voi v bi, nonref voi = true -> is_missing voi = false -> nonref v = true ->
       vscalar v || by_value_ok ct s l a voi bi = true ->
       refines_spec ct h0 s l (HUpdateItem a) (mkh [voi; v] true true VMissing false bi None [] None)
                    (SUpdateItem a) (mkah [abs0 voi; abs0 v] true true AMissing false bi None [] None)) /\
  (copy_guard ct s l a KList = true -> proper_elems s l a = true ->
     forall voi v bi, nonref voi = true -> is_missing voi = false -> nonref v = true ->
       vscalar v || by_value_ok ct s l a voi bi = true ->
       copy_refines_spec ct h0 s l (HUpdateItem a) (mkh [voi; v] false true VMissing false bi None [] None)
                         (SUpdateItem a) (mkah [abs0 voi; abs0 v] false true AMissing false bi None [] None)) /\
  (elem_guard ct s l a KDict = true -> dict_vals_proper s l a = true ->
     forall key v, nonref key = true -> is_missing key = false -> nonref v = true ->
       refines_spec ct h0 s l (HUpdateItem a) (mkh [key; v] true true VMissing false None None [] None)
                    (SUpdateItem a) (mkah [abs0 key; abs0 v] true true AMissing false None None [] None)) /\
  (copy_guard ct s l a KDict = true -> dict_vals_proper s l a = true ->
     forall key v, nonref key = true -> is_missing key = false -> nonref v = true ->
       copy_refines_spec ct h0 s l (HUpdateItem a) (mkh [key; v] false true VMissing false None None [] None)
                         (SUpdateItem a) (mkah [abs0 key; abs0 v] false true AMissing false None None [] None)) /\
  (elem_guard ct s l a KSet = true ->
     forall voi v, vscalar voi = true -> nonref v = true -> set_update_ok ct s l a voi v = true ->
       refines_spec ct h0 s l (HUpdateItem a) (mkh [voi; v] true true VMissing false None None [] None)
                    (SUpdateItem a) (mkah [abs0 voi; abs0 v] true true AMissing false None None [] None)) /\
  (copy_guard ct s l a KSet = true ->
     forall voi v, vscalar voi = true -> nonref v = true -> set_update_ok ct s l a voi v = true ->
       copy_refines_spec ct h0 s l (HUpdateItem a) (mkh [voi; v] false true VMissing false None None [] None)
                         (SUpdateItem a) (mkah [abs0 voi; abs0 v] false true AMissing false None None [] None)).
Proof.
  intros ct h0 s l a P Hfa. repeat split.
  - intros G Pe voi v bi Hv Hm Hnv Hbv. now apply update_item_list_prep_guarded.
  - intros G Pe voi v bi Hv Hm Hnv Hbv. now apply update_item_list_prep_copy_guarded.
  - intros G Vp key v Hk Hm Hnv. now apply update_item_dict_prep_guarded.
  - intros G Vp key v Hk Hm Hnv. now apply update_item_dict_prep_copy_guarded.
  - intros G voi v Hv Hnv Hok. now apply update_item_set_prep_guarded.
  - intros G voi v Hv Hnv Hok. now apply update_item_set_prep_copy_guarded.
Qed.

(* non-vacuity: the example class with `_prepare_x = lambda x: x + 10` on xs and t *)
Example C06_preparer_examples :
  elem_guard ex_ct_prep ex_state 0 1 KList = true /\ prep_items ex_ct_prep ex_state 0 1 = true /\
  prep_items ex_ct_prep ex_state 0 3 = true /\ plain_items ex_ct_prep ex_state 0 1 = false /\
  set_prep_ok ex_ct_prep ex_state 0 3 (VInt 1) = true /\
  nth 1 (heap (snd (run_helper ex_ct_prep 0 (HWithItem 1) (mkh [VInt 1] true true (VInt (-1)) false None None [] None) ex_state))) (OList [])
    = OList [VInt 1; VInt 0; VInt 1; VInt 11] /\
  nth 3 (heap (snd (run_helper ex_ct_prep 0 (HWithItem 3) (mkh [VInt 1] true true VMissing false None None [] None) ex_state))) (OList [])
    = OSet [VInt 2; VInt 0; VInt 11] /\
  nth 3 (heap (snd (run_helper ex_ct_prep 0 (HWithItem 3) (mkh [VInt (-10)] true true VMissing false None None [] None) ex_state))) (OList [])
    = OSet [VInt 2; VInt 0] /\
  set_update_ok ex_ct_prep ex_state 0 3 (VInt 0) (VInt (-5)) = true /\
  nth 1 (heap (snd (run_helper ex_ct_prep 0 (HUpdateItem 1) (mkh [VInt 0; VInt 3] true true VMissing false None None [] None) ex_state))) (OList [])
    = OList [VInt 1; VInt 13; VInt 1; VInt 0] /\
  nth 3 (heap (snd (run_helper ex_ct_prep 0 (HUpdateItem 3) (mkh [VInt 0; VInt (-5)] true true VMissing false None None [] None) ex_state))) (OList [])
    = OSet [VInt 2; VInt 5] /\
  fst (run_helper ex_ct_prep 0 (HWithItem 1) (mkh [VStr 1] true true VMissing false None None [] None) ex_state) = Err TypeErr /\
  fst (run_helper ex_ct_prep 0 (HWithItem 1) (mkh [VStr 1] true true (VInt 9) false None None [] None) ex_state) = Err IndexErr.
Proof. vm_compute. repeat split. Qed.

(* NESTED RECEIVERS, in place (Inst/ElemRefine13.v).  nested_guard drops the flatness condition:
   the OTHER attributes of the receiver may hold anything -- spec instances, containers of
   containers, shared structure -- provided none of them reaches the cell of the edited container
   (reaches: computable reachability to the depth the abstraction looks; abs_unreach: what does
   not reach a rewritten cell keeps its abstraction).  All twelve in-place statements (with_ /
   without_ / update_ / transform_<item> on List, Dict, Set) hold under it: every other
   attribute, however deep, is abstractly unchanged. *)
Theorem C06_elem_helpers_nested_refine_guarded_partial : forall ct h0 s l a,
  (nested_guard ct s l a KList = true ->
     (forall idx v ins, plain_items ct s l a = true -> vscalar v = true ->
        (idx = VMissing \/ exists i, idx = VInt i) ->
        refines_spec ct h0 s l (HWithItem a) (mkh [v] true true idx ins None None [] None)
                     (SWithItem a) (mkah [abs0 v] true true (abs0 idx) ins None None [] None)) /\
     (forall voi bi, nonref voi = true ->
        refines_spec ct h0 s l (HWithoutItem a) (mkh [voi] true true VMissing false bi None [] None)
                     (SWithoutItem a) (mkah [abs0 voi] true true AMissing false bi None [] None)) /\
     (forall voi fo bi, proper_elems s l a = true -> fail_at s = None ->
        nonref voi = true -> is_missing voi = false -> fo_ok fo -> by_value_ok ct s l a voi bi = true ->
        refines_spec ct h0 s l (HTransformItem a) (mkh [voi] true true VMissing false bi None [] fo)
                     (STransformItem a) (mkah [abs0 voi] true true AMissing false bi None [] fo)) /\
     (forall voi v bi, proper_elems s l a = true -> plain_items ct s l a = true ->
        nonref voi = true -> is_missing voi = false -> nonref v = true ->
        vscalar v || by_value_ok ct s l a voi bi = true ->
        refines_spec ct h0 s l (HUpdateItem a) (mkh [voi; v] true true VMissing false bi None [] None)
                     (SUpdateItem a) (mkah [abs0 voi; abs0 v] true true AMissing false bi None [] None))) /\
  (nested_guard ct s l a KDict = true ->
     (forall key v, plain_items ct s l a = true -> nonref key = true -> vscalar v = true ->
        refines_spec ct h0 s l (HWithItem a) (mkh [key; v] true true VMissing false None None [] None)
                     (SWithItem a) (mkah [abs0 key; abs0 v] true true AMissing false None None [] None)) /\
     (forall key, nonref key = true ->
        refines_spec ct h0 s l (HWithoutItem a) (mkh [key] true true VMissing false None None [] None)
                     (SWithoutItem a) (mkah [abs0 key] true true AMissing false None None [] None)) /\
     (forall key fo bi, dict_vals_proper s l a = true -> fail_at s = None ->
        nonref key = true -> is_missing key = false -> fo_ok fo ->
        refines_spec ct h0 s l (HTransformItem a) (mkh [key] true true VMissing false bi None [] fo)
                     (STransformItem a) (mkah [abs0 key] true true AMissing false bi None [] fo)) /\
     (forall key v, dict_vals_proper s l a = true -> plain_items ct s l a = true ->
        nonref key = true -> is_missing key = false -> nonref v = true ->
        refines_spec ct h0 s l (HUpdateItem a) (mkh [key; v] true true VMissing false None None [] None)
                     (SUpdateItem a) (mkah [abs0 key; abs0 v] true true AMissing false None None [] None))) /\
  (nested_guard ct s l a KSet = true ->
     (forall v, plain_items ct s l a = true -> vscalar v = true -> set_key_free ct (list_of s l a) v = true ->
        refines_spec ct h0 s l (HWithItem a) (mkh [v] true true VMissing false None None [] None)
                     (SWithItem a) (mkah [abs0 v] true true AMissing false None None [] None)) /\
     (forall voi, nonref voi = true ->
        refines_spec ct h0 s l (HWithoutItem a) (mkh [voi] true true VMissing false None None [] None)
                     (SWithoutItem a) (mkah [abs0 voi] true true AMissing false None None [] None)) /\
     (forall voi fo bi, fail_at s = None -> vscalar voi = true -> fo_ok fo ->
        set_change_ok ct s l a voi (trp fo voi) = true ->
        refines_spec ct h0 s l (HTransformItem a) (mkh [voi] true true VMissing false bi None [] fo)
                     (STransformItem a) (mkah [abs0 voi] true true AMissing false bi None [] fo)) /\
     (forall voi v, plain_items ct s l a = true -> vscalar voi = true -> nonref v = true ->
        set_change_ok ct s l a voi (up_pr v voi) = true ->
        refines_spec ct h0 s l (HUpdateItem a) (mkh [voi; v] true true VMissing false None None [] None)
                     (SUpdateItem a) (mkah [abs0 voi; abs0 v] true true AMissing false None None [] None))).
Proof.
  intros ct h0 s l a. split; [|split]; intro G; (split; [|split; [|split]]).
  - intros idx v ins P Hv Hi. now apply with_item_list_nested_guarded.
  - intros voi bi Hv. now apply without_item_list_nested_guarded.
  - intros voi fo bi Pe Hfa Hv Hm Hfo Hbv. now apply transform_item_list_nested_guarded.
  - intros voi v bi Pe P Hv Hm Hnv Hbv. now apply update_item_list_nested_guarded.
  - intros key v P Hk Hv. now apply with_item_dict_nested_guarded.
  - intros key Hk. now apply without_item_dict_nested_guarded.
  - intros key fo bi Vp Hfa Hk Hm Hfo. now apply transform_item_dict_nested_guarded.
  - intros key v Vp P Hk Hm Hnv. now apply update_item_dict_nested_guarded.
  - intros v P Hv Hkf. now apply with_item_set_nested_guarded.
  - intros voi Hv. now apply without_item_set_nested_guarded.
  - intros voi fo bi Hfa Hv Hfo Hok. now apply transform_item_set_nested_guarded.
  - intros voi v P Hv Hnv Hok. now apply update_item_set_nested_guarded.
Qed.

(* ... and with_<item> through an item preparer on a nested receiver (Inst/ElemRefine14.v) *)
Theorem C06_with_item_preparer_nested_refine_guarded_partial : forall ct h0 s l a,
  prep_items ct s l a = true -> fail_at s = None ->
  (nested_guard ct s l a KList = true ->
     forall idx v ins, vscalar v = true -> (idx = VMissing \/ exists i, idx = VInt i) ->
       refines_spec ct h0 s l (HWithItem a) (mkh [v] true true idx ins None None [] None)
                    (SWithItem a) (mkah [abs0 v] true true (abs0 idx) ins None None [] None)) /\
  (nested_guard ct s l a KDict = true ->
     forall key v, nonref key = true -> vscalar v = true ->
       refines_spec ct h0 s l (HWithItem a) (mkh [key; v] true true VMissing false None None [] None)
                    (SWithItem a) (mkah [abs0 key; abs0 v] true true AMissing false None None [] None)) /\
  (nested_guard ct s l a KSet = true ->
     forall v, vscalar v = true -> set_prep_ok ct s l a v = true ->
       refines_spec ct h0 s l (HWithItem a) (mkh [v] true true VMissing false None None [] None)
                    (SWithItem a) (mkah [abs0 v] true true AMissing false None None [] None)).
Proof.
  intros ct h0 s l a P Hfa. repeat split; intro G.
  - intros idx v ins Hv Hi. now apply with_item_list_prep_nested_guarded.
  - intros key v Hk Hv. now apply with_item_dict_prep_nested_guarded.
  - intros v Hv Hok. now apply with_item_set_prep_nested_guarded.
Qed.

(* non-vacuity: a receiver whose attribute `sub` holds another instance, itself holding a list
   and a list of lists that share cells: the receiver is within nested_guard (not within
   elem_guard); the inner instance is not (its second attribute reaches the cell of its list);
   the edit changes the list only, the abstraction of `sub` is untouched *)
Example C06_nested_guard_examples :
  nested_guard ex_ct_nest ex_state_nest 0 1 KList = true /\ elem_guard ex_ct_nest ex_state_nest 0 1 KList = false /\
  nested_guard ex_ct_nest ex_state_nest 2 1 KList = false /\ plain_items ex_ct_nest ex_state_nest 0 1 = true /\
  absv (heap ex_state_nest) (VRef 0) =
    AInst 0 [(1, AList [AInt 1; AInt 0]);
             (5, AInst 0 [(1, AList [AInt 9]); (5, AList [AList [AInt 7]; AList [AInt 7]; AList [AInt 9]])])] /\
  (match run_helper ex_ct_nest 0 (HWithItem 1) (mkh [VInt 5] true true (VInt 0) true None None [] None) ex_state_nest with
   | (Ok (VRef r), s') => r = 0 /\
       absv (heap s') (VRef 0) =
       AInst 0 [(1, AList [AInt 5; AInt 1; AInt 0]);
                (5, AInst 0 [(1, AList [AInt 9]); (5, AList [AList [AInt 7]; AList [AInt 7]; AList [AInt 9]])])]
   | _ => False end).
Proof. vm_compute. repeat split. Qed.

(* HISTORIES (Inst/ElemRefine15.v).  "Every container content reachable by prior element
   operations": the refinement theorems hold for EVERY content, and the side condition is an
   invariant of the calls they cover -- a successful in-place call rewrites the cell of the
   container with a container of scalars of the same family and touches no other cell
   (cell_rewritten), so elem_guard holds again in the state after the call (guard_kept; on an error
   the heap is untouched, so it holds trivially).  By induction the single-call theorems apply
   along every history of such calls on the receiver. *)
Theorem C06_inplace_calls_keep_guard_partial : forall ct s l a,
  (elem_guard ct s l a KList = true ->
     (forall idx v ins, plain_items ct s l a = true -> vscalar v = true ->
        (idx = VMissing \/ exists i, idx = VInt i) ->
        guard_kept ct s l a KList (HWithItem a) (mkh [v] true true idx ins None None [] None)) /\
     (forall voi bi, nonref voi = true ->
        guard_kept ct s l a KList (HWithoutItem a) (mkh [voi] true true VMissing false bi None [] None)) /\
     (forall voi fo bi, proper_elems s l a = true -> fail_at s = None ->
        nonref voi = true -> is_missing voi = false -> fo_ok fo -> by_value_ok ct s l a voi bi = true ->
        guard_kept ct s l a KList (HTransformItem a) (mkh [voi] true true VMissing false bi None [] fo)) /\
     (forall voi v bi, proper_elems s l a = true -> plain_items ct s l a = true ->
        nonref voi = true -> is_missing voi = false -> nonref v = true ->
        vscalar v || by_value_ok ct s l a voi bi = true ->
        guard_kept ct s l a KList (HUpdateItem a) (mkh [voi; v] true true VMissing false bi None [] None))) /\
  (elem_guard ct s l a KDict = true ->
     (forall key v, plain_items ct s l a = true -> nonref key = true -> vscalar v = true ->
        guard_kept ct s l a KDict (HWithItem a) (mkh [key; v] true true VMissing false None None [] None)) /\
     (forall key, nonref key = true ->
        guard_kept ct s l a KDict (HWithoutItem a) (mkh [key] true true VMissing false None None [] None)) /\
     (forall key fo bi, dict_vals_proper s l a = true -> fail_at s = None -> nonref key = true -> fo_ok fo ->
        guard_kept ct s l a KDict (HTransformItem a) (mkh [key] true true VMissing false bi None [] fo)) /\
     (forall key v, dict_vals_proper s l a = true -> plain_items ct s l a = true ->
        nonref key = true -> nonref v = true ->
        guard_kept ct s l a KDict (HUpdateItem a) (mkh [key; v] true true VMissing false None None [] None))) /\
  (elem_guard ct s l a KSet = true ->
     (forall v, plain_items ct s l a = true -> vscalar v = true ->
        guard_kept ct s l a KSet (HWithItem a) (mkh [v] true true VMissing false None None [] None)) /\
     (forall voi, nonref voi = true ->
        guard_kept ct s l a KSet (HWithoutItem a) (mkh [voi] true true VMissing false None None [] None)) /\
     (forall voi fo bi, fail_at s = None -> vscalar voi = true -> fo_ok fo ->
        guard_kept ct s l a KSet (HTransformItem a) (mkh [voi] true true VMissing false bi None [] fo)) /\
     (forall voi v, plain_items ct s l a = true -> vscalar voi = true -> nonref v = true ->
        guard_kept ct s l a KSet (HUpdateItem a) (mkh [voi; v] true true VMissing false None None [] None))).
Proof.
  intros ct s l a. split; [|split]; intro G; (split; [|split; [|split]]).
  - intros idx v ins P Hv Hi. now apply with_item_list_keeps_guard.
  - intros voi bi Hv. now apply without_item_list_keeps_guard.
  - intros voi fo bi Pe Hfa Hv Hm Hfo Hbv. now apply transform_item_list_keeps_guard.
  - intros voi v bi Pe P Hv Hm Hnv Hbv. now apply update_item_list_keeps_guard.
  - intros key v P Hk Hv. now apply with_item_dict_keeps_guard.
  - intros key Hk. now apply without_item_dict_keeps_guard.
  - intros key fo bi Vp Hfa Hk Hfo. now apply transform_item_dict_keeps_guard.
  - intros key v Vp P Hk Hnv. now apply update_item_dict_keeps_guard.
  - intros v P Hv. now apply with_item_set_keeps_guard.
  - intros voi Hv. now apply without_item_set_keeps_guard.
  - intros voi fo bi Hfa Hv Hfo. now apply transform_item_set_keeps_guard.
  - intros voi v P Hv Hnv. now apply update_item_set_keeps_guard.
Qed.

(* a history of three calls on the example receiver: each state is within the guard again *)
Example C06_history_example :
  let s1 := snd (run_helper ex_ct 0 (HWithoutItem 1) (mkh [VInt 0] true true VMissing false None None [] None) ex_state) in
  let s2 := snd (run_helper ex_ct 0 (HWithItem 2) (mkh [VStr 8; VInt 3] true true VMissing false None None [] None) s1) in
  let s3 := snd (run_helper ex_ct 0 (HTransformItem 1) (mkh [VInt (-1)] true true VMissing false (Some true) None [] (Some (FAddInt 1))) s2) in
  elem_guard ex_ct s1 0 1 KList = true /\ elem_guard ex_ct s2 0 2 KDict = true /\ elem_guard ex_ct s3 0 1 KList = true /\
  elem_guard ex_ct s3 0 3 KSet = true /\
  absv (heap s3) (VRef 0) =
    AInst 0 [(1, AList [AInt 1; AInt 1; AInt 1]); (2, ADict [(AStr 0, AInt 0); (AStr 7, AInt 1); (AStr 8, AInt 3)]);
             (3, ASet [AInt 0; AInt 2])].
Proof. vm_compute. repeat split. Qed.

(* HISTORIES OF COPY-ON-WRITE CALLS (Inst/ElemRefine16.v): `a.with_x(5).without_x(0).with_m('k', 3)`.
   The instance a successful copy-on-write call returns is again a flat instance of the same
   class, not being initialised, whose attribute holds a container of scalars of the same family
   (copy_shape), so copy_guard holds for the RESULT in the state after the call
   (copy_guard_kept): the copy-on-write theorems chain along every history of such calls. *)
Theorem C06_copy_calls_keep_guard_partial : forall ct s l a,
  (copy_guard ct s l a KList = true ->
     (forall idx v ins, plain_items ct s l a = true -> vscalar v = true ->
        (idx = VMissing \/ exists i, idx = VInt i) ->
        copy_guard_kept ct s l a KList (HWithItem a) (mkh [v] false true idx ins None None [] None)) /\
     (forall voi bi, nonref voi = true ->
        copy_guard_kept ct s l a KList (HWithoutItem a) (mkh [voi] false true VMissing false bi None [] None)) /\
     (forall voi fo bi, proper_elems s l a = true -> fail_at s = None ->
        nonref voi = true -> is_missing voi = false -> fo_ok fo -> by_value_ok ct s l a voi bi = true ->
        copy_guard_kept ct s l a KList (HTransformItem a) (mkh [voi] false true VMissing false bi None [] fo)) /\
     (forall voi v bi, proper_elems s l a = true -> plain_items ct s l a = true ->
        nonref voi = true -> is_missing voi = false -> nonref v = true ->
        vscalar v || by_value_ok ct s l a voi bi = true ->
        copy_guard_kept ct s l a KList (HUpdateItem a) (mkh [voi; v] false true VMissing false bi None [] None))) /\
  (copy_guard ct s l a KDict = true ->
     (forall key v, plain_items ct s l a = true -> nonref key = true -> vscalar v = true ->
        copy_guard_kept ct s l a KDict (HWithItem a) (mkh [key; v] false true VMissing false None None [] None)) /\
     (forall key, nonref key = true ->
        copy_guard_kept ct s l a KDict (HWithoutItem a) (mkh [key] false true VMissing false None None [] None)) /\
     (forall key fo bi, dict_vals_proper s l a = true -> fail_at s = None -> nonref key = true -> fo_ok fo ->
        copy_guard_kept ct s l a KDict (HTransformItem a) (mkh [key] false true VMissing false bi None [] fo)) /\
     (forall key v, dict_vals_proper s l a = true -> plain_items ct s l a = true ->
        nonref key = true -> nonref v = true ->
        copy_guard_kept ct s l a KDict (HUpdateItem a) (mkh [key; v] false true VMissing false None None [] None))) /\
  (copy_guard ct s l a KSet = true ->
     (forall v, plain_items ct s l a = true -> vscalar v = true ->
        copy_guard_kept ct s l a KSet (HWithItem a) (mkh [v] false true VMissing false None None [] None)) /\
     (forall voi, nonref voi = true ->
        copy_guard_kept ct s l a KSet (HWithoutItem a) (mkh [voi] false true VMissing false None None [] None)) /\
     (forall voi fo bi, fail_at s = None -> vscalar voi = true -> fo_ok fo ->
        copy_guard_kept ct s l a KSet (HTransformItem a) (mkh [voi] false true VMissing false bi None [] fo)) /\
     (forall voi v, plain_items ct s l a = true -> vscalar voi = true -> nonref v = true ->
        copy_guard_kept ct s l a KSet (HUpdateItem a) (mkh [voi; v] false true VMissing false None None [] None))).
Proof.
  intros ct s l a. split; [|split]; intro G; (split; [|split; [|split]]).
  - intros idx v ins P Hv Hi. now apply with_item_list_copy_keeps_guard.
  - intros voi bi Hv. now apply without_item_list_copy_keeps_guard.
  - intros voi fo bi Pe Hfa Hv Hm Hfo Hbv. now apply transform_item_list_copy_keeps_guard.
  - intros voi v bi Pe P Hv Hm Hnv Hbv. now apply update_item_list_copy_keeps_guard.
  - intros key v P Hk Hv. now apply with_item_dict_copy_keeps_guard.
  - intros key Hk. now apply without_item_dict_copy_keeps_guard.
  - intros key fo bi Vp Hfa Hk Hfo. now apply transform_item_dict_copy_keeps_guard.
  - intros key v Vp P Hk Hnv. now apply update_item_dict_copy_keeps_guard.
  - intros v P Hv. now apply with_item_set_copy_keeps_guard.
  - intros voi Hv. now apply without_item_set_copy_keeps_guard.
  - intros voi fo bi Hfa Hv Hfo. now apply transform_item_set_copy_keeps_guard.
  - intros voi v P Hv Hnv. now apply update_item_set_copy_keeps_guard.
Qed.

(* a chain of three copy-on-write calls on the frozen example class,
   a.with_x(5).without_x(0).with_m('a8', 3): every intermediate result is within copy_guard, the
   final abstraction is the expected one and the original receiver's cells are as at the start *)
Example C06_copy_history_example :
  let r1 := run_helper ex_ct_frozen 0 (HWithItem 1) (mkh [VInt 5] false true VMissing false None None [] None) ex_state in
  let r2 := run_helper ex_ct_frozen 5 (HWithoutItem 1) (mkh [VInt 0] false true VMissing false None None [] None) (snd r1) in
  let r3 := run_helper ex_ct_frozen 10 (HWithItem 2) (mkh [VStr 8; VInt 3] false true VMissing false None None [] None) (snd r2) in
  fst r1 = Ok (VRef 5) /\ copy_guard ex_ct_frozen (snd r1) 5 1 KList = true /\
  fst r2 = Ok (VRef 10) /\ copy_guard ex_ct_frozen (snd r2) 10 2 KDict = true /\
  fst r3 = Ok (VRef 15) /\ copy_guard ex_ct_frozen (snd r3) 15 3 KSet = true /\
  absv (heap (snd r3)) (VRef 15) =
    AInst 0 [(1, AList [AInt 1; AInt 1; AInt 0; AInt 5]); (2, ADict [(AStr 0, AInt 0); (AStr 7, AInt 1); (AStr 8, AInt 3)]);
             (3, ASet [AInt 0; AInt 2])] /\
  firstn 4 (heap (snd r3)) = heap ex_state.
Proof. vm_compute. repeat split. Qed.

(* WHY by_value_ok IS NEEDED — a finding.  xs : List[int] holding [1, 0, 1, 0];
   transform_<item>(True, lambda x: x): True has the element type, so the target is addressed
   BY VALUE; True == 1 finds position 0.  "Replace by transformed value" (spec_change_item)
   transforms the addressed element: f(1) = 1, the list stays [1, 0, 1, 0].  The model -- like
   SequenceMutator._extractor, which returns (index, value_or_index) -- hands the ARGUMENT to
   the value procedure: the list becomes [True, 0, 1, 0].  Same for update_<item>(False) without
   a new value and for sets.  Reproduced on the implementation:
   A(xs=[1, 0, 2]).transform_x(True, lambda x: x).xs == [True, 0, 2]. *)
Example C06_by_value_transforms_argument_refuted :
  elem_guard ex_ct ex_state 0 1 KList = true /\ proper_elems ex_state 0 1 = true /\
  by_value_ok ex_ct ex_state 0 1 (VBool true) None = false /\
  ~ refines_spec ex_ct [] ex_state 0 (HTransformItem 1) (mkh [VBool true] true true VMissing false None None [] (Some FId))
                 (STransformItem 1) (mkah [ABool true] true true AMissing false None None [] (Some FId)).
Proof.
  split; [vm_compute; reflexivity|]. split; [vm_compute; reflexivity|]. split; [vm_compute; reflexivity|].
  unfold refines_spec. vm_compute. intros [_ H]. discriminate H.
Qed.

(* the same finding on a set: t = {2, 0}; transform_<item>(False, lambda x: x): False == 0 is found,
   the specification keeps {0, 2}; the model (and the implementation:
   A(ts={1, 2}).transform_t(True, lambda x: x).ts == {True, 2}) replaces 0 by False *)
Example C06_by_value_transforms_argument_set_refuted :
  elem_guard ex_ct ex_state 0 3 KSet = true /\
  set_change_ok ex_ct ex_state 0 3 (VBool false) (trp (Some FId) (VBool false)) = false /\
  ~ refines_spec ex_ct [] ex_state 0 (HTransformItem 3) (mkh [VBool false] true true VMissing false None None [] (Some FId))
                 (STransformItem 3) (mkah [ABool false] true true AMissing false None None [] (Some FId)).
Proof.
  split; [vm_compute; reflexivity|]. split; [vm_compute; reflexivity|].
  unfold refines_spec. vm_compute. intros [_ H]. discriminate H.
Qed.

(* non-vacuity: falsy elements, equal elements at several positions, negative index *)
Example C06_examples :
  let ct := @nil cls in
  spec_elem_op ct (EReplace (AInt 0) (AInt 5)) (ASet [AInt 0; AInt 1; AInt 2]) = SOk (ASet [AInt 1; AInt 2; AInt 5]) /\
  seq_find ct [AInt 1; AInt 0; AInt 1; AInt 0] (AInt 0) = SOk 1 /\
  seq_index [AStr 0; AStr 7; AStr 8] (AInt (-1)) = SOk 2 /\
  seq_index [AStr 0; AStr 7; AStr 8] (AInt (-4)) = SErr IndexErr /\
  spec_elem_op ct (EInsert (-1) (AInt 9)) (AList [AInt 0; AInt 0]) = SOk (AList [AInt 0; AInt 9; AInt 0]) /\
  spec_elem_op ct (EAssign (AStr 0) (AInt 0)) (ADict [(AStr 7, AInt 1); (AStr 0, AInt 2)])
    = SOk (ADict [(AStr 7, AInt 1); (AStr 0, AInt 0)]).
Proof. vm_compute. repeat split. Qed.

(* ---------------- `_insert` without `_index` (seed C06-F1) ---------------- *)

Definition ah_set_insert (h : ahargs) (b : bool) : ahargs :=
  mkah (ah_pos h) (ah_inplace h) (ah_if h) (ah_index h) b (ah_by_index h) (ah_kw h) (ah_kwfn h) (ah_fn h).

(* with_<item>(x, _insert=b) WITHOUT `_index`: the flag is immaterial (it only selects between
   "replace at index" and "insert before index"); on a list the prepared element is appended.
   Specification (first two conjuncts) and executable model (last two: nothing is extracted when
   no index is given, and the inserter appends on the index None whatever the flag says). *)
Theorem C06_insert_flag_without_index_appends :
  (forall ct h0 sp c h b, a_is_missing (ah_index h) = true ->
     spec_with_item ct h0 sp c (ah_set_insert h b) = spec_with_item ct h0 sp c h) /\
  (forall ct h0 sp t xs h, a_ty sp = TList t -> a_is_missing (ah_index h) = true ->
     spec_with_item ct h0 sp (AList xs) h =
     sbind (elem_pipeline ct h0 sp AMissing (apos0 h) true (ah_kw h) None [])
           (fun e => SOk (AList (xs ++ [e])))) /\
  (forall ct sp coll r bi, seq_extractor ct sp coll VMissing r bi = ret (VNone, VMissing)) /\
  (forall ct sp coll item b, seq_inserter ct sp coll VNone item b = seq_inserter ct sp coll VNone item false).
Proof.
  split; [|split; [|split]].
  - intros. unfold spec_with_item, apos0, apos1, ah_set_insert. cbn [ah_pos ah_index ah_insert ah_kw].
    rewrite H. reflexivity.
  - intros. unfold spec_with_item. rewrite H, H0. reflexivity.
  - intros. unfold seq_extractor. destruct (is_missing coll); reflexivity.
  - intros. unfold seq_inserter. reflexivity.
Qed.

Print Assumptions C06_append.
Print Assumptions C06_replace_at.
Print Assumptions C06_insert_before.
Print Assumptions C06_insert_position.
Print Assumptions C06_remove_at.
Print Assumptions C06_by_index.
Print Assumptions C06_by_value_first_of_equals.
Print Assumptions C06_by_index_defaulting.
Print Assumptions C06_assign_key.
Print Assumptions C06_delete_key.
Print Assumptions C06_set_add.
Print Assumptions C06_set_replace.
Print Assumptions C06_set_remove.
Print Assumptions C06_hashable_eq.
Print Assumptions C06_list_with_item_refines_partial.
Print Assumptions C06_list_without_item_refines_partial.
Print Assumptions C06_list_transform_item_refines_partial.
Print Assumptions C06_list_update_item_refines_partial.
Print Assumptions C06_dict_with_item_refines_partial.
Print Assumptions C06_dict_without_item_refines_partial.
Print Assumptions C06_set_with_item_refines_partial.
Print Assumptions C06_set_without_item_refines_partial.
Print Assumptions C06_elem_helpers_refine_guarded_partial.
Print Assumptions C06_guard_examples.
Print Assumptions C06_elem_helpers_copy_refine_guarded_partial.
Print Assumptions C06_list_change_item_copy_refine_guarded_partial.
Print Assumptions C06_copy_guard_examples.
Print Assumptions C06_elem_helpers_missing_container_refine_guarded_partial.
Print Assumptions C06_elem_helpers_missing_container_copy_refine_guarded_partial.
Print Assumptions C06_missing_guard_examples.
Print Assumptions C06_dict_set_change_item_refine_guarded_partial.
Print Assumptions C06_dict_set_change_examples.
Print Assumptions C06_with_item_preparer_refine_guarded_partial.
Print Assumptions C06_update_item_preparer_refine_guarded_partial.
Print Assumptions C06_preparer_examples.
Print Assumptions C06_elem_helpers_nested_refine_guarded_partial.
Print Assumptions C06_with_item_preparer_nested_refine_guarded_partial.
Print Assumptions C06_nested_guard_examples.
Print Assumptions C06_inplace_calls_keep_guard_partial.
Print Assumptions C06_history_example.
Print Assumptions C06_copy_calls_keep_guard_partial.
Print Assumptions C06_copy_history_example.
Print Assumptions C06_by_value_transforms_argument_refuted.
Print Assumptions C06_by_value_transforms_argument_set_refuted.
Print Assumptions C06_examples.
Print Assumptions C06_insert_flag_without_index_appends.
