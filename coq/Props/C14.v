(* C14 theorems: under construction *)
From SC Require Import KS.Proofs.
