(* C14 — KeyedSet is a set of items identified by key.
   Statements only; every proof is one `exact`.  The model is KS/Model.v (a
   transliteration of spec_classes/types/keyed.py:KeyedSet and of the inherited
   collections.abc Set/MutableSet mixins), the specification is KS/Spec.v (an
   insertion-ordered finite map key -> most recently added item).

   Items, keys, the key function, == on both and the typed-container check
   are arbitrary, subject to four hypotheses: == decides equality on keys and
   on items (items are values); an item that can itself be used as a
   dictionary key is its own key and the only item with that key (the class
   docstring warns against universes where this fails); the key function,
   where it is defined on a bare key, returns that key (otherwise it raises
   TypeError; DESIGN section 7).  Both concrete universes used by the
   correspondence check satisfy them (C14_hypotheses_hold_fst, C14_hypotheses_hold_self). *)
From Coq Require Import List ZArith Bool Lia Permutation.
From SC Require Import Base.Res Base.PyList KS.Model KS.Spec KS.Proofs Corr.KSCorr.
Import ListNotations.
Open Scope Z_scope.

Section C14.
  Context {item K : Type}.
  Variable key : item -> K.
  Variable keqb : K -> K -> bool.
  Variable ieqb : item -> item -> bool.
  Variable valid : item -> bool.
  Variable as_key : item -> option K.
  Variable as_item : K -> option item.
  Variable key_of_key : K -> option K.
  Variable hashable : item -> bool.
  Hypothesis keqb_eq : forall a b, keqb a b = true <-> a = b.
  Hypothesis ieqb_eq : forall a b, ieqb a b = true <-> a = b.
  Hypothesis as_key_self : forall x k, as_key x = Some k ->
    k = key x /\ forall y, key y = k -> y = x.
  Hypothesis key_of_key_id : forall k k', key_of_key k = Some k' -> k' = k.

  Notation dict := (@dict item K).
  Notation run := (run key keqb ieqb valid as_key as_item key_of_key hashable).
  Notation step := (step key keqb ieqb valid as_key as_item key_of_key hashable).
  Notation spec_run := (spec_run key keqb ieqb valid key_of_key hashable).
  Notation from_iterable := (from_iterable key keqb ieqb valid).
  Notation fresh := (fresh key keqb ieqb valid).
  Notation omap := (omap key keqb ieqb valid).
  Notation oitems := (@op_items item K key keqb).
  Notation the_map := (@build item K key keqb).
  Notation lookup := (@dict_get item K keqb).
  Notation has := (@dict_mem item K keqb).
  Notation put := (@dict_set item K keqb).
  Notation drop := (@dict_del item K keqb).
  Notation keys := (map (@fst K item)).
  Notation Inv := (Inv key).          (* keys unique; every stored item sits under its own key *)
  Notation TInv := (TInv valid).      (* every stored item passes the container's type check *)
  Notation out_ok := (out_ok key valid).   (* a returned KeyedSet satisfies both *)
  Notation loose := (loose key keqb).
  (* loose e m xs: flag e is off, or the items xs agree with the map m on
     shared keys - the condition under which membership of an item is
     membership of its key *)

  (* ---- the assoc list really is a finite map with insertion order ---- *)
  Theorem C14_map_laws : forall k k' x (d : dict),
    lookup k' (put k x d) = (if keqb k' k then Some x else lookup k' d) /\
    lookup k' (drop k d) = (if keqb k' k then None else lookup k' d) /\
    keys (put k x d) = (if has k d then keys d else keys d ++ [k]) /\
    keys (drop k d) = filter (fun j => negb (keqb k j)) (keys d) /\
    has k d = (match lookup k d with Some _ => true | None => false end).
  Proof. exact (map_laws keqb keqb_eq). Qed.

  (* ---- refinement: every sequence of operations, from every coherent
     state, produces exactly the outputs and the content of the map
     specification (insertion order included); the state stays coherent and
     well typed, and so is every KeyedSet returned by an operator ---- *)
  Theorem C14_refines_map : forall enf ops d,
    Inv d -> TInv d -> Forall (@wf_op item K) ops ->
    run enf d ops = spec_run enf d ops /\
    Inv (snd (run enf d ops)) /\ TInv (snd (run enf d ops)) /\
    Forall out_ok (fst (run enf d ops)).
  Proof. exact (run_refines key keqb ieqb valid as_key as_item key_of_key hashable keqb_eq ieqb_eq as_key_self key_of_key_id). Qed.

  (* the constructor (and _from_iterable) builds exactly the specified new
     container, which is coherent and well typed *)
  Theorem C14_constructor : forall enf xs,
    from_iterable enf xs = fresh enf xs /\
    forall d, from_iterable enf xs = Ok d -> Inv d /\ TInv d.
  Proof.
    intros enf xs. split.
    - exact (from_iterable_fresh key keqb ieqb valid keqb_eq ieqb_eq enf xs).
    - exact (constructed_ok key keqb ieqb valid keqb_eq ieqb_eq enf xs).
  Qed.

  (* ---- invariant of every reachable state: keys unique, each stored item's
     key is its dict key, and (typed) every stored item is well typed ---- *)
  Theorem C14_reachable_invariant : forall enf xs d ops,
    from_iterable enf xs = Ok d -> Forall (@wf_op item K) ops ->
    let d' := snd (run enf d ops) in
    NoDup (keys d') /\ Forall (fun p => fst p = key (snd p)) d' /\
    forallb valid (vals d') = true.
  Proof. exact (reachable_inv key keqb ieqb valid as_key as_item key_of_key hashable keqb_eq ieqb_eq as_key_self key_of_key_id). Qed.

  (* ---- an operation that raises leaves the dict exactly as it was ---- *)
  Theorem C14_failed_operation_changes_nothing : forall enf d o e,
    Inv d -> TInv d -> wf_op o -> fst (step enf d o) = Err e -> snd (step enf d o) = d.
  Proof. exact (step_atomic key keqb ieqb valid as_key as_item key_of_key hashable keqb_eq ieqb_eq as_key_self key_of_key_id). Qed.

  (* ---- enforce_item_equivalence=True: adding an unequal item under an
     existing key raises ValueError (TypeError when it is ill typed too) and
     changes nothing; in every other case a well-typed item is stored ---- *)
  Theorem C14_enforce_add_unequal : forall d x y,
    Inv d -> lookup (key x) d = Some y -> y <> x ->
    step true d (OAdd x) = (Err (if valid x then ValueErr else TypeErr), d).
  Proof. exact (enforce_add_unequal key keqb ieqb valid as_key as_item key_of_key hashable ieqb_eq). Qed.

  Theorem C14_add_succeeds : forall enf d x, valid x = true ->
    (enf = false \/ forall y, lookup (key x) d = Some y -> y = x) ->
    step enf d (OAdd x) = (Ok RNone, put (key x) x d).
  Proof. exact (add_succeeds key keqb ieqb valid as_key as_item key_of_key hashable ieqb_eq). Qed.

  (* ---- typed: an ill-typed item or key is rejected and nothing changes
     (that no operation at all lets one in is C14_refines_map /
     C14_reachable_invariant: TInv and out_ok) ---- *)
  Theorem C14_typed_add_rejects : forall enf d x, valid x = false ->
    step enf d (OAdd x) = (Err TypeErr, d).
  Proof. exact (typed_add_rejects key keqb ieqb valid as_key as_item key_of_key hashable). Qed.

  (* ---- set algebra on keys.  (eb, b) is the other operand read as a map:
     a KeyedSet operand as it is, a built-in set or list as the KeyedSet of
     its items configured like the receiver. ---- *)
  Theorem C14_difference : forall enf d p eb b,
    Inv d -> TInv d -> omap enf d p = Ok (eb, b) -> loose eb b (vals d) ->
    exists r, step enf d (OSub p) = (Ok (RNew r), d) /\
              keys r = filter (fun k => negb (has k b)) (keys d).
  Proof. exact (T_sub key keqb ieqb valid as_key as_item key_of_key hashable keqb_eq ieqb_eq as_key_self key_of_key_id). Qed.

  Theorem C14_intersection : forall enf d p r d',
    Inv d -> TInv d -> loose enf d (oitems d p) ->
    (step enf d (OAnd p) = (Ok (RNew r), d') \/ step enf d (ORAnd p) = (Ok (RNew r), d')) ->
    forall k, In k (keys r) <-> In k (keys d) /\ In k (map key (oitems d p)).
  Proof. exact (T_and key keqb ieqb valid as_key as_item key_of_key hashable keqb_eq ieqb_eq as_key_self key_of_key_id). Qed.

  Theorem C14_union : forall enf d p r d', Inv d -> TInv d ->
    (step enf d (OOr p) = (Ok (RNew r), d') \/ step enf d (OROr p) = (Ok (RNew r), d')) ->
    forall k, In k (keys r) <-> In k (keys d) \/ In k (map key (oitems d p)).
  Proof. exact (T_or key keqb ieqb valid as_key as_item key_of_key hashable keqb_eq ieqb_eq as_key_self key_of_key_id). Qed.

  Theorem C14_reflected_difference : forall enf d p eb b r d',
    Inv d -> TInv d -> omap enf d p = Ok (eb, b) -> loose enf d (oitems d p) ->
    step enf d (ORSub p) = (Ok (RNew r), d') ->
    forall k, In k (keys r) <-> In k (keys b) /\ ~ In k (keys d).
  Proof. exact (T_rsub key keqb ieqb valid as_key as_item key_of_key hashable keqb_eq ieqb_eq as_key_self key_of_key_id). Qed.

  Theorem C14_symmetric_difference : forall enf d p eb b r d',
    Inv d -> TInv d -> omap enf d p = Ok (eb, b) ->
    loose eb b (vals d) -> loose enf d (oitems d p) ->
    (step enf d (OXor p) = (Ok (RNew r), d') \/ step enf d (ORXor p) = (Ok (RNew r), d')) ->
    forall k, In k (keys r) <->
              (In k (keys d) /\ ~ In k (keys b)) \/ (In k (keys b) /\ ~ In k (keys d)).
  Proof. exact (T_xor key keqb ieqb valid as_key as_item key_of_key hashable keqb_eq ieqb_eq as_key_self key_of_key_id). Qed.

  Theorem C14_le : forall enf d p eb b,
    Inv d -> TInv d -> comparable p -> omap enf d p = Ok (eb, b) -> loose eb b (vals d) ->
    exists t, step enf d (OLe p) = (Ok (RBool t), d) /\ (t = true <-> incl (keys d) (keys b)).
  Proof. exact (T_le key keqb ieqb valid as_key as_item key_of_key hashable keqb_eq ieqb_eq as_key_self key_of_key_id). Qed.

  Theorem C14_lt : forall enf d p eb b,
    Inv d -> TInv d -> comparable p -> omap enf d p = Ok (eb, b) -> loose eb b (vals d) ->
    exists t, step enf d (OLt p) = (Ok (RBool t), d) /\
              (t = true <-> incl (keys d) (keys b) /\ (length d < length b)%nat).
  Proof. exact (T_lt key keqb ieqb valid as_key as_item key_of_key hashable keqb_eq ieqb_eq as_key_self key_of_key_id). Qed.

  Theorem C14_ge : forall enf d p eb b,
    Inv d -> TInv d -> comparable p -> omap enf d p = Ok (eb, b) -> loose enf d (vals b) ->
    exists t, step enf d (OGe p) = (Ok (RBool t), d) /\ (t = true <-> incl (keys b) (keys d)).
  Proof. exact (T_ge key keqb ieqb valid as_key as_item key_of_key hashable keqb_eq ieqb_eq as_key_self key_of_key_id). Qed.

  Theorem C14_gt : forall enf d p eb b,
    Inv d -> TInv d -> comparable p -> omap enf d p = Ok (eb, b) -> loose enf d (vals b) ->
    exists t, step enf d (OGt p) = (Ok (RBool t), d) /\
              (t = true <-> incl (keys b) (keys d) /\ (length b < length d)%nat).
  Proof. exact (T_gt key keqb ieqb valid as_key as_item key_of_key hashable keqb_eq ieqb_eq as_key_self key_of_key_id). Qed.

  Theorem C14_isdisjoint : forall enf d p, Inv d -> TInv d -> loose enf d (oitems d p) ->
    exists t, step enf d (OIsDisjoint p) = (Ok (RBool t), d) /\
              (t = true <-> forall k, In k (map key (oitems d p)) -> ~ In k (keys d)).
  Proof. exact (T_isdisjoint key keqb ieqb valid as_key as_item key_of_key hashable keqb_eq ieqb_eq as_key_self key_of_key_id). Qed.

  (* == between two KeyedSets is equality of mappings: same keys, equal items
     (interpretation recorded in docs/C14.md); != is its negation *)
  Theorem C14_eq_is_mapping_equality : forall enf d eb xs, Inv d -> TInv d ->
    exists t, step enf d (OEq (PKS eb xs)) = (Ok (RBool t), d) /\
              step enf d (ONe (PKS eb xs)) = (Ok (RBool (negb t)), d) /\
              (t = true <-> forall k, lookup k d = lookup k (the_map xs)).
  Proof. exact (T_eq key keqb ieqb valid as_key as_item key_of_key hashable keqb_eq ieqb_eq). Qed.

  Theorem C14_inplace_union : forall enf d p r o, Inv d -> TInv d ->
    step enf d (OIOr p) = (Ok o, r) ->
    o = RSelf /\ forall k, In k (keys r) <-> In k (keys d) \/ In k (map key (oitems d p)).
  Proof. exact (T_ior key keqb ieqb valid as_key as_item key_of_key hashable keqb_eq ieqb_eq as_key_self key_of_key_id). Qed.

  Theorem C14_inplace_intersection : forall enf d p eb b,
    Inv d -> TInv d -> omap enf d p = Ok (eb, b) -> loose eb b (vals d) ->
    exists r, step enf d (OIAnd p) = (Ok RSelf, r) /\ keys r = filter (fun k => has k b) (keys d).
  Proof. exact (T_iand key keqb ieqb valid as_key as_item key_of_key hashable keqb_eq ieqb_eq as_key_self key_of_key_id). Qed.

  Theorem C14_inplace_difference : forall enf d p, Inv d -> TInv d -> loose enf d (oitems d p) ->
    exists r, step enf d (OISub p) = (Ok RSelf, r) /\
              keys r = filter (fun k => negb (existsb (fun x => keqb (key x) k) (oitems d p))) (keys d).
  Proof. exact (T_isub key keqb ieqb valid as_key as_item key_of_key hashable keqb_eq ieqb_eq as_key_self key_of_key_id). Qed.

  Theorem C14_inplace_symmetric_difference : forall enf d p eb b r o,
    Inv d -> TInv d -> omap enf d p = Ok (eb, b) ->
    loose eb b (vals d) -> loose enf d (oitems d p) -> p <> PSelf ->
    step enf d (OIXor p) = (Ok o, r) ->
    o = RSelf /\
    forall k, In k (keys r) <->
              (In k (keys d) /\ ~ In k (keys b)) \/ (In k (keys b) /\ ~ In k (keys d)).
  Proof. exact (T_ixor key keqb ieqb valid as_key as_item key_of_key hashable keqb_eq ieqb_eq as_key_self key_of_key_id). Qed.

  Theorem C14_inplace_with_itself : forall enf d, Inv d -> TInv d ->
    step enf d (OIXor PSelf) = (Ok RSelf, []) /\ step enf d (OISub PSelf) = (Ok RSelf, []).
  Proof. exact (T_ixor_self key keqb ieqb valid as_key as_item key_of_key hashable keqb_eq ieqb_eq as_key_self key_of_key_id). Qed.
End C14.

(* ---------------- non-vacuity ---------------- *)
Lemma kieqb_eq a b : kieqb a b = true <-> a = b.
Proof.
  destruct a as [a1 a2], b as [b1 b2]. unfold kieqb. simpl.
  rewrite andb_true_iff, !Z.eqb_eq. split; [intros [-> ->]; reflexivity|intro H; inversion H; auto].
Qed.

(* the hypotheses of the section hold in both universes of the correspondence check *)
Example C14_hypotheses_hold_fst : forall bare,
  (forall a b, Z.eqb a b = true <-> a = b) /\
  (forall a b, kieqb a b = true <-> a = b) /\
  (forall (x : kitem) (k : Z), (fun _ : kitem => @None Z) x = Some k ->
     k = kkey_fst x /\ forall y, kkey_fst y = k -> y = x) /\
  (forall k k', kok_fst bare k = Some k' -> k' = k).
Proof.
  intro bare. split; [exact Z.eqb_eq|]. split; [exact kieqb_eq|]. split; [intros; discriminate|].
  intros k k'. unfold kok_fst. destruct bare; intro H; inversion H; reflexivity.
Qed.

Example C14_hypotheses_hold_self :
  (forall a b, kieqb a b = true <-> a = b) /\
  (forall (x k : kitem), Some x = Some k -> k = kkey_self x /\ forall y, kkey_self y = k -> y = x) /\
  (forall k k' : kitem, Some k = Some k' -> k' = k).
Proof.
  split; [exact kieqb_eq|]. split.
  - intros x k H. inversion H; subst. unfold kkey_self. auto.
  - intros k k' H. now inversion H.
Qed.

(* a concrete non-trivial coherent, well-typed state *)
Example C14_inv_holds_somewhere :
  Inv kkey_fst [(2, (2, 5)); (1, (1, 0))] /\ TInv (kvalid_of true) [(2, (2, 5)); (1, (1, 0))].
Proof.
  split; [split|reflexivity].
  - repeat constructor; simpl; intuition discriminate.
  - repeat constructor.
Qed.

(* the enforce theorem is not vacuous: a conflicting add really is rejected,
   an equal one and one under a new key are accepted *)
Example C14_enforce_example :
  let st := step kkey_fst Z.eqb kieqb (kvalid_of true) (fun _ => None) (fun _ => None) (kok_fst true) (fun _ => true) true in
  st [(1, (1, 0))] (OAdd (1, 7)) = (Err ValueErr, [(1, (1, 0))]) /\
  st [(1, (1, 0))] (OAdd (1, 0)) = (Ok RNone, [(1, (1, 0))]) /\
  st [(1, (1, 0))] (OAdd (2, 7)) = (Ok RNone, [(1, (1, 0)); (2, (2, 7))]) /\
  st [(1, (1, 0))] (OIOr (PList [(2, 7); (1, 7)])) = (Err ValueErr, [(1, (1, 0))]).
Proof. vm_compute. repeat split. Qed.

(* with the flag on and operands that disagree on a shared key the algebra is
   on (key, item) pairs, not on keys: the `loose` hypotheses cannot be dropped *)
Example C14_loose_is_needed :
  let st := step kkey_fst Z.eqb kieqb (fun _ => true) (fun _ => None) (fun _ => None) (kok_fst true) (fun _ => true) true in
  st [(1, (1, 0))] (OSub (PKS true [(1, 7)])) = (Ok (RNew [(1, (1, 0))]), [(1, (1, 0))]) /\
  st [(1, (1, 0))] (OLe (PKS true [(1, 7)])) = (Ok (RBool false), [(1, (1, 0))]) /\
  st [(1, (1, 0))] (OOr (PKS true [(1, 7)])) = (Err ValueErr, [(1, (1, 0))]).
Proof. vm_compute. repeat split. Qed.

(* ---------------- regression evidence: the code before the fix: commits ---------------- *)
(* bdb9162: _from_iterable = cls(it) dropped the key function: results of
   | & - ^ were keyed by the items themselves, so two items with one key
   ended up side by side *)
Example C14_old_from_iterable_refuted :
  let keyP := fun x : kitem => (fst x, 0) in
  let r := old_from_iterable kieqb kkey_self [(1, 0); (1, 5)] in
  ~ NoDup (map keyP (vals r)).
Proof. vm_compute. intro N. inversion N as [|? ? H _]. apply H. left. reflexivity. Qed.

(* 7fe50f5: the inherited |= added items one at a time, so a rejected item
   left the earlier ones behind *)
Example C14_old_ior_refuted :
  let d := [(1, (1, 0))] in
  exists d', old_ior kkey_fst Z.eqb kieqb (fun _ => true) true d [(3, 0); (1, 7)] = (Err ValueErr, d')
             /\ d' <> d.
Proof. eexists; split; [vm_compute; reflexivity|discriminate]. Qed.

(* 0c6b13c: against a built-in set, `-` compared items instead of keys *)
Example C14_old_sub_pyset_refuted :
  let d := [(1, (1, 0)); (2, (2, 0))] in
  exists r, old_sub_pyset kkey_fst Z.eqb kieqb (fun _ => true) false d [(1, 7)] = Ok r
            /\ In 1 (map fst r).
Proof. eexists; split; [vm_compute; reflexivity|simpl; auto]. Qed.

(* 75c7cd7: s[item] with an unhashable item raised TypeError before its key was extracted *)
Example C14_old_getitem_refuted :
  old_getitem kkey_fst Z.eqb (fun _ => None) (kok_fst false) (fun _ => false)
              [(1, (1, 0))] (AItem (1, 0)) = Err TypeErr /\
  getitem kkey_fst Z.eqb (fun _ => None) (kok_fst false) [(1, (1, 0))] (AItem (1, 0)) = Ok (1, 0).
Proof. vm_compute. split; reflexivity. Qed.

Print Assumptions C14_map_laws.
Print Assumptions C14_refines_map.
Print Assumptions C14_constructor.
Print Assumptions C14_reachable_invariant.
Print Assumptions C14_failed_operation_changes_nothing.
Print Assumptions C14_enforce_add_unequal.
Print Assumptions C14_add_succeeds.
Print Assumptions C14_typed_add_rejects.
Print Assumptions C14_difference.
Print Assumptions C14_intersection.
Print Assumptions C14_union.
Print Assumptions C14_reflected_difference.
Print Assumptions C14_symmetric_difference.
Print Assumptions C14_le.
Print Assumptions C14_lt.
Print Assumptions C14_ge.
Print Assumptions C14_gt.
Print Assumptions C14_isdisjoint.
Print Assumptions C14_eq_is_mapping_equality.
Print Assumptions C14_inplace_union.
Print Assumptions C14_inplace_intersection.
Print Assumptions C14_inplace_difference.
Print Assumptions C14_inplace_symmetric_difference.
Print Assumptions C14_inplace_with_itself.
Print Assumptions C14_hypotheses_hold_fst.
Print Assumptions C14_hypotheses_hold_self.
Print Assumptions C14_inv_holds_somewhere.
Print Assumptions C14_enforce_example.
Print Assumptions C14_loose_is_needed.
Print Assumptions C14_old_from_iterable_refuted.
Print Assumptions C14_old_ior_refuted.
Print Assumptions C14_old_sub_pyset_refuted.
Print Assumptions C14_old_getitem_refuted.
