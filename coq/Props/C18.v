(* C18 — Alias mirrors its target until overridden; passthrough writes reach
   the target; missing target -> fresh fallback copy / AttributeError;
   DeprecatedAlias = Alias + warnings.

   Statements only.  Model: Desc/AliasModel.v (Alias.__get__/__set__/
   __delete__/__set_name__, DeprecatedAlias.__warn, the attribute protocol of
   plain and spec classes, over tree-shaped objects).  Specification:
   Desc/AliasSpec.v (meaning of a path, the two-variable reference machine,
   [step_ok]).  Everything is for an arbitrary transform pool, host class,
   configuration (passthrough x transform x fallback x DeprecatedAlias x path
   of ANY length), instance tree and operation sequence.  The path PARSER is
   not modelled (validated by the harness, see docs/C18.md). *)
From Coq Require Import List ZArith Bool.
From SC Require Import Base.Res Desc.AliasBase Desc.AliasModel Desc.AliasSpec Desc.AliasProofs Corr.AliasCorr.
Import ListNotations.
Open Scope Z_scope.

Section C18.
  Context {fn : Type}.
  Variable apply_fn : fn -> val -> res val.
  (* transforms are pure functions that may fail, but not with AttributeError *)
  Hypothesis tr_total : forall f v, apply_fn f v <> Err AttrErr.
  Variable h : host.
  Variable c : cfg fn.
  Hypothesis Hwf : wf h c.

  Notation step := (step apply_fn h c).
  Notation run := (run apply_fn h c).
  Notation path := (c_path c).

  (* Every operation of every sequence from every instance: its outcome is
     the reference machine's outcome on (target along the path, local
     override), the two variables afterwards are the machine's, the object
     tree afterwards differs from the one before at most at the location the
     operation may change (private slot / target location), and warnings are
     emitted exactly by accesses of a DeprecatedAlias. *)
  Theorem C18_every_step_is_a_step_of_the_reference_machine : forall ops d w,
    steps_ok apply_fn h c (VInst d, w) ops.
  Proof. exact (run_steps_ok apply_fn tr_total h c Hwf). Qed.

  (* Simulation, run level: outcomes and final two-variable state. *)
  Theorem C18_run_refines_reference_machine : forall ops d w,
    fst (run (VInst d, w) ops) = fst (machine_run apply_fn h c (abs c (VInst d)) ops) /\
    abs c (fst (snd (run (VInst d, w) ops))) = snd (machine_run apply_fn h c (abs c (VInst d)) ops) /\
    inst (fst (snd (run (VInst d, w) ops))).
  Proof. exact (run_refines_machine apply_fn tr_total h c Hwf). Qed.

  (* A non-passthrough assignment (or deletion) never changes the target, nor
     anything else a path not starting at the private slot can see. *)
  Theorem C18_local_write_never_changes_the_target : forall d w o,
    c_pt c = false -> (exists x, o = WrAlias x) \/ o = DelAlias ->
    let r' := fst (snd (step (VInst d, w) o)) in
    (forall q0 q, q0 <> local_slot c -> resolve r' (q0 :: q) = resolve (VInst d) (q0 :: q)) /\
    resolve r' path = resolve (VInst d) path.
  Proof. exact (local_write_changes_only_the_private_slot apply_fn tr_total h c Hwf). Qed.

  (* A passthrough assignment reaches exactly the target location: the tree
     afterwards is [put], the location holds the value, every location off
     the path and the private slot are as before; a failed one changes nothing. *)
  Theorem C18_passthrough_write_reaches_exactly_the_target : forall d w x,
    c_pt c = true ->
    let res := fst (step (VInst d, w) (WrAlias x)) in
    let r' := fst (snd (step (VInst d, w) (WrAlias x))) in
    match res with
    | Ok _ => r' = put (VInst d) path (Some x) /\ resolve r' path = Present x /\
              (forall q, diverges path q -> resolve r' q = resolve (VInst d) q) /\
              local_of c r' = local_of c (VInst d)
    | Err _ => r' = VInst d
    end.
  Proof. exact (passthrough_write_reaches_exactly_the_target apply_fn tr_total h c Hwf). Qed.

  Theorem C18_passthrough_delete_reaches_exactly_the_target : forall d w,
    c_pt c = true ->
    let res := fst (step (VInst d, w) DelAlias) in
    let r' := fst (snd (step (VInst d, w) DelAlias)) in
    match res with
    | Ok _ => r' = put (VInst d) path None /\ resolve r' path = Absent /\
              (forall q, diverges path q -> resolve r' q = resolve (VInst d) q) /\
              local_of c r' = local_of c (VInst d)
    | Err _ => r' = VInst d
    end.
  Proof. exact (passthrough_delete_reaches_exactly_the_target apply_fn tr_total h c Hwf). Qed.

  (* Not shadowed, target present: the (transformed) current value; shadowed:
     the local value as it is. *)
  Theorem C18_alias_reads_live_view_until_assigned : forall d w v,
    resolve (VInst d) path = Present v ->
    fst (step (VInst d, w) RdAlias) =
    match (if c_pt c then None else local_of c (VInst d)) with
    | Some l => Ok (OVal l)
    | None => transformed apply_fn c v
    end.
  Proof. exact (present_target_reads_live_view apply_fn tr_total h c Hwf). Qed.

  (* Missing target (empty slot, or a missing attribute/key on the way), not
     shadowed: a FRESH copy of a mutable fallback, the fallback itself when
     immutable, AttributeError without one. *)
  Theorem C18_missing_target_yields_fresh_fallback_or_AttributeError : forall d w,
    (resolve (VInst d) path = Absent \/
     exists e, resolve (VInst d) path = Broken e /\ as_attr_err e = AttrErr) ->
    (c_pt c = true \/ local_of c (VInst d) = None) ->
    fst (step (VInst d, w) RdAlias) =
    match c_fb c with
    | Some f => Ok (if is_mutable f then OFresh f else OVal f)
    | None => Err AttrErr
    end.
  Proof. exact (missing_target_reads_fallback apply_fn tr_total h c Hwf). Qed.

  (* DeprecatedAlias: same outcomes and same objects as the Alias with the
     same arguments, for every sequence ... *)
  Theorem C18_deprecated_alias_changes_nothing_else : forall ops d w w0,
    fst (run (VInst d, w) ops) = fst (AliasModel.run apply_fn h (undeprecated c) (VInst d, w0) ops) /\
    fst (snd (run (VInst d, w) ops)) =
    fst (snd (AliasModel.run apply_fn h (undeprecated c) (VInst d, w0) ops)).
  Proof. exact (deprecated_changes_nothing_else apply_fn tr_total h c Hwf). Qed.

  (* ... and it warns at least once per access of the alias (never for
     anything else: see warns_ok in step_ok), a plain Alias never. *)
  Theorem C18_warnings_on_every_access_and_only_for_deprecated : forall ops d w,
    let w' := snd (snd (run (VInst d, w) ops)) in
    if c_dep c then w + accesses h c ops <= w' else w' = w.
  Proof. exact (warnings_counted apply_fn tr_total h c Hwf). Qed.
End C18.

(* What [put] means: the location holds what was put, nothing off the path moved. *)
Theorem C18_put_sets_the_location : forall p v x,
  p <> [] -> (forall e, resolve v p <> Broken e) ->
  resolve (put v p x) p = match x with Some y => Present y | None => Absent end.
Proof. exact resolve_put. Qed.

Theorem C18_put_changes_nothing_off_the_path : forall v p q x,
  diverges p q -> resolve (put v p x) q = resolve v q.
Proof. exact put_frame_diverges. Qed.

(* The oracle evaluated on the implementation's observations is the predicate
   of the first theorem. *)
Theorem C18_oracle_is_step_ok : forall fn (apply_fn : fn -> val -> res val) h c pre o res n post,
  step_okb apply_fn h c pre o res n post = true <-> step_ok apply_fn h c pre o res n post.
Proof. exact @step_okb_iff. Qed.

(* ---- non-vacuity ---------------------------------------------------------------- *)
(* the transform pool of the harness satisfies the hypothesis *)
Example C18_pool_transforms_never_raise_AttributeError :
  forall f v, apply_tfn f v <> Err AttrErr.
Proof. intros [] []; simpl; discriminate. Qed.

(* y = Alias('a["k"].x', transform=v+1, fallback={"k": 1}) on a spec class with x: int *)
Definition ex_host : host := mkhost true [2].
Definition ex_cfg : cfg tfn :=
  mkcfg [SAttr 0; SItem 0; SAttr 2] false (Some FInc) (Some (VDict [(0, VInt 1)])) 5 true true.
Definition ex_inst : val :=
  VInst [(0, VDict [(0, VInst [(2, VInt 10)])]); (3, VInt 9)].

Example C18_wf_holds_somewhere : wf ex_host ex_cfg.
Proof. unfold wf; simpl. repeat split; discriminate. Qed.

(* live view (+1), shadowing, target untouched by the shadow, target write
   invisible while shadowed, restored live view, deleted target -> fresh
   fallback, ill-typed target write rejected; 7 warnings for 7 accesses *)
Example C18_example_run :
  run apply_tfn ex_host ex_cfg (ex_inst, 0)
      [RdAlias; WrAlias (VInt 3); RdAlias; RdTarget; WrTarget (VInt 20); RdAlias; DelAlias;
       RdAlias; DelTarget; RdAlias; WrTarget (VStr 1)] =
  ([Ok (OVal (VInt 11)); Ok ONone; Ok (OVal (VInt 3)); Ok (OVal (VInt 10)); Ok ONone;
    Ok (OVal (VInt 3)); Ok ONone; Ok (OVal (VInt 21)); Ok ONone;
    Ok (OFresh (VDict [(0, VInt 1)])); Err TypeErr],
   (VInst [(0, VDict [(0, VInst [])]); (3, VInt 9)], 7)).
Proof. vm_compute. reflexivity. Qed.

(* passthrough through a three-element path: the value lands in the nested object *)
Example C18_example_passthrough :
  step apply_tfn ex_host (mkcfg [SAttr 0; SItem 0; SAttr 2] true None None 5 true false)
       (ex_inst, 0) (WrAlias (VInt 4)) =
  (Ok ONone, (VInst [(0, VDict [(0, VInst [(2, VInt 4)])]); (3, VInt 9)], 0)).
Proof. vm_compute. reflexivity. Qed.

Print Assumptions C18_every_step_is_a_step_of_the_reference_machine.
Print Assumptions C18_run_refines_reference_machine.
Print Assumptions C18_local_write_never_changes_the_target.
Print Assumptions C18_passthrough_write_reaches_exactly_the_target.
Print Assumptions C18_passthrough_delete_reaches_exactly_the_target.
Print Assumptions C18_alias_reads_live_view_until_assigned.
Print Assumptions C18_missing_target_yields_fresh_fallback_or_AttributeError.
Print Assumptions C18_deprecated_alias_changes_nothing_else.
Print Assumptions C18_warnings_on_every_access_and_only_for_deprecated.
Print Assumptions C18_put_sets_the_location.
Print Assumptions C18_put_changes_nothing_off_the_path.
Print Assumptions C18_oracle_is_step_ok.
Print Assumptions C18_pool_transforms_never_raise_AttributeError.
Print Assumptions C18_wf_holds_somewhere.
Print Assumptions C18_example_run.
Print Assumptions C18_example_passthrough.
