(* C12 — spec_property and classproperty follow the override / cache / getter
   protocol.  Statements only; every proof is one `exact`.
   Model: Desc/SpecPropModel.v, Desc/ClassPropModel.v (the code as written:
   one __dict__ entry / one dict shared by override and cache).
   Specification: Desc/SpecPropSpec.v, Desc/ClassPropSpec.v (two independent
   slots: override, cached).
   Everything user-supplied is universally quantified: the value type, the
   underlying state U, getter / custom setter / custom deleter (may change U,
   may raise), the state changes, the attribute's value preparation and type
   check, the type of classes.  `cfg` has 6 boolean fields: the 16
   combinations (overridable, cache, setter, deleter) of the property text,
   times fget present / absent, times allow_attribute_error. *)
From Coq Require Import List ZArith Bool.
From SC Require Import Base.Res
  Desc.SpecPropModel Desc.SpecPropSpec Desc.SpecPropProofs
  Desc.ClassPropModel Desc.ClassPropSpec Desc.ClassPropProofs
  Desc.SpecPropDepsModel Desc.SpecPropDepsSpec Desc.SpecPropDepsProofs Corr.SpecPropCorr.
Import ListNotations.

Section C12_spec_property.
  Context {val U P : Type}.
  Variable is_sentinel : val -> bool.
  Variable fget : U -> res val * U.
  Variable fset : U -> val -> res unit * U.
  Variable fdel : U -> res unit * U.
  Variable poke : P -> U -> U.
  Variable prepare : val -> res val.
  Variable tyok : val -> bool.

  Notation m_run := (m_run is_sentinel fget fset fdel poke prepare tyok).
  Notation m_step := (m_step is_sentinel fget fset fdel poke prepare tyok).
  Notation spec_run := (spec_run is_sentinel fget fset fdel poke prepare tyok).
  Notation obj_read := (obj_read is_sentinel fget prepare tyok).
  Notation obj_assign := (obj_assign is_sentinel fset prepare tyok).
  Notation obj_delete := (@obj_delete val U fdel).
  Notation desc_get := (desc_get is_sentinel fget prepare tyok).
  Notation incoming := (incoming is_sentinel prepare tyok).

  (* Every configuration, every owner kind, every sequence of reads,
     assignments, deletions and changes of the underlying state, on a new
     instance: every outcome (value or exception class) of the code is the
     outcome of the two-slot protocol, the __dict__ entry always shows
     "override, else cached value", and the underlying state (getter call
     count included) is the same. *)
  Theorem C12_spec_property_follows_protocol : forall (c : cfg) (o : owner) (u : U) xs,
    fst (m_run c o (m_init u) xs) = fst (spec_run c o (spec_init u) xs) /\
    slot (snd (m_run c o (m_init u) xs)) = visible (snd (spec_run c o (spec_init u) xs)) /\
    mu (snd (m_run c o (m_init u) xs)) = su (snd (spec_run c o (spec_init u) xs)).
  Proof. exact (run_sim_from_new is_sentinel fget fset fdel poke prepare tyok). Qed.

  (* the same from any pair of related states (so also in the middle of a history) *)
  Theorem C12_spec_property_simulation : forall (c : cfg) (o : owner) xs s m,
    R c s m ->
    fst (m_run c o m xs) = fst (spec_run c o s xs) /\
    R c (snd (spec_run c o s xs)) (snd (m_run c o m xs)).
  Proof. exact (run_sim is_sentinel fget fset fdel poke prepare tyok). Qed.

  (* the record type has exactly the enumerated inhabitants: 64 = 16 x 2 x 2
     configurations, 5 owner kinds *)
  Theorem C12_configurations_enumerated :
    (forall c : cfg, In c all_cfgs) /\ length all_cfgs = 64%nat /\
    (forall o : owner, In o all_owners) /\ length all_owners = 5%nat.
  Proof.
    exact (conj all_cfgs_complete (conj eq_refl (conj all_owners_complete eq_refl))).
  Qed.

  (* Assignment when neither overridable nor a setter: nothing changes;
     AttributeError whenever a value reaches the descriptor (always on a plain
     class; on a spec class unless the value is a sentinel = "no assignment",
     or is rejected before by the attribute's preparer / type check). *)
  Theorem C12_assignment_rejected_changes_nothing : forall (c : cfg) (o : owner) v m,
    overridable c = false -> has_fset c = false ->
    snd (obj_assign c o v m) = m /\
    (forall v', incoming o v = Ok (Some v') -> fst (obj_assign c o v m) = Err AttrErr) /\
    (incoming o v = Ok None -> fst (obj_assign c o v m) = Ok ONone) /\
    (forall e, incoming o v = Err e -> fst (obj_assign c o v m) = Err e).
  Proof. exact (assign_rejected is_sentinel fset prepare tyok). Qed.

  Theorem C12_assignment_rejected_on_plain_class : forall (c : cfg) v m,
    overridable c = false -> has_fset c = false ->
    obj_assign c Plain v m = (Err AttrErr, m).
  Proof. exact (assign_rejected_plain is_sentinel fset prepare tyok). Qed.

  (* Deletion with nothing stored (no custom deleter): AttributeError, no change. *)
  Theorem C12_deletion_with_nothing_stored_raises : forall (c : cfg) (o : owner) m,
    has_fdel c = false -> slot m = None ->
    obj_delete c o m = (Err AttrErr, m).
  Proof. exact (delete_nothing fdel). Qed.

  (* Deletion with an override or a cached value stored removes it. *)
  Theorem C12_deletion_removes_override_or_cache : forall (c : cfg) (o : owner) s m v,
    R c s m -> has_fdel c = false -> slot m = Some v ->
    obj_delete c o m = (Ok ONone, mkm None (mu m)).
  Proof. exact (delete_something fdel). Qed.

  (* A stored override / cached value is returned and the getter is not run
     (the entire state, in which the getter would count its calls, is unchanged). *)
  Theorem C12_stored_value_returned_without_getter : forall (c : cfg) (o : owner) s m v,
    R c s m -> slot m = Some v -> obj_read c o m = (Ok v, m).
  Proof. exact (read_hit is_sentinel fget prepare tyok). Qed.

  (* On a spec class with a managed annotation, a value produced by the getter
     path is prepare(getter result) and passes the type check ... *)
  Theorem C12_getter_result_prepared_and_type_checked : forall (c : cfg) m v m',
    desc_get c true m = (Ok v, m') ->
    (if overridable c || cache c then slot m else None) = None ->
    tyok v = true /\ exists v0, fst (fget (mu m)) = Ok v0 /\ prepare v0 = Ok v.
  Proof. exact (get_managed_checked is_sentinel fget prepare tyok). Qed.

  (* ... and so, in every history, every read that returns returns a value of
     the annotated type (overrides are type-checked on the way in). *)
  Theorem C12_managed_reads_are_well_typed : forall (c : cfg) i xs m,
    slot_typed tyok m ->
    slot_typed tyok (snd (m_run c (SpecManaged i) m xs)) /\
    Forall2 (fun x r => forall v, x = Read -> r = Ok (OVal v) -> tyok v = true)
            xs (fst (m_run c (SpecManaged i) m xs)).
  Proof. exact (run_managed_typed is_sentinel fget fset fdel poke prepare tyok). Qed.

  (* overridable = false, cache = false: the property can hold neither an
     override nor a cached value, so whatever sits in the instance __dict__
     under the property's own name (e.g. the backing value of a custom setter
     that stores it there) is never served and never written: outcomes and
     underlying state of every history are those of an instance without that
     entry -- every read is the getter's result on current state (through
     preparer and type check on a managed attribute). *)
  Theorem C12_own_name_entry_is_not_a_stored_value : forall (c : cfg) (o : owner) xs m1 m2,
    overridable c = false -> cache c = false -> mu m1 = mu m2 ->
    fst (m_run c o m1 xs) = fst (m_run c o m2 xs) /\
    mu (snd (m_run c o m1 xs)) = mu (snd (m_run c o m2 xs)) /\
    slot (snd (m_run c o m1 xs)) = slot m1.
  Proof. exact (run_slot_ignored is_sentinel fget fset fdel poke prepare tyok). Qed.
End C12_spec_property.

(* Two spec_properties on one spec-class instance: a trigger `t` and a
   dependant `q` declared invalidated_by=["t"] or "*"
   (Desc/SpecPropDepsModel.v: the owner's mutate_attr / __delattr__ /
   invalidate_attrs around two descriptors; Desc/SpecPropDepsSpec.v: two
   two-slot machines that leave each other alone except after an assignment /
   deletion of the trigger that returned). *)
Section C12_two_properties.
  Context {val U P : Type}.
  Variable is_sentinel : val -> bool.
  Variables fget_t fget_q : U -> res val * U.
  Variables fset_t fset_q : U -> val -> res unit * U.
  Variables fdel_t fdel_q : U -> res unit * U.
  Variable poke : P -> U -> U.
  Variables prepare_t prepare_q : val -> res val.
  Variables tyok_t tyok_q : val -> bool.

  Notation dm_step := (dm_step is_sentinel fget_t fget_q fset_t fset_q fdel_t fdel_q poke prepare_t prepare_q tyok_t tyok_q).
  Notation dm_run := (dm_run is_sentinel fget_t fget_q fset_t fset_q fdel_t fdel_q poke prepare_t prepare_q tyok_t tyok_q).
  Notation ds_run := (ds_run is_sentinel fget_t fget_q fset_t fset_q fdel_t fdel_q poke prepare_t prepare_q tyok_t tyok_q).
  Notation m_reaches := (m_reaches is_sentinel prepare_t tyok_t).

  (* every pair of configurations, managed or not, ["t"] or "*", every
     sequence of reads / assignments / deletions of either property and state
     changes: outcomes, both __dict__ entries and the underlying state are
     those of the two protocol machines *)
  Theorem C12_two_properties_follow_protocol : forall (d : dcfg) (u : U) xs,
    fst (dm_run d (dm_init u) xs) = fst (ds_run d (ds_init u) xs) /\
    dslot_t (snd (dm_run d (dm_init u) xs)) = t_visible (snd (ds_run d (ds_init u) xs)) /\
    dslot_q (snd (dm_run d (dm_init u) xs)) = q_visible (snd (ds_run d (ds_init u) xs)) /\
    dmu (snd (dm_run d (dm_init u) xs)) = dsu (snd (ds_run d (ds_init u) xs)).
  Proof.
    exact (drun_sim_from_new is_sentinel fget_t fget_q fset_t fset_q fdel_t fdel_q poke
             prepare_t prepare_q tyok_t tyok_q).
  Qed.

  (* "raises AttributeError and changes nothing": a rejected assignment to the
     trigger leaves the whole instance as it was -- the override / cached value
     of the dependant included *)
  Theorem C12_rejected_assignment_keeps_dependants : forall (d : dcfg) v m,
    overridable (d_ct d) = false -> has_fset (d_ct d) = false ->
    snd (dm_step d m (TAssign v)) = m /\
    (m_reaches d v = true -> fst (dm_step d m (TAssign v)) = Err AttrErr).
  Proof.
    exact (trigger_assignment_rejected is_sentinel fget_t fget_q fset_t fset_q fdel_t fdel_q poke
             prepare_t prepare_q tyok_t tyok_q).
  Qed.

  Theorem C12_rejected_deletion_keeps_dependants : forall (d : dcfg) m,
    has_fdel (d_ct d) = false -> dslot_t m = None ->
    dm_step d m TDelete = (Err AttrErr, m).
  Proof.
    exact (trigger_deletion_rejected is_sentinel fget_t fget_q fset_t fset_q fdel_t fdel_q poke
             prepare_t prepare_q tyok_t tyok_q).
  Qed.
End C12_two_properties.

Section C12_classproperty.
  Context {val U P cid : Type}.
  Variable cid_eqb : cid -> cid -> bool.
  Variable fget : cid -> U -> res val * U.
  Variable fset : cid -> U -> val -> res unit * U.
  Variable fdel : cid -> U -> res unit * U.
  Variable poke : P -> U -> U.
  Hypothesis cid_eqb_eq : forall a b, cid_eqb a b = true <-> a = b.

  Notation cp_run := (cp_run cid_eqb fget fset fdel poke).
  Notation cp_step := (cp_step cid_eqb fget fset fdel poke).
  Notation cs_run := (cs_run cid_eqb fget fset fdel poke).
  Notation d_get := (@d_get val cid cid_eqb).

  (* Every configuration (32 flag combinations x fget x allow_attribute_error),
     any set of classes, every sequence of reads via classes and instances,
     assignments, deletions and class-state changes: the outcomes are those of
     one two-slot machine per class (cache_per_subclass) or one for the whole
     hierarchy (default), and every _cache entry shows "override, else cached". *)
  Theorem C12_classproperty_follows_protocol : forall (c : ccfg) (u : U) xs,
    fst (cp_run c (cp_init u) xs) = fst (cs_run c (cs_init u) xs) /\
    (forall n, d_get n (cdict (snd (cp_run c (cp_init u) xs)))
               = c_visible (machine (snd (cs_run c (cs_init u) xs)) n)) /\
    cu (snd (cp_run c (cp_init u) xs)) = csu (snd (cs_run c (cs_init u) xs)).
  Proof. exact (crun_sim_from_new cid_eqb fget fset fdel poke cid_eqb_eq). Qed.

  (* cache_per_subclass=True: an access through one class never changes what
     is stored for another class. *)
  Theorem C12_classproperty_per_subclass_isolated : forall (c : ccfg) x m k',
    c_per_sub c = true -> op_class x <> Some k' ->
    d_get (Some k') (cdict (snd (cp_step c m x))) = d_get (Some k') (cdict m).
  Proof. exact (per_subclass_isolated cid_eqb fget fset fdel poke cid_eqb_eq). Qed.

  (* default: what is stored is returned through every class of the hierarchy,
     via the class and via an instance alike, without running the getter. *)
  Theorem C12_classproperty_shared_by_default : forall (c : ccfg) m v k,
    c_per_sub c = false -> d_get None (cdict m) = Some v ->
    cp_step c m (CReadC k) = (Ok (CVal v), m) /\ cp_step c m (CReadI k) = (Ok (CVal v), m).
  Proof.
    exact (fun c m v k Ep H => conj (shared_hit cid_eqb fget c m v k Ep H)
                                    (shared_hit cid_eqb fget c m v k Ep H)).
  Qed.

  Theorem C12_classproperty_assignment_rejected : forall (c : ccfg) k v m,
    c_overridable c = false -> c_has_fset c = false ->
    cp_step c m (CAssign k v) = (Err AttrErr, m).
  Proof. exact (cassign_rejected cid_eqb fset). Qed.

  Theorem C12_classproperty_deletion_with_nothing_stored : forall (c : ccfg) k m,
    c_has_fdel c = false -> d_get (cache_key c k) (cdict m) = None ->
    cp_step c m (CDelete k) = (Err AttrErr, m).
  Proof. exact (cdelete_nothing cid_eqb fdel). Qed.
End C12_classproperty.

(* ---- non-vacuity and interpretation witnesses on the concrete pool of the
   correspondence check (Corr/SpecPropCorr.v) ---- *)
Open Scope Z_scope.

(* overridable + cache on a managed spec-class attribute with preparer +1:
   read (getter 0 -> prepared 1, cached), state change, read (still 1),
   assign 10 (stored prepared: 11), read, delete (drops override AND cache),
   read (getter on current state 4 -> 5). *)
Example C12_protocol_run_example :
  map enc_res (fst (m_run sentinel g_fget (g_fset 0) (g_fdel 0) g_poke (pav 1) is_int
    (mkcfg true true false false true true) (SpecManaged false) (m_init (mku 0 None 0))
    [Read; Poke 4; Read; Assign (VInt 10); Read; Delete; Read; Delete; Delete]))
  = [[1; 8]; [0; 0]; [1; 8]; [0; 0]; [1; 88]; [0; 0]; [1; 40]; [0; 0]; [-5; 0]].
Proof. vm_compute. reflexivity. Qed.

(* interpretation witness: a custom deleter REPLACES the default deletion, so
   with cache=True the cached value survives `del obj.p` (documented in
   docs/C12.md; model and specification agree on it). *)
Example C12_custom_deleter_keeps_cache_example :
  map enc_res (fst (m_run sentinel g_fget (g_fset 0) (g_fdel 0) g_poke (pav 0) is_int
    (mkcfg false true false true true true) Plain (m_init (mku 0 None 0))
    [Read; Delete; Poke 4; Read]))
  = [[1; 0]; [0; 0]; [0; 0]; [1; 0]].
Proof. vm_compute. reflexivity. Qed.

(* classproperty, cache per subclass over A <- B <- C: B's read caches under B
   only; A computes its own value; deleting through C raises. *)
Example C12_classproperty_run_example :
  map enc_cres (fst (cp_run Z.eqb (h_fget 0) (h_fset 0) (h_fdel 0) h_poke
    (mkccfg false true true false false true true) (cp_init (mkcu [(0, 0)] [] 0))
    [CReadC 1; CPoke (0, 4); CReadI 1; CReadC 0; CDelete 2; CDelete 1; CReadI 1]))
  = [[1; 8]; [0; 0]; [1; 8]; [1; 320]; [-5; 0]; [0; 0]; [1; 328]].
Proof. vm_compute. reflexivity. Qed.

(* trigger t: not overridable, no setter (managed `t: int`); dependant q:
   cache=True, not overridable, invalidated_by=["t"].  read q (cached 100);
   assign t (rejected, AttributeError, q keeps its cached value); change x
   (q is not invalidated by x); read q: still 100, getter not run again. *)
Example C12_rejected_assignment_keeps_cache_example :
  dm_trace (mkdcase (mkd (mkcfg false false false false true true) true
                         (mkcfg false true false false true true) false false)
                    0 0 0 0 0 0 0 [] [])
    (dm_init (mku 0 None 0)) [QRead; TAssign (VInt 10); XPoke 4; QRead]
  = [[1; 800; -1; 800; 0; -1; 1]; [-5; 0; -1; 800; 0; -1; 1];
     [0; 0; -1; 800; 4; -1; 1]; [1; 800; -1; 800; 4; -1; 1]].
Proof. vm_compute. reflexivity. Qed.

(* ... whereas an assignment to an overridable trigger that returns deletes
   the dependant's cached value: the next read runs q's getter again *)
Example C12_successful_assignment_invalidates_example :
  dm_trace (mkdcase (mkd (mkcfg true false false false true true) true
                         (mkcfg false true false false true true) false false)
                    0 0 0 0 0 0 0 [] [])
    (dm_init (mku 0 None 0)) [QRead; TAssign (VInt 10); XPoke 4; QRead]
  = [[1; 800; -1; 800; 0; -1; 1]; [0; 0; 80; -1; 0; -1; 1];
     [0; 0; 80; -1; 4; -1; 1]; [1; 832; 80; 832; 4; -1; 2]].
Proof. vm_compute. reflexivity. Qed.

Print Assumptions C12_spec_property_follows_protocol.
Print Assumptions C12_spec_property_simulation.
Print Assumptions C12_configurations_enumerated.
Print Assumptions C12_assignment_rejected_changes_nothing.
Print Assumptions C12_assignment_rejected_on_plain_class.
Print Assumptions C12_deletion_with_nothing_stored_raises.
Print Assumptions C12_deletion_removes_override_or_cache.
Print Assumptions C12_stored_value_returned_without_getter.
Print Assumptions C12_getter_result_prepared_and_type_checked.
Print Assumptions C12_managed_reads_are_well_typed.
Print Assumptions C12_own_name_entry_is_not_a_stored_value.
Print Assumptions C12_classproperty_follows_protocol.
Print Assumptions C12_classproperty_per_subclass_isolated.
Print Assumptions C12_classproperty_shared_by_default.
Print Assumptions C12_classproperty_assignment_rejected.
Print Assumptions C12_classproperty_deletion_with_nothing_stored.
Print Assumptions C12_two_properties_follow_protocol.
Print Assumptions C12_rejected_assignment_keeps_dependants.
Print Assumptions C12_rejected_deletion_keeps_dependants.
Print Assumptions C12_protocol_run_example.
Print Assumptions C12_custom_deleter_keeps_cache_example.
Print Assumptions C12_classproperty_run_example.
Print Assumptions C12_rejected_assignment_keeps_cache_example.
Print Assumptions C12_successful_assignment_invalidates_example.
