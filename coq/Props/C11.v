(* C11 — derived values are never stale after a dependency changes.
   Statements only; every proof is one `exact` (or a vm_compute witness).

   Model:  Inval/Model.v — the code of utils/mutation.py (mutate_attr,
           invalidate_attrs), spec_class.py (invalidation_map_for),
           methods/core.py (__setattr__, __delattr__), types/spec_property.py
           and every helper entry point, AFTER the commits eda062f and 4d8435f.
   Spec:   Inval/Spec.v — dep_closure (`reach`), clean ("holds nothing or is
           back at its default"), closure_cleared, unrelated_kept, chain.
   Everything user-supplied is arbitrary: the value type, the sentinel test,
   the type check, the getters (any function of the instance __dict__), the
   transform functions, the element operations, and the class description
   (any number of attributes and properties, any dependency graph — chains,
   cycles, '*' —, spec subclass and plain subclass levels, redeclarations,
   frozen or not).  wf_class: `attrs` has one entry per name, defaults are
   well-typed non-sentinel values, and metadata.attrs carries the invalidated_by
   that build_attr_spec derives from the class text. *)
From Coq Require Import List ZArith Bool.
From SC Require Import Base.Res Inval.Desc Inval.Model Inval.Spec Inval.Proofs Corr.InvalCorr.
Import ListNotations.
Open Scope Z_scope.

Section C11.
  Context {V : Type}.
  Variable sentinel : V -> bool.
  Variable check : name -> V -> bool.
  Variable getter : name -> dict V -> V.
  Variable fid : Type.
  Variable apply_f : fid -> option V -> V.
  Variable eop : Type.
  Variable apply_e : eop -> option V -> res V.
  Variable cd : cdesc V.
  Hypothesis wf : wf_class cd sentinel check.

  Notation step := (step V sentinel check getter fid apply_f eop apply_e cd).
  Notation read := (read V sentinel check getter cd).
  Notation single_attr := (single_attr V fid eop).
  Notation in_place := (in_place V fid eop).
  Notation writes_value := (writes_value V sentinel fid apply_f eop apply_e).
  Notation nth_step := (nth_step V sentinel check getter fid apply_f eop apply_e cd).

  (* The map the code builds for type(obj) holds exactly the declarations in
     force — those of a plain subclass included. *)
  Theorem C11_invalidation_map_is_the_declarations : forall k y,
    In (k, y) (inv_map V cd) <-> exists inv, decl_inv cd y = Some inv /\ In k inv.
  Proof. exact (inv_map_spec cd (proj1 wf) (proj2 (proj2 wf))). Qed.

  (* After a SUCCESSFUL mutation of a through any single-attribute entry point
     (assignment, deletion, with_/update_/transform_/reset_<a>, element helper;
     in place or on a copy) every y of the dependency closure of a, y <> a,
     holds nothing or is back at its default on the object that was written. *)
  Theorem C11_closure_cleared : forall d c o a,
    single_attr o = Some a -> o_err (step d c o) = None -> writes_value o d = true ->
    closure_cleared cd a (target (step d c o)).
  Proof.
    intros d c o a Ha He Hw. destruct (step_single sentinel check getter fid apply_f eop apply_e cd wf d c o a Ha) as [_ [_ [H _]]].
    exact (proj1 (H He Hw)).
  Qed.

  (* …and every entry outside the closure is exactly what it was (on a copy:
     what the original holds); no getter ran. *)
  Theorem C11_unrelated_kept : forall d c o a,
    single_attr o = Some a -> o_err (step d c o) = None -> writes_value o d = true ->
    unrelated_kept cd a d (target (step d c o)) /\ o_calls (step d c o) = c.
  Proof.
    intros d c o a Ha He Hw. destruct (step_single sentinel check getter fid apply_f eop apply_e cd wf d c o a Ha) as [_ [_ [H Hc]]].
    exact (conj (proj2 (H He Hw)) Hc).
  Qed.

  (* A FAILED mutation discards nothing: the receiver's map is the same map, no
     object is returned, no getter ran. *)
  Theorem C11_failed_keeps_all : forall d c o a,
    single_attr o = Some a -> o_err (step d c o) <> None ->
    o_recv (step d c o) = d /\ o_res (step d c o) = None /\ o_calls (step d c o) = c.
  Proof.
    intros d c o a Ha He. destruct (step_single sentinel check getter fid apply_f eop apply_e cd wf d c o a Ha) as [H [_ [_ Hc]]].
    destruct (H He). auto.
  Qed.

  (* Copy-on-write: the original keeps every entry, caches included. *)
  Theorem C11_copy_leaves_original : forall d c o a,
    single_attr o = Some a -> in_place o = false -> o_recv (step d c o) = d.
  Proof.
    intros d c o a Ha Hi. destruct (step_single sentinel check getter fid apply_f eop apply_e cd wf d c o a Ha) as [_ [H _]]. auto.
  Qed.

  (* The next read of a property of the closure runs the getter on the current
     state of the object that was written (exactly one call); for an annotated
     property the result is type-checked as C12 describes. *)
  Theorem C11_next_read_fresh : forall d c o a p f c',
    single_attr o = Some a -> o_err (step d c o) = None -> writes_value o d = true ->
    reach cd a p -> p <> a -> descriptor_of cd p = Some f ->
    let t := target (step d c o) in
    r_res (read t c' p) =
      (if is_attr V cd p && negb (check p (getter p t)) then Err ValueErr else Ok (getter p t))
    /\ r_calls (read t c' p) = bump c' p.
  Proof.
    intros d c o a p f c' Ha He Hw Hr Hne Hd t.
    apply (read_clean sentinel check getter cd t c' p f Hd).
    destruct (step_single sentinel check getter fid apply_f eop apply_e cd wf d c o a Ha) as [_ [_ [H _]]].
    exact (proj1 (H He Hw) p Hr Hne).
  Qed.

  (* A stored value (cache or override) is served as it is: nothing is
     recomputed, nothing changes — so an unrelated cache that was kept is
     never recomputed. *)
  Theorem C11_kept_value_is_served : forall d c p v,
    held cd d p = Some v ->
    r_res (read d c p) = Ok v /\ r_dict (read d c p) = d /\ r_calls (read d c p) = c.
  Proof. intros d c p v. exact (proj2 (read_frame sentinel check getter cd d c p) v). Qed.

  (* A read touches no entry but the property's own. *)
  Theorem C11_read_touches_only_its_entry : forall d c p z,
    z <> p -> get (r_dict (read d c p)) z = get d z.
  Proof. intros d c p. exact (proj1 (read_frame sentinel check getter cd d c p)). Qed.

  (* Top-level update(kw=v, …): one mutation per keyword, in order (each a
     mutation_spec step, i.e. closure cleared / rest kept); a failing keyword
     stops the run; the original of a copy-on-write call is untouched. *)
  Theorem C11_toplevel_update_is_a_chain : forall d c kws ip,
    Forall (fun kv => sentinel (snd kv) = false) kws ->
    let out := step d c (TopUpdate kws ip) in
    (ip = false -> o_recv out = d) /\ o_calls out = c /\
    exists n t, chain cd d (firstn n (map fst kws)) t /\ stops_at V out ip n (length kws) t.
  Proof. exact (step_top_update sentinel check getter fid apply_f eop apply_e cd wf). Qed.

  Theorem C11_toplevel_transform_is_a_chain : forall d c kws ip,
    (forall f x, sentinel (apply_f f x) = false) ->
    let out := step d c (TopTransform kws ip) in
    (ip = false -> o_recv out = d) /\ o_calls out = c /\
    exists n t, chain cd d (firstn n (map fst kws)) t /\ stops_at V out ip n (length kws) t.
  Proof. exact (step_top_transform sentinel check getter fid apply_f eop apply_e cd wf). Qed.

  (* reset(): one deletion per managed attribute that has something to delete
     or a default to return to (the others raise AttributeError, swallowed). *)
  Theorem C11_toplevel_reset_is_a_chain : forall d c ip,
    let out := step d c (TopReset ip) in
    (ip = false -> o_recv out = d) /\ o_calls out = c /\
    exists l t, chain cd d l t /\ incl l (map fst (c_attrs cd)) /\
                (o_err out = None -> target out = t) /\ (ip = true -> o_recv out = t).
  Proof. exact (step_top_reset sentinel check getter fid apply_f eop apply_e cd wf). Qed.

  (* All histories: at every position of every history from every state, a
     single-attribute mutation satisfies the three clauses. *)
  Theorem C11_every_step_of_every_history : forall h d c n pre o out a,
    nth_step d c h n = Some (pre, o, out) -> single_attr o = Some a ->
    (o_err out <> None -> o_recv out = pre /\ o_res out = None) /\
    (in_place o = false -> o_recv out = pre) /\
    (o_err out = None -> writes_value o pre = true -> mutation_spec cd a pre (target out)).
  Proof. exact (nth_step_single sentinel check getter fid apply_f eop apply_e cd wf). Qed.

  (* Invalidation itself (inside the initializing window or on a class that is
     not frozen) never fails — in particular the worklist always terminates
     within its fuel, whatever the graph (cycles, mutual '*') — and leaves the
     mutated attribute alone. *)
  Theorem C11_invalidation_total : forall d a w,
    w = true \/ c_frozen cd = false ->
    exists d', invalidate_attrs V sentinel check cd d a w = (None, d') /\
               closure_cleared cd a d' /\ unrelated_kept cd a d d' /\ get d' a = get d a.
  Proof. exact (invalidate_spec sentinel check cd wf). Qed.
End C11.

(* The decidable oracle evaluated on the implementation's observations implies
   the propositions: its closure is the dependency closure whenever its
   run-time closedness test passes (check_case returns 3 otherwise). *)
Theorem C11_oracle_closure_exact : forall (cd : cdesc cval) a,
  closed_b cd (closure_b cd a) = true -> forall y, In y (closure_b cd a) <-> reach cd a y.
Proof. exact (@closure_b_exact cval). Qed.

Theorem C11_oracle_sound : forall (cd : cdesc cval) a ns (d d' : dict cval),
  (forall x y, cval_eqb x y = true -> x = y) ->
  closed_b cd (closure_b cd a) = true ->
  closure_cleared_b cd cval_eqb (closure_b cd a) a d' = true ->
  unrelated_kept_b cval_eqb ns (closure_b cd a) d d' = true ->
  closure_cleared cd a d' /\ forall y, In y ns -> ~ reach cd a y -> get d' y = get d y.
Proof.
  intros cd a ns d d' E C H1 H2. split.
  - exact (closure_cleared_b_sound cd cval_eqb E a d' C H1).
  - exact (unrelated_kept_b_sound cd cval_eqb E a ns d d' H2).
Qed.

(* ------------------------------------------------------------------ witnesses *)
(* class X: a (0): int = 1;  c (1) = spec_property(cache, invalidated_by=[a]);
            d (2) = spec_property(cache, invalidated_by=[c]) — the chain a -> c -> d *)
Definition ex_chain : cdesc cval :=
  mkc [(0, mka (Some (VI 1)) None [])]
      [mkl false [(1, mkm (Some (mkpf true true)) [DName 0]);
                  (2, mkm (Some (mkpf true true)) [DName 1])]] false.
Definition ex_types : list (name * Z) := [(0, 0)].

(* non-vacuity of the hypotheses: the class is well formed, the closure of a is
   {a, c, d}, and the state {a = 1; d cached; c NOT cached} is one where the
   theorem has something to do *)
Example C11_chain_example_wf : wf_class ex_chain c_sentinel (c_check ex_types).
Proof.
  split; [repeat constructor; simpl; tauto|]. split.
  - intros n dv H. unfold default_of, attr_of in H. simpl in H.
    destruct n; try discriminate. simpl in H. inversion H. subst. auto.
  - intros n a H. unfold attr_of in H. simpl in H.
    destruct n; try discriminate. inversion H; subst. reflexivity.
Qed.

Example C11_chain_example_closure : reach ex_chain 0 2 /\ closure_b ex_chain 0 = [0; 1; 2].
Proof.
  split; [|vm_compute; reflexivity].
  apply reach_step with (y := 1); [apply reach_step with (y := 0); [constructor|]|];
    eexists; (split; [vm_compute; reflexivity | left; simpl; tauto]).
Qed.

(* the code after the fix: a = 2 on {a = 1, d = 100 cached, c not cached}
   succeeds and drops d *)
Example C11_chain_through_empty_example :
  mutate_attr cval c_sentinel (c_check ex_types) ex_chain [(0, VI 1); (2, VI 100)] 0 (VI 2)
              true true false false false
  = (None, [(0, VI 2)]).
Proof. vm_compute. reflexivity. Qed.

(* DEFECT (a), code before eda062f: the cascade stops at c, which has nothing
   to delete; the mutation succeeds and d — in the closure of a — keeps its
   cached value *)
Example C11_old_cascade_stops_refuted :
  exists d',
    old_mutate_attr cval c_sentinel (c_check ex_types) ex_chain 50 [(0, VI 1); (2, VI 100)] 0 (VI 2)
                    true true false false false = (None, d')
    /\ reach ex_chain 0 2 /\ ~ clean ex_chain d' 2.
Proof.
  eexists. split; [vm_compute; reflexivity|]. split; [exact (proj1 C11_chain_example_closure)|].
  intros [H|[dv [H _]]]; vm_compute in H; discriminate.
Qed.

(* DEFECT (b), code before 4d8435f: class P: a (0): int = 1;  class Q(P) (NOT a
   spec class): c (1) = spec_property(cache, invalidated_by=[a]).  The map of
   P's metadata has no entry for c, the map built for type(obj) = Q has. *)
Definition ex_plain : cdesc cval :=
  mkc [(0, mka (Some (VI 1)) None [])]
      [mkl true [(1, mkm (Some (mkpf true true)) [DName 0])]; mkl false []] false.

Example C11_old_plain_subclass_refuted :
  edge ex_plain 0 1
  /\ old_map cval ex_plain = []
  /\ old_mutate_attr cval c_sentinel (c_check ex_types) ex_plain 50 [(0, VI 1); (1, VI 10)] 0 (VI 2)
                     true true false false false = (None, [(0, VI 2); (1, VI 10)])
  /\ inv_map cval ex_plain = [(DName 0, 1)]
  /\ mutate_attr cval c_sentinel (c_check ex_types) ex_plain [(0, VI 1); (1, VI 10)] 0 (VI 2)
                 true true false false false = (None, [(0, VI 2)]).
Proof.
  split; [eexists; split; [vm_compute; reflexivity | left; simpl; tauto]|].
  repeat split; vm_compute; reflexivity.
Qed.

(* DEFECT (recursion), code before eda062f: class W: a (0): int = 1;
   c (1): int = Attr(default=5, invalidated_by='*'); e (2): int = Attr(default=6,
   invalidated_by='*').  w.a = 2 never returns (RecursionError = out of fuel,
   for every fuel tried) after c and e have been reset: a failed mutation that
   discarded values.  After the fix it succeeds. *)
Definition ex_mutual : cdesc cval :=
  mkc [(0, mka (Some (VI 1)) None []); (1, mka (Some (VI 5)) None [DStar]); (2, mka (Some (VI 6)) None [DStar])]
      [mkl false []] false.
Definition ex_mutual_types : list (name * Z) := [(0, 0); (1, 0); (2, 0)].

Example C11_old_mutual_defaults_refuted :
  old_mutate_attr cval c_sentinel (c_check ex_mutual_types) ex_mutual 200
                  [(0, VI 1); (1, VI 7); (2, VI 8)] 0 (VI 2) true true false false false
    = (Some Fuel, [(2, VI 6); (1, VI 5); (0, VI 2)])
  /\ mutate_attr cval c_sentinel (c_check ex_mutual_types) ex_mutual
                 [(0, VI 1); (1, VI 7); (2, VI 8)] 0 (VI 2) true true false false false
    = (None, [(2, VI 6); (1, VI 5); (0, VI 2)]).
Proof. split; vm_compute; reflexivity. Qed.

(* DEFECT (masking member), code before bc35211: class B: b (0): int = 2;
   z (1): int = 0.  class Q(B) (NOT a spec class): z = spec_property(cache,
   invalidated_by=[b]).  The declaration in force for z is the property's, the
   map builder looked at B's Attr only (no dependencies): z was never
   invalidated.  (A SPEC subclass doing the same — without re-annotating z, and
   with B's Attr declaring other dependencies — kept B's invalidated_by in
   metadata.attrs: wf_class, third clause, was violated by build_attr_spec.) *)
Definition ex_mask : cdesc cval :=
  mkc [(0, mka (Some (VI 2)) None []); (1, mka None (Some (mkpf true true)) [])]
      [mkl true [(1, mkm (Some (mkpf true true)) [DName 0])]; mkl false []] false.

Example C11_old_masking_member_ignored_refuted :
  edge ex_mask 0 1
  /\ build_map cval ex_mask true false = []
  /\ inv_map cval ex_mask = [(DName 0, 1)]
  /\ mutate_attr cval c_sentinel (c_check [(0, 0); (1, 0)]) ex_mask [(0, VI 2); (1, VI 200)] 0 (VI 3)
                 true true false false false = (None, [(0, VI 3)]).
Proof.
  split; [eexists; split; [vm_compute; reflexivity | left; simpl; tauto]|].
  repeat split; vm_compute; reflexivity.
Qed.

(* frozen class: in place refused with nothing changed; on a copy the closure
   is cleared inside the initializing window and the original keeps its cache *)
Definition ex_frozen : cdesc cval :=
  mkc [(0, mka (Some (VI 1)) None [])]
      [mkl false [(1, mkm (Some (mkpf true true)) [DName 0])]] true.
Example C11_frozen_example :
  let d := [(0, VI 1); (1, VI 10)] in
  let st := step cval c_sentinel (c_check ex_types) (c_getter [(1, (0, [(0, 10)]))]) cfid c_apply_f ceop c_apply_e ex_frozen in
  (o_err (st d [] (With 0 (VI 2) true)) = Some FrozenErr /\ o_recv (st d [] (With 0 (VI 2) true)) = d)
  /\ (o_err (st d [] (With 0 (VI 2) false)) = None
      /\ o_recv (st d [] (With 0 (VI 2) false)) = d
      /\ o_res (st d [] (With 0 (VI 2) false)) = Some [(0, VI 2)]).
Proof. vm_compute. repeat split. Qed.

Print Assumptions C11_invalidation_map_is_the_declarations.
Print Assumptions C11_closure_cleared.
Print Assumptions C11_unrelated_kept.
Print Assumptions C11_failed_keeps_all.
Print Assumptions C11_copy_leaves_original.
Print Assumptions C11_next_read_fresh.
Print Assumptions C11_kept_value_is_served.
Print Assumptions C11_read_touches_only_its_entry.
Print Assumptions C11_toplevel_update_is_a_chain.
Print Assumptions C11_toplevel_transform_is_a_chain.
Print Assumptions C11_toplevel_reset_is_a_chain.
Print Assumptions C11_every_step_of_every_history.
Print Assumptions C11_invalidation_total.
Print Assumptions C11_oracle_closure_exact.
Print Assumptions C11_oracle_sound.
Print Assumptions C11_chain_example_wf.
Print Assumptions C11_chain_example_closure.
Print Assumptions C11_chain_through_empty_example.
Print Assumptions C11_old_cascade_stops_refuted.
Print Assumptions C11_old_plain_subclass_refuted.
Print Assumptions C11_old_mutual_defaults_refuted.
Print Assumptions C11_old_masking_member_ignored_refuted.
Print Assumptions C11_frozen_example.
