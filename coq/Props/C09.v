(* C09 — the generated constructor assigns exactly what the class hierarchy specifies.
   Statements only.  Model: Init/Model.v (spec_class.bootstrap / build_attr_spec /
   SpecClassMetadata.for_class, Attr.lookup_default_value, InitMethod.init, the generated
   __init__ wrapper) as of the `fix:` commits 55a92db 119ec2c ee30336 925b6eb a4d0e2e 7fc1bc2
   d7cf259; the code before each fix is the model with one [quirks] flag set.
   Specification: Init/Spec.v ([expected] = expected_init over the class bodies along the MRO).

   FULL STATEMENT (property text): for every class table ct, class c, arguments pos/kw
       out_of (construct cur ct c pos kw) = expected ct c pos kw.
   PROVED in full for single-inheritance tables of any depth mixing spec and plain classes
   with generated constructors (C09_single_inheritance; hypotheses = grammar side conditions
   [wfc] and [key_guard], decidable: C09_single_inheritance_computable).
   PARTIAL:
   - hand-written parent constructors (single inheritance, any depth): proved under the guard
     [ctor_guard] = the hand-written constructors sit on proper ancestors of the constructor's
     class and no key is in force where they are (C09_hand_written_parents_partial).  Missing:
     keyed classes with hand-written constructors - there the statement is FALSE for the current
     code (the key placeholder MISSING is handed to the hand-written constructor:
     C09_placeholder_to_hand_written_refuted, open finding);
   - two spec parents: the executable model and specification cover them and are compared with
     the implementation on every run; proved for them: C09_post_init_at_most_once_any_hierarchy.
     The full statement is FALSE for diamonds (C09_diamond_refuted, open finding); for two
     unrelated lineages it is neither proved nor refuted (no disagreement found by the check);
   - [key_guard] excludes one configuration where the statement is FALSE for the current code:
     a plain class giving a default to a bare key
     (C09_bare_key_defaulted_by_plain_class_refuted, open finding). *)
From Coq Require Import List ZArith Bool Arith.
From SC Require Import Base.Res Init.Model Init.Spec Init.Proofs.
Import ListNotations.
Open Scope nat_scope.

(* the constructed instance (attribute dict in assignment order, __post_init__ and hand-written
   constructor call records, or the error class) is the one the hierarchy specifies *)
Theorem C09_single_inheritance : forall ct c pos kw,
  wf_table ct ->                      (* unique names, <= 1 base per class, defined earlier *)
  In c (map k_id ct) ->
  wfc (anc ct c) ->                   (* grammar side conditions along the ancestry of c *)
  generated_only (anc ct c) ->        (* no hand-written __init__ *)
  key_guard (anc ct c) pos kw ->
  out_of (construct cur ct c pos kw) = expected ct c pos kw.
Proof. exact construct_single_inheritance. Qed.

(* hand-written constructors of the documented shape on proper ancestors: they are called
   with exactly the keywords for the attributes they own (given or defaulted) *)
Theorem C09_hand_written_parents_partial : forall ct c pos kw,
  wf_table ct -> In c (map k_id ct) ->
  wfc (anc ct c) ->
  ctor_guard (anc ct c) ->            (* see above; generated_only implies it *)
  key_guard (anc ct c) pos kw ->
  out_of (construct cur ct c pos kw) = expected ct c pos kw.
Proof. exact construct_single_inheritance_hand. Qed.

(* the same with all hypotheses as one computable test (used by the correspondence check to
   count the compared calls that lie inside the theorem) *)
Theorem C09_single_inheritance_computable : forall ct c pos kw,
  in_scope ct c pos kw = true ->
  out_of (construct cur ct c pos kw) = expected ct c pos kw.
Proof. exact construct_in_scope. Qed.

(* __post_init__: exactly the one type(self) resolves to, exactly once, after all attributes
   (the overflow attribute included) are set *)
Theorem C09_post_init_once : forall ct c pos kw s,
  wf_table ct -> In c (map k_id ct) ->
  wfc (anc ct c) -> generated_only (anc ct c) -> key_guard (anc ct c) pos kw ->
  construct cur ct c pos kw = Ok s ->
  s_post s = match find k_post (anc ct c) with
             | Some k => [(k_id k, map fst (s_dict s))]   (* it finds every attribute set *)
             | None => [] end.
Proof. exact post_init_once. Qed.

(* never twice, for EVERY class table: multiple inheritance, hand-written constructors, any
   depth, any arguments *)
Theorem C09_post_init_at_most_once_any_hierarchy : forall ct c pos kw s,
  construct cur ct c pos kw = Ok s -> length (s_post s) <= 1.
Proof. exact (post_init_at_most_once cur). Qed.

(* bootstrap resolves exactly the declarative reading: attribute order, owner, type, init
   flag, preparer, nearest default, key and overflow attribute *)
Theorem C09_resolve_meets_spec : forall ct c M,
  wf_table ct -> In c (map k_id ct) -> wfc (anc ct c) ->
  nearest_meta (ranc (resolve_all cur ct) c) = Some M ->
  m_key M = key_of (anc ct c)
  /\ m_ovf M = ovf_of (anc ct c)
  /\ map r_name (m_attrs M) = managed (anc ct c)
  /\ forall r, In r (m_attrs M) ->
       r_ty r = ty_of (anc ct c) (r_name r)
       /\ r_init r = init_of (anc ct c) (r_name r)
       /\ owner (anc ct c) (r_name r) = Some (r_owner r)
       /\ r_prep r = prep_of (anc ct c) (r_name r)
       /\ lookup_default (ranc (resolve_all cur ct) c) r
          = nearest_default (Some (r_owner r)) (r_name r) (anc ct c).
Proof. exact resolve_meets_spec. Qed.

(* ------------------------------------------------------------------ non-vacuity *)
Definition deco0 : deco := mkdeco None None DncFalse.

(* K1(key=1, overflow=6): 1: str (key, no default), 2: int = Attr(default=5, init=False),
                          3: List[int] = Attr(default_factory=[1]), _prepare_3 = wrap? no: inc on 4
   K2(K1) plain: 3 = [7]                         (overridden in a plain subclass)
   K3(K2, do_not_copy=[3]): 4: int = 1 with _prepare_4 = v + 1, 1 re-defaulted to "a", __post_init__
   K4(K3) plain: __post_init__ *)
Definition ex_ct : list cdesc :=
  [ mkcdesc 4 [3] None [] [] [] true None;
    mkcdesc 3 [2] (Some (mkdeco None None (DncList [3]))) [(4, TInt)]
            [(4, ELit (AInt 1)); (1, ELit (AStr 1))] [(4, FInc)] true None;
    mkcdesc 2 [1] None [] [(3, ELit (AList [AInt 7]))] [] false None;
    mkcdesc 1 [] (Some (mkdeco (Some (Some 1)) (Some (Some 6)) DncFalse))
            [(1, TStr); (2, TInt); (3, TListInt)]
            [(2, EAttr (DVal (AInt 5)) false false); (3, EAttr (DFac (AList [AInt 1])) true false)]
            [] false None ].

Example C09_nonvacuous_in_scope :
  in_scope ex_ct 4 None [(4, AInt 10); (8, AInt 0); (2, AInt 3)] = true
  /\ in_scope ex_ct 4 (Some (AStr 2)) [] = true
  /\ in_scope ex_ct 1 None [] = true.
Proof. vm_compute. repeat split. Qed.

(* K4(delta=10, zeta=0, beta=3): key from the re-default, list from the plain override, the
   preparer applied to the keyword, the unknown keyword AND the init=False name in the
   overflow attribute, the most derived __post_init__ once *)
Example C09_nonvacuous_result :
  out_of (construct cur ex_ct 4 None [(4, AInt 10); (8, AInt 0); (2, AInt 3)])
  = Ok (mkout [(1, AStr 1); (3, AList [AInt 7]); (4, AInt 11);
               (6, ADict [(8, AInt 0); (2, AInt 3)])] [(4, [1; 3; 4; 6])] [])
  /\ expected ex_ct 4 None [(4, AInt 10); (8, AInt 0); (2, AInt 3)]
     = Ok (mkout [(1, AStr 1); (3, AList [AInt 7]); (4, AInt 11);
                  (6, ADict [(8, AInt 0); (2, AInt 3)])] [(4, [1; 3; 4; 6])] [])
  /\ out_of (construct cur ex_ct 1 None []) = Err TypeErr          (* key required *)
  /\ out_of (construct cur ex_ct 4 (Some (AStr 2)) [(1, AStr 1)]) = Err TypeErr  (* key twice *)
  /\ out_of (construct cur ex_ct 4 None [(4, AStr 1)]) = Err TypeErr. (* "a" + 1 in the preparer *)
Proof. vm_compute. repeat split. Qed.

(* a subclass re-stating in its decorator the key it inherits changes nothing: the key stays
   owned by the declaring class, its default_factory still counts *)
Definition restate_ct : list cdesc :=
  [ mkcdesc 2 [1] (Some (mkdeco (Some (Some 1)) None DncFalse)) [(2, TInt)] [(2, ELit (AInt 1))] [] false None;
    mkcdesc 1 [] (Some (mkdeco (Some (Some 1)) None DncFalse)) [(1, TStr)]
            [(1, EAttr (DFac (AStr 1)) true false)] [] false None ].
Example C09_restated_key :
  out_of (construct cur restate_ct 2 None []) = Ok (mkout [(1, AStr 1); (2, AInt 1)] [] [])
  /\ owner (anc restate_ct 2) 1 = Some 1
  /\ in_scope restate_ct 2 None [] = true.
Proof. vm_compute. repeat split. Qed.

(* the documented example (docsite usage/advanced.md, Subclassing): a hand-written parent
   constructor receives exactly the attributes it owns: Sub() == Sub(x=101, y=100, z=300) *)
Definition doc_ct : list cdesc :=
  [ mkcdesc 2 [1] (Some deco0) [(2, TInt); (3, TInt)]
            [(1, ELit (AInt 100)); (2, ELit (AInt 100)); (3, ELit (AInt 300))] [] false None;
    mkcdesc 1 [] (Some deco0) [(1, TInt); (2, TInt)] [] [] false
            (Some (mkhinit [(1, AInt 10); (2, AInt 10)] [(1, FInc); (2, FInc)])) ].

Example C09_documented_example :
  out_of (construct cur doc_ct 2 None [])
  = Ok (mkout [(1, AInt 101); (2, AInt 100); (A_EXTRA, AList [AInt 100; AInt 10]); (3, AInt 300)] [] [1])
  /\ out_of (construct cur doc_ct 2 None []) = expected doc_ct 2 None []
  /\ in_scope doc_ct 2 None [] = true.       (* inside C09_hand_written_parents_partial *)
Proof. vm_compute. repeat split. Qed.

(* ------------------------------------------------------------------ the code before the fixes *)
Definition q_with (f : nat) : quirks :=
  mkq (f =? 1) (f =? 2) (f =? 3) (f =? 4) (f =? 5) (f =? 6) (f =? 7).

(* 55a92db: a plain class between two spec classes re-ran the grandparent constructor:
   C(b=8).b == 30 *)
Definition ct16 : list cdesc :=
  [ mkcdesc 3 [2] (Some deco0) [(3, TInt)] [(3, ELit (AInt 1))] [] false None;
    mkcdesc 2 [1] None [] [] [] false None;
    mkcdesc 1 [] (Some deco0) [(2, TInt)] [(2, ELit (AInt 30))] [] false None ].
Example C09_plain_parent_refuted :
  out_of (construct (q_with 1) ct16 3 None [(2, AInt 8)]) = Ok (mkout [(2, AInt 30); (3, AInt 1)] [] [])
  /\ expected ct16 3 None [(2, AInt 8)] = Ok (mkout [(2, AInt 8); (3, AInt 1)] [] [])
  /\ in_scope ct16 3 None [(2, AInt 8)] = true.
Proof. vm_compute. repeat split. Qed.

(* 119ec2c: a defaulted init=False attribute of a parent made the subclass unconstructible *)
Definition ct15 : list cdesc :=
  [ mkcdesc 2 [1] (Some deco0) [(3, TInt)] [(3, ELit (AInt 2))] [] false None;
    mkcdesc 1 [] (Some deco0) [(1, TInt); (2, TInt)]
            [(1, EAttr (DVal (AInt 5)) false false); (2, ELit (AInt 1))] [] false None ].
Example C09_noninit_forwarded_refuted :
  out_of (construct (q_with 2) ct15 2 None []) = Err TypeErr
  /\ expected ct15 2 None [] = Ok (mkout [(2, AInt 1); (3, AInt 2)] [] [])
  /\ in_scope ct15 2 None [] = true.
Proof. vm_compute. repeat split. Qed.

(* ee30336: a do_not_copy change in the subclass dropped the inherited default_factory *)
Definition ct_dnc : list cdesc :=
  [ mkcdesc 2 [1] (Some deco0) [] [] [] false None;
    mkcdesc 1 [] (Some (mkdeco None None (DncList [1]))) [(1, TListInt)]
            [(1, EAttr (DFac (AList [])) true false)] [] false None ].
Example C09_rebuild_drops_factory_refuted :
  out_of (construct (q_with 3) ct_dnc 2 None []) = Ok (mkout [] [] [])
  /\ expected ct_dnc 2 None [] = Ok (mkout [(1, AList [])] [] [])
  /\ in_scope ct_dnc 2 None [] = true.
Proof. vm_compute. repeat split. Qed.

(* 925b6eb: a keyword named like the inherited overflow attribute was lost in the subclass *)
Definition ct_ovf : list cdesc :=
  [ mkcdesc 2 [1] (Some deco0) [(2, TInt)] [(2, ELit (AInt 2))] [] false None;
    mkcdesc 1 [] (Some (mkdeco None (Some (Some 6)) DncFalse)) [(1, TInt)] [(1, ELit (AInt 1))] [] false None ].
Example C09_overflow_own_keyword_refuted :
  out_of (construct (q_with 4) ct_ovf 2 None [(6, AInt 5)])
  = Ok (mkout [(1, AInt 1); (2, AInt 2); (6, ADict [])] [] [])
  /\ expected ct_ovf 2 None [(6, AInt 5)]
     = Ok (mkout [(1, AInt 1); (2, AInt 2); (6, ADict [(6, AInt 5)])] [] [])
  /\ in_scope ct_ovf 2 None [(6, AInt 5)] = true.
Proof. vm_compute. repeat split. Qed.

(* a4d0e2e: a keyword naming an init=False attribute vanished under an overflow attribute *)
Definition ct_nio : list cdesc :=
  [ mkcdesc 1 [] (Some (mkdeco None (Some (Some 6)) DncFalse)) [(1, TInt)]
            [(1, EAttr DNone false false)] [] false None ].
Example C09_noninit_keyword_vanishes_refuted :
  out_of (construct (q_with 5) ct_nio 1 None [(1, AInt 9)]) = Ok (mkout [(6, ADict [])] [] [])
  /\ expected ct_nio 1 None [(1, AInt 9)] = Ok (mkout [(6, ADict [(1, AInt 9)])] [] [])
  /\ in_scope ct_nio 1 None [(1, AInt 9)] = true.
Proof. vm_compute. repeat split. Qed.

(* 7fc1bc2: __post_init__ overridden in a plain subclass never ran (the parent's ran instead) *)
Definition ct_post : list cdesc :=
  [ mkcdesc 2 [1] None [] [] [] true None;
    mkcdesc 1 [] (Some deco0) [(1, TInt)] [(1, ELit (AInt 1))] [] true None ].
Example C09_static_post_init_refuted :
  out_of (construct (q_with 6) ct_post 2 None []) = Ok (mkout [(1, AInt 1)] [(1, [1])] [])
  /\ expected ct_post 2 None [] = Ok (mkout [(1, AInt 1)] [(2, [1])] [])
  /\ in_scope ct_post 2 None [] = true.
Proof. vm_compute. repeat split. Qed.

(* d7cf259: the MISSING placeholder of an omitted, defaulted key was forwarded to a
   hand-written parent constructor as the key's value: Sub().key == 0 instead of -3 *)
Definition ct_fwd : list cdesc :=
  [ mkcdesc 2 [1] (Some deco0) [] [] [] false None;
    mkcdesc 1 [] (Some (mkdeco (Some (Some 1)) None DncFalse)) [(1, TInt)] [(1, ELit (AInt (-3)))] [] false
            (Some (mkhinit [(1, AInt 7)] [])) ].
Example C09_missing_forwarded_refuted :
  out_of (construct (q_with 7) ct_fwd 2 None [])
  = Ok (mkout [(1, AInt 0); (A_EXTRA, AList [ANone])] [] [1])
  /\ expected ct_fwd 2 None [] = Ok (mkout [(1, AInt (-3)); (A_EXTRA, AList [AInt (-3)])] [] [1])
  /\ out_of (construct cur ct_fwd 2 None []) = expected ct_fwd 2 None [].
Proof. vm_compute. repeat split. Qed.

(* ------------------------------------------------------------------ open findings (current code) *)
(* a diamond: the re-declaration in the second parent's lineage is ignored in favour of the
   common base's declaration reached through the first parent (K4(K2, K3), K2(K1), K3(K1)) *)
Definition ct_diamond : list cdesc :=
  [ mkcdesc 4 [2; 3] (Some deco0) [] [(1, ELit ANone)] [] false None;
    mkcdesc 3 [1] (Some deco0) [(1, TOptInt)] [] [] false None;
    mkcdesc 2 [1] (Some deco0) [] [] [] false None;
    mkcdesc 1 [] (Some deco0) [(1, TListInt)] [] [] false None ].
Example C09_diamond_refuted :
  out_of (construct cur ct_diamond 4 None []) = Ok (mkout [(1, AList [])] [] [])
  /\ expected ct_diamond 4 None [] = Ok (mkout [(1, ANone)] [] []).
Proof. vm_compute. split; reflexivity. Qed.

(* the key placeholder reaches a hand-written parent constructor: K2(K1, key=None)() fails
   although K1's constructor has a default for its key parameter *)
Definition ct_ph : list cdesc :=
  [ mkcdesc 2 [1] (Some (mkdeco (Some None) None DncFalse)) [] [] [] false None;
    mkcdesc 1 [] (Some (mkdeco (Some (Some 5)) None DncFalse)) [] [] [] false
            (Some (mkhinit [(5, AStr 1)] [])) ].
Example C09_placeholder_to_hand_written_refuted :
  out_of (construct cur ct_ph 2 None []) = Err TypeErr
  /\ expected ct_ph 2 None [] = Ok (mkout [(5, AStr 1); (A_EXTRA, AList [AStr 1])] [] [1]).
Proof. vm_compute. split; reflexivity. Qed.

(* a plain class gives a default to a key that has none: the spec subclass still requires it
   (the case excluded by key_guard) *)
Definition ct_bare : list cdesc :=
  [ mkcdesc 3 [2] (Some deco0) [] [] [] false None;
    mkcdesc 2 [1] None [] [(1, ELit (AStr 2))] [] false None;
    mkcdesc 1 [] (Some (mkdeco (Some (Some 1)) None DncFalse)) [(1, TStr)] [] [] false None ].
Example C09_bare_key_defaulted_by_plain_class_refuted :
  out_of (construct cur ct_bare 3 None []) = Err TypeErr
  /\ expected ct_bare 3 None [] = Ok (mkout [(1, AStr 2)] [] [])
  /\ in_scope ct_bare 3 None [] = false
  /\ in_scope ct_bare 3 (Some (AStr 1)) [] = true.
Proof. vm_compute. repeat split. Qed.

Print Assumptions C09_single_inheritance.
Print Assumptions C09_hand_written_parents_partial.
Print Assumptions C09_single_inheritance_computable.
Print Assumptions C09_post_init_once.
Print Assumptions C09_post_init_at_most_once_any_hierarchy.
Print Assumptions C09_resolve_meets_spec.
Print Assumptions C09_nonvacuous_in_scope.
Print Assumptions C09_nonvacuous_result.
Print Assumptions C09_restated_key.
Print Assumptions C09_documented_example.
Print Assumptions C09_plain_parent_refuted.
Print Assumptions C09_noninit_forwarded_refuted.
Print Assumptions C09_rebuild_drops_factory_refuted.
Print Assumptions C09_overflow_own_keyword_refuted.
Print Assumptions C09_noninit_keyword_vanishes_refuted.
Print Assumptions C09_static_post_init_refuted.
Print Assumptions C09_missing_forwarded_refuted.
Print Assumptions C09_diamond_refuted.
Print Assumptions C09_placeholder_to_hand_written_refuted.
Print Assumptions C09_bare_key_defaulted_by_plain_class_refuted.
