(* Specification of KeyedList (property C13): a plain Python list of items,
   with the one extra rule that two items may never have the same key, and a
   by-key interface defined by linear scan.  Short enough to audit. *)
From Coq Require Import List ZArith Bool.
From SC Require Import Base.Res Base.PyList KL.Model.
Import ListNotations.
Open Scope Z_scope.

Section Spec.
  Context {item K : Type}.
  Variable key : item -> K.
  Variable keqb : K -> K -> bool.
  Variable ieqb : item -> item -> bool.
  Variable valid : item -> bool.
  Variable as_key : item -> option K.
  Variable as_item : K -> option item.

  Notation op := (@op item K).
  Notation out := (@out item K).

  Definition has_key (k : K) (l : list item) : bool :=
    existsb (fun x => keqb k (key x)) l.
  Definition scan (k : K) (l : list item) : option item :=
    find (fun x => keqb k (key x)) l.
  Definition scan_index (k : K) (l : list item) : option nat :=
    find_index (fun x => keqb (key x) k) l.
  Definition view (l : list item) : @st item K :=
    mk l (map (fun x => (key x, x)) l).

  (* may x be added to l? *)
  Definition may_add (l : list item) (x : item) : res unit :=
    if valid x then if has_key (key x) l then Err ValueErr else Ok tt
    else Err TypeErr.

  (* all-or-nothing concatenation; first offending item decides the error *)
  Fixpoint may_add_all (l : list item) (xs : list item) : res (list item) :=
    match xs with
    | [] => Ok l
    | x :: t => match may_add l x with
                | Err e => Err e
                | Ok _ => may_add_all (l ++ [x]) t
                end
    end.

  (* a new container holding xs: duplicate keys first (ValueErr), then types *)
  Fixpoint nodup_keys (l : list item) : bool :=
    match l with
    | [] => true
    | x :: t => negb (has_key (key x) t) && nodup_keys t
    end.
  Definition fresh_typed (xs : list item) : res out :=
    if nodup_keys xs then if forallb valid xs then Ok (RNew (view xs)) else Err TypeErr
    else Err ValueErr.
  Definition fresh_plain (xs : list item) : res out :=
    if nodup_keys xs then Ok (RNew (view xs)) else Err ValueErr.

  Definition replace_at (l : list item) (n : nat) (x : item) : res out * list item :=
    match nth_error l n with
    | None => (Err IndexErr, l)
    | Some old =>
        if valid x then
          if has_key (key x) (remove_at n l) then (Err ValueErr, l)
          else (Ok RNone, set_at n x l)
        else (Err TypeErr, l)
    end.

  Definition delete_at (l : list item) (n : nat) : res out * list item :=
    match nth_error l n with
    | None => (Err IndexErr, l)
    | Some _ => (Ok RNone, remove_at n l)
    end.

  Definition spec_step (l : list item) (o : op) : res out * list item :=
    match o with
    | OGetIdx i => (match norm_index (zlen l) i with
                    | Some n => match nth_error l n with Some x => Ok (RItem x) | None => Err IndexErr end
                    | None => Err IndexErr end, l)
    | OGetKey k => (match scan k l with Some x => Ok (RItem x) | None => Err KeyErr end, l)
    | OGetSlice a b sp =>
        if sp =? 0 then (Err ValueErr, l) else (Ok (RNew (view (py_slice l a b sp))), l)
    | OSetIdx i x => match norm_index (zlen l) i with
                     | Some n => replace_at l n x
                     | None => (Err IndexErr, l) end
    | OSetKey k x => match scan_index k l with
                     | Some n => replace_at l n x
                     | None => (Err KeyErr, l) end
    | OSetSlice => (Err RuntimeErr, l)
    | ODelIdx i => match norm_index (zlen l) i with
                   | Some n => delete_at l n
                   | None => (Err IndexErr, l) end
    | ODelKey k => match scan_index k l with
                   | Some n => delete_at l n
                   | None => (Err KeyErr, l) end
    | ODelSlice => (Err RuntimeErr, l)
    | OInsert i x => match may_add l x with
                     | Err e => (Err e, l)
                     | Ok _ => (Ok RNone, insert_at (clamp_index (zlen l) i) x l) end
    | OInsertBadPos x => match may_add l x with
                         | Err e => (Err e, l)
                         | Ok _ => (Err TypeErr, l) end
    | OAppend x => match may_add l x with
                   | Err e => (Err e, l)
                   | Ok _ => (Ok RNone, l ++ [x]) end
    | OExtend xs | OIAdd xs => match may_add_all l xs with
                               | Err e => (Err e, l)
                               | Ok l' => (Ok RNone, l') end
    | OExtendSelf => match may_add_all l l with
                     | Err e => (Err e, l)
                     | Ok l' => (Ok RNone, l') end
    | OPop i => let idx := match i with Some z => z | None => -1 end in
                match norm_index (zlen l) idx with
                | Some n => match nth_error l n with
                            | Some x => (Ok (RItem x), remove_at n l)
                            | None => (Err IndexErr, l) end
                | None => (Err IndexErr, l) end
    | ORemove x => match find_index (fun v => ieqb v x) l with
                   | Some n => (Ok RNone, remove_at n l)
                   | None => (Err ValueErr, l) end
    | OReverse => (Ok RNone, rev l)
    | OClear => (Ok RNone, [])
    | OAdd xs => (fresh_typed (l ++ xs), l)
    | ORAdd xs => (fresh_typed (xs ++ l), l)
    | OContainsItem x =>
        (Ok (RBool ((match as_key x with Some k => has_key k l | None => false end)
                    || existsb (fun v => ieqb v x) l)), l)
    | OContainsKey k =>
        (Ok (RBool (has_key k l
                    || match as_item k with
                       | Some x => existsb (fun v => ieqb v x) l
                       | None => false end)), l)
    | OIter => (Ok (RItems l), l)
    | OReversed => (Ok (RItems (rev l)), l)
    | OLen => (Ok (RInt (zlen l)), l)
    | OIndex x => (match find_index (fun v => ieqb v x) l with
                   | Some n => Ok (RInt (Z.of_nat n)) | None => Err ValueErr end, l)
    | OCount x => (Ok (RInt (Z.of_nat (count_if (fun v => ieqb v x) l))), l)
    | OGet k => (Ok (ROpt (scan k l)), l)
    | OKeys => (Ok (RKeys (map key l)), l)
    | OItems => (Ok (RPairs (map (fun x => (key x, x)) l)), l)
    | OIndexForKey k => (match scan_index k l with
                         | Some n => Ok (RInt (Z.of_nat n)) | None => Err KeyErr end, l)
    | OEqList xs => (Ok (RBool (list_eqb ieqb l xs)), l)
    end.

  Fixpoint spec_run (l : list item) (ops : list op) : list (res out) * list item :=
    match ops with
    | [] => ([], l)
    | o :: t => let '(r, l') := spec_step l o in
                let '(rs, l'') := spec_run l' t in (r :: rs, l'')
    end.

  (* the spec observes every state-changing operation as all-or-nothing *)
End Spec.
